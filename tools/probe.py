#!/venv/bin/python
"""Mutation probe: copy /repo to a scratch dir, apply one textual change (or a patch), run checks against the
copy (REPO_DIR), report exit codes, delete the copy.
  probe.py --file demeter/aave/core.py --old 'a / b' --new 'b / a' C10 C11
  probe.py --patch /verif/seeded/x/patch.diff C03 [--tier quick] [--tests]"""
import argparse, os, shutil, subprocess, sys, tempfile

ap = argparse.ArgumentParser()
ap.add_argument("--file"); ap.add_argument("--old"); ap.add_argument("--new")
ap.add_argument("--count", type=int, default=1)
ap.add_argument("--patch", action="append", help="patch file(s) applied to the scratch copy (may be repeated)")
ap.add_argument("--revert", help="commit in /repo whose change is reverted in the scratch copy")
ap.add_argument("--tier", default="quick")
ap.add_argument("--tests", action="store_true", help="also run the repo's baseline tests on the mutated copy")
ap.add_argument("--seed", default="0")
ap.add_argument("ids", nargs="+")
a = ap.parse_args()
d = tempfile.mkdtemp(prefix="vprobe-")
try:
    subprocess.run(["rsync", "-a", "--exclude", ".git", "/repo/", d + "/"], check=True)
    if a.revert:
        diff = subprocess.run(["git", "-C", "/repo", "diff", a.revert, a.revert + "^"], check=True, stdout=subprocess.PIPE).stdout
        subprocess.run(["patch", "-p1", "-s", "-d", d], input=diff, check=True)
    if a.patch:
        for pf in a.patch:
            subprocess.run(["patch", "-p1", "-s", "-d", d, "-i", os.path.abspath(pf)], check=True)
    if a.file:
        p = os.path.join(d, a.file)
        s = open(p).read()
        if s.count(a.old) < 1:
            print("PROBE-ERROR: old text not found"); sys.exit(2)
        s = s.replace(a.old, a.new, a.count)
        open(p, "w").write(s)
    env = dict(os.environ, REPO_DIR=d, VERIF_SEED=a.seed)
    rc_all = {}
    for pid in a.ids:
        r = subprocess.run(["/verif/check", pid, "--tier", a.tier, "--no-evidence"], env=env, cwd="/verif",
                           stdout=subprocess.PIPE, stderr=subprocess.STDOUT, text=True)
        lines = [l for l in r.stdout.splitlines() if l.startswith(("VIOLATION", "  mechanism", "INCONCLUSIVE", "[", "KNOWN"))]
        print("\n".join(lines[:12]))
        rc_all[pid] = r.returncode
    if a.tests:
        r = subprocess.run(["/verif/tools/baseline.py"], env=dict(os.environ, REPO_DIR=d), stdout=subprocess.PIPE, stderr=subprocess.STDOUT, text=True)
        print(r.stdout.strip().splitlines()[0] if r.stdout.strip() else "", "tests rc", r.returncode)
    print("PROBE", {k: ("CAUGHT" if v == 1 else ("inconclusive" if v == 3 else "MISSED(silent)")) for k, v in rc_all.items()})
finally:
    shutil.rmtree(d, ignore_errors=True)
