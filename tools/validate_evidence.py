#!/usr/bin/env python3-vt
import json, sys, glob, jsonschema
sch = json.load(open("/root/.vp/EVIDENCE.schema.json"))
bad = 0
for p in sorted(glob.glob("/verif/evidence/*.json")):
    try:
        jsonschema.validate(json.load(open(p)), sch); print("ok ", p)
    except Exception as e:
        bad += 1; print("BAD", p, str(e)[:300])
sys.exit(1 if bad else 0)
