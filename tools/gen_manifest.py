#!/venv/bin/python
"""Regenerates /verif/MANIFEST.json from vmon/registry.py (single source of truth), validates it."""
import json, os, sys
HERE = os.path.dirname(os.path.dirname(os.path.abspath(__file__)))
sys.path.insert(0, HERE)
from vmon import registry as R

props = [json.loads(l) for l in open(os.path.join(HERE, "properties.jsonl"))]
ids = [p["id"] for p in props]
checks, na = [], []
for pid in ids:
    c = R.CHECKS.get(pid)
    if c is None:
        na.append({"property_id": pid, "reason": R.NOT_APPLICABLE.get(pid, "check not built yet in this round; planned in DESIGN.md section 4")})
        continue
    checks.append({
        "property_id": pid,
        "quick_cmd": f"./check {pid} --tier quick",
        "thorough_cmd": f"./check {pid} --tier thorough",
        "evidence_file": f"/verif/evidence/{pid}.json",
        "replay_cmd_template": f"./check {pid} --replay {{path}}",
        "engine": "vmon",
        "level_claimed": {"category": c.get("category", "exploration"), "text": c["text"], "design_ref": f"DESIGN.md section 4, {pid}"},
        "level_note": c["note"],
        "technique": c["technique"],
    })
man = {
    "version": 1,
    "setup_cmd": "/venv/bin/python -c \"import sys; sys.path.insert(0, '/repo'); import demeter, pandas, numpy\" && chmod +x /verif/check",
    "hooks": {
        "guard": "DEMETER_VERIF",
        "enable": "no in-repo hooks: monitors are wrappers installed at run time by /verif/vmon on the classes of /repo's working tree; ./check exports DEMETER_VERIF=1 for future guarded hooks",
        "baseline_off_cmd": "cd /repo && env -u DEMETER_VERIF /venv/bin/python -m pytest -ra -q -p no:cacheprovider --timeout=900 --continue-on-collection-errors",
        "source_commits": [],
        "add_only": True,
    },
    "engines": [{"name": "vmon", "path": "/verif/vmon", "serves_properties": sorted(R.CHECKS), "kind_free_text": "runtime monitors: reference-model oracles, invariants at quiescent points, trace checkers and differential runs over generated workloads, driving the real demeter code from /repo's working tree in sharded subprocesses"}],
    "checks": checks,
    "notes": R.NOTES,
    "not_applicable": na,
}
json.dump(man, open(os.path.join(HERE, "MANIFEST.json"), "w"), indent=1)
try:
    import jsonschema
    jsonschema.validate(man, json.load(open("/root/.vp/MANIFEST.schema.json")))
    print("MANIFEST.json valid;", len(checks), "checks,", len(na), "not_applicable")
except ImportError:
    print("jsonschema not available; written without validation")
