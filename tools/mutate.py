#!/venv/bin/python
"""Mutation sweep: small syntactic changes to the anchored files of /repo, each applied to a scratch copy.

  mutate.py --out /tmp/vlog/mut.jsonl [--per-file 12] [--seed 0] [--jobs 3] [--files demeter/aave/core.py ...]

For every sampled mutant: the pinned tests are run on the copy (a mutant that fails them is 'killed-by-tests' and not
interesting here: the brief asks for changes that still pass the suite), then the quick tier of every check mapped to
the file is run with REPO_DIR=<copy> until one fires.  One JSON line per mutant: file, line, kind, before/after text,
tests, per-check verdicts.  Survivors (tests pass, no check fires) are the holes to look at (or equivalent mutants).
Not registered in MANIFEST: scratch copies live under /tmp and are deleted after each mutant."""
import argparse, ast, concurrent.futures as cf, json, os, random, shutil, subprocess, sys, tempfile

MAP = {
    "demeter/uniswap/liquitidy_math.py": ["C07", "C06", "C09", "C08"],
    "demeter/uniswap/helper.py": ["C06", "C07", "C09", "C02", "C08", "C03"],
    "demeter/uniswap/core.py": ["C08", "C07", "C09"],
    "demeter/uniswap/market.py": ["C09", "C07", "C08", "C04", "C03", "C01"],
    "demeter/aave/core.py": ["C11", "C13", "C12", "C10"],
    "demeter/aave/market.py": ["C13", "C11", "C10", "C12", "C04", "C03"],
    "demeter/aave/helper.py": ["C10", "C13", "C12", "C11"],
    "demeter/squeeth/market.py": ["C14", "C04", "C03", "C01"],
    "demeter/deribit/market.py": ["C15", "C16", "C04", "C05", "C02", "C01"],
    "demeter/deribit/helper.py": ["C15", "C16", "C02"],
    "demeter/gmx/market.py": ["C17", "C04", "C03"],
    "demeter/gmx/market2.py": ["C17", "C04", "C03", "C05"],
    "demeter/gmx/gmx_v2/MarketUtils.py": ["C17"],
    "demeter/result/metrics/core.py": ["C20"],
    "demeter/gmx/gmx_v2/SwapPricingUtils.py": ["C17"],
    "demeter/gmx/gmx_v2/ExecuteDepositUtils.py": ["C17"],
    "demeter/gmx/gmx_v2/ExecuteWithdrawUtils.py": ["C17"],
    "demeter/strategy/trigger.py": ["C18"],
    "demeter/core/actuator.py": ["C05", "C02", "C01", "C18", "C19"],
    "demeter/core/backtest.py": ["C19"],
    "demeter/result/metrics/calculator.py": ["C20"],
    "demeter/broker/broker.py": ["C01", "C03", "C04"],
    "demeter/broker/_typing.py": ["C03", "C04", "C05", "C01"],
}
SKIP_FUNCS = {"update_fee_old", "amounts_relation", "get_sqrt", "position_to_df", "load_aave_data", "decode_instrument", "to_array",
              "get_names", "check_backtest", "amount_in_wei", "__str__", "__repr__", "formatted_str", "description", "load_data", "load_pkl_data", "load_uni_v3_data", "get_output",
              "to_dataframe", "_resample_check", "print_broker", "output", "save_result", "get_greeks", "get_delta_gamma",
              "find_tick_range_at_rate", "config_log", "load_deribit_option_data", "__hash__", "__eq__"}
CMP = {ast.Lt: "<=", ast.LtE: "<", ast.Gt: ">=", ast.GtE: ">", ast.Eq: "!=", ast.NotEq: "=="}
CMP_TXT = {ast.Lt: "<", ast.LtE: "<=", ast.Gt: ">", ast.GtE: ">=", ast.Eq: "==", ast.NotEq: "!="}
BIN = {ast.Add: "-", ast.Sub: "+", ast.Mult: "/", ast.Div: "*"}
BIN_TXT = {ast.Add: "+", ast.Sub: "-", ast.Mult: "*", ast.Div: "/"}


def candidates(src):
    """[(lineno, col, end_col, new_text, kind)] single-line textual replacements derived from the AST"""
    tree = ast.parse(src)
    lines = src.split("\n")
    out = []

    def between(a, b):
        """text position of the operator between two sibling nodes on one line"""
        if a.end_lineno != b.lineno:
            return None
        return a.end_lineno, a.end_col_offset, b.col_offset

    for fn in ast.walk(tree):
        if not isinstance(fn, (ast.FunctionDef, ast.AsyncFunctionDef)) or fn.name in SKIP_FUNCS:
            continue
        for node in ast.walk(fn):
            if isinstance(node, ast.Raise) or isinstance(node, ast.JoinedStr):
                continue
            if isinstance(node, ast.Compare) and len(node.ops) == 1 and type(node.ops[0]) in CMP:
                pos = between(node.left, node.comparators[0])
                if pos:
                    ln, c0, c1 = pos
                    seg = lines[ln - 1][c0:c1]
                    old = CMP_TXT[type(node.ops[0])]
                    if seg.strip() == old:
                        out.append((ln, c0, c1, seg.replace(old, CMP[type(node.ops[0])]), f"cmp {old}->{CMP[type(node.ops[0])]}", fn.name))
            elif isinstance(node, ast.BinOp) and type(node.op) in BIN:
                if isinstance(node.left, ast.Constant) and isinstance(node.left.value, str):
                    continue
                pos = between(node.left, node.right)
                if pos:
                    ln, c0, c1 = pos
                    seg = lines[ln - 1][c0:c1]
                    old = BIN_TXT[type(node.op)]
                    if seg.strip() == old:
                        out.append((ln, c0, c1, seg.replace(old, BIN[type(node.op)]), f"bin {old}->{BIN[type(node.op)]}", fn.name))
            elif isinstance(node, ast.BoolOp) and len(node.values) == 2:
                pos = between(node.values[0], node.values[1])
                if pos:
                    ln, c0, c1 = pos
                    seg = lines[ln - 1][c0:c1]
                    old = "and" if isinstance(node.op, ast.And) else "or"
                    if seg.strip() == old:
                        out.append((ln, c0, c1, seg.replace(old, "or" if old == "and" else "and"), f"bool {old}", fn.name))
            elif isinstance(node, ast.Name) and node.id in ("min", "max") and isinstance(node.ctx, ast.Load):
                out.append((node.lineno, node.col_offset, node.end_col_offset, "max" if node.id == "min" else "min", f"{node.id}-swap", fn.name))
            elif isinstance(node, ast.Expr) and isinstance(node.value, ast.Call) and node.lineno == node.end_lineno:
                txt = lines[node.lineno - 1][node.col_offset:node.end_col_offset]
                if any(k in txt for k in ("log", "print", "warn", "require(", "super()")):
                    continue
                out.append((node.lineno, node.col_offset, node.end_col_offset, "pass", "drop-call", fn.name))
            elif isinstance(node, ast.UnaryOp) and isinstance(node.op, ast.Not) and node.lineno == node.end_lineno:
                out.append((node.lineno, node.col_offset, node.col_offset + 4, "", "drop-not", fn.name))
            elif isinstance(node, ast.Constant) and isinstance(node.value, (int, float)) and not isinstance(node.value, bool) \
                    and node.lineno == node.end_lineno:
                v = node.value
                if v in (0, 1) or (isinstance(v, int) and abs(v) > 10**6):
                    new = {0: "1", 1: "0"}.get(v)
                    if new is None:
                        continue
                elif isinstance(v, int):
                    new = str(v + 1)
                else:
                    new = repr(v * 1.1)
                out.append((node.lineno, node.col_offset, node.end_col_offset, new, f"const {v}->{new}", fn.name))
    # de-duplicate by position
    seen, res = set(), []
    for c in out:
        if c[:3] not in seen:
            seen.add(c[:3])
            res.append(c)
    return res


def run_mutant(job):
    rel, ln, c0, c1, new, kind, fn, tier, seed = job
    d = tempfile.mkdtemp(prefix="vmut-")
    rec = {"file": rel, "line": ln, "func": fn, "kind": kind}
    try:
        subprocess.run(["rsync", "-a", "--exclude", ".git", "/repo/", d + "/"], check=True)
        p = os.path.join(d, rel)
        lines = open(p).read().split("\n")
        before = lines[ln - 1]
        lines[ln - 1] = before[:c0] + new + before[c1:]
        rec["before"], rec["after"] = before.strip()[:160], lines[ln - 1].strip()[:160]
        open(p, "w").write("\n".join(lines))
        r = subprocess.run(["/venv/bin/python", "-c", f"import sys; sys.path.insert(0, {d!r}); import demeter"], stdout=subprocess.PIPE,
                           stderr=subprocess.STDOUT, text=True)
        if r.returncode != 0:
            rec["tests"] = "import-error"
            return rec
        r = subprocess.run(["/verif/tools/baseline.py"], env=dict(os.environ, REPO_DIR=d), stdout=subprocess.PIPE, stderr=subprocess.STDOUT, text=True)
        rec["tests"] = "pass" if r.returncode == 0 else "killed-by-tests"
        if r.returncode != 0:
            return rec
        rec["checks"] = {}
        for pid in MAP[rel]:
            r = subprocess.run(["/verif/check", pid, "--tier", tier, "--no-evidence"], env=dict(os.environ, REPO_DIR=d, VERIF_SEED=str(seed)),
                               cwd="/verif", stdout=subprocess.PIPE, stderr=subprocess.STDOUT, text=True)
            rec["checks"][pid] = {0: "silent", 1: "CAUGHT", 3: "inconclusive"}.get(r.returncode, f"rc{r.returncode}")
            if r.returncode == 1:
                m = [l.strip() for l in r.stdout.splitlines() if l.strip().startswith("mechanism:")]
                rec["mechanism"] = m[0][11:160] if m else ""
                break
            if r.returncode == 3:
                rec["reason"] = [l for l in r.stdout.splitlines() if l.startswith("INCONCLUSIVE")][:1]
        rec["verdict"] = "CAUGHT" if "CAUGHT" in rec["checks"].values() else ("inconclusive" if "inconclusive" in rec["checks"].values() else "SURVIVED")
        return rec
    except Exception as e:  # noqa
        rec["error"] = repr(e)[:300]
        return rec
    finally:
        shutil.rmtree(d, ignore_errors=True)


def main():
    ap = argparse.ArgumentParser()
    ap.add_argument("--out", required=True)
    ap.add_argument("--per-file", type=int, default=12)
    ap.add_argument("--seed", type=int, default=0)
    ap.add_argument("--jobs", type=int, default=3)
    ap.add_argument("--tier", default="quick")
    ap.add_argument("--files", nargs="*")
    a = ap.parse_args()
    rng = random.Random(a.seed)
    jobs = []
    for rel in a.files or MAP:
        src = open(os.path.join("/repo", rel)).read()
        cands = candidates(src)
        rng.shuffle(cands)
        for ln, c0, c1, new, kind, fn in cands[: a.per_file]:
            jobs.append((rel, ln, c0, c1, new, kind, fn, a.tier, a.seed))
    print(f"{len(jobs)} mutants", flush=True)
    with open(a.out, "a") as fh, cf.ThreadPoolExecutor(max_workers=a.jobs) as ex:
        for rec in ex.map(run_mutant, jobs):
            fh.write(json.dumps(rec) + "\n")
            fh.flush()
            print(rec.get("verdict") or rec.get("tests") or rec.get("error"), rec["file"], rec["line"], rec["kind"], flush=True)


if __name__ == "__main__":
    main()
