#!/venv/bin/python
"""Line/branch coverage of /repo/demeter reached by the quick tiers (what the workloads drive, not a verdict).
  coverage_report.py [C01 C02 ...]   -> /tmp/vcov/report.txt (per file: missing lines)
Shards record coverage when VERIF_COVERAGE is set (vmon/shard.py); C19's manager subprocesses are not covered."""
import os, shutil, subprocess, sys

ids = sys.argv[1:] or [f"C{i:02d}" for i in range(1, 21)]
d = "/tmp/vcov"
shutil.rmtree(d, ignore_errors=True)
os.makedirs(d)
env = dict(os.environ, VERIF_COVERAGE=d, COVERAGE_CORE="sysmon")
for pid in ids:
    r = subprocess.run(["/verif/check", pid, "--tier", "quick", "--no-evidence"], env=env, cwd="/verif", stdout=subprocess.PIPE, stderr=subprocess.STDOUT, text=True)
    print(pid, r.returncode, r.stdout.strip().splitlines()[-1][:120], flush=True)
subprocess.run(["/venv/bin/python", "-m", "coverage", "combine", "--data-file", os.path.join(d, ".coverage"), d], check=False)
with open(os.path.join(d, "report.txt"), "w") as fh:
    subprocess.run(["/venv/bin/python", "-m", "coverage", "report", "--data-file", os.path.join(d, ".coverage"), "--show-missing", "--skip-empty"], stdout=fh, check=False)
print(open(os.path.join(d, "report.txt")).read()[-6000:])
