#!/venv/bin/python
"""Confirm a seeded change and run checks against it, all on a scratch copy of /repo (deleted afterwards).
  seedcheck.py /tmp/seeded/C08-1 [--ids C08 C05 ...] [--tier quick] [--store]
Steps: demo PASS on the clean copy; patch applies; demo FAIL on the patched copy; the repo's baseline tests still pass
on the patched copy; each listed check (default: the property named in meta.json) is run with REPO_DIR=<patched copy>.
--store copies patch.diff, demo.py and meta.json (completed with what was run) to /verif/seeded/<name>/."""
import argparse, json, os, re, shutil, subprocess, sys, tempfile

ap = argparse.ArgumentParser()
ap.add_argument("dir")
ap.add_argument("--ids", nargs="*")
ap.add_argument("--tier", default="quick")
ap.add_argument("--seed", default="0")
ap.add_argument("--store", action="store_true")
ap.add_argument("--skip-tests", action="store_true")
a = ap.parse_args()
src = os.path.abspath(a.dir)
name = os.path.basename(src.rstrip("/"))
meta = json.load(open(os.path.join(src, "meta.json"))) if os.path.exists(os.path.join(src, "meta.json")) else {}
prop = meta.get("property") or name.split("-")[0]
ids = a.ids or [prop]
d = tempfile.mkdtemp(prefix="vseed-")
out = {"name": name, "property": prop}
try:
    subprocess.run(["rsync", "-a", "--exclude", ".git", "/repo/", d + "/"], check=True)
    demo_src = open(os.path.join(src, "demo.py")).read()
    demo_local = re.sub(r"/tmp/wt/C\d+", d, demo_src)
    demo_path = os.path.join(d, "_seed_demo.py")
    open(demo_path, "w").write(demo_local)
    env = dict(os.environ, PYTHONPATH=d, TQDM_DISABLE="1", PYTHONDONTWRITEBYTECODE="1")
    cwd = tempfile.mkdtemp(prefix="vseedcwd-")

    def demo():
        try:
            r = subprocess.run(["/venv/bin/python", demo_path], cwd=cwd, env=env, stdout=subprocess.PIPE, stderr=subprocess.STDOUT, text=True, timeout=600)
            return r.returncode, r.stdout[-400:]
        except subprocess.TimeoutExpired:
            return 99, "timeout"

    rc0, o0 = demo()
    out["demo_clean"] = "PASS" if rc0 == 0 else f"rc={rc0}: {o0}"
    r = subprocess.run(["patch", "-p1", "-s", "-d", d, "-i", os.path.join(src, "patch.diff")], stdout=subprocess.PIPE, stderr=subprocess.STDOUT, text=True)
    out["patch_applies"] = r.returncode == 0
    if r.returncode != 0:
        out["patch_error"] = r.stdout[-300:]
    rc1, o1 = demo()
    out["demo_patched"] = "FAIL" if rc1 != 0 else "PASS (not broken?)"
    out["demo_patched_tail"] = o1[-200:]
    if not a.skip_tests:
        r = subprocess.run(["/verif/tools/baseline.py"], env=dict(os.environ, REPO_DIR=d), stdout=subprocess.PIPE, stderr=subprocess.STDOUT, text=True)
        out["tests"] = (r.stdout.strip().splitlines() or ["?"])[0]
        out["tests_ok"] = r.returncode == 0
    os.remove(demo_path)
    res = {}
    for pid in ids:
        r = subprocess.run(["/verif/check", pid, "--tier", a.tier, "--no-evidence"], env=dict(os.environ, REPO_DIR=d, VERIF_SEED=a.seed), cwd="/verif",
                           stdout=subprocess.PIPE, stderr=subprocess.STDOUT, text=True)
        mech = [l.strip()[len("mechanism: "):] for l in r.stdout.splitlines() if l.strip().startswith("mechanism:")]
        res[pid] = {"verdict": {0: "MISSED", 1: "CAUGHT", 3: "inconclusive"}.get(r.returncode, f"rc{r.returncode}"), "mechanisms": mech[:6]}
        if r.returncode == 3:
            res[pid]["reason"] = [l for l in r.stdout.splitlines() if l.startswith("INCONCLUSIVE")][:3]
    out["checks"] = res
    print(json.dumps(out, indent=1))
    if a.store:
        dst = os.path.join("/verif/seeded", name)
        os.makedirs(dst, exist_ok=True)
        if os.path.abspath(dst) != src:
            shutil.copy(os.path.join(src, "patch.diff"), dst)
        open(os.path.join(dst, "demo.py"), "w").write(re.sub(r"/tmp/wt/C\d+", "/repo", demo_src))
        meta["confirmed"] = {k: out.get(k) for k in ("demo_clean", "demo_patched", "patch_applies", "tests", "tests_ok")}
        meta["ran"] = f"tools/seedcheck.py (scratch copy of /repo + patch): demo clean/patched, baseline tests, ./check <id> --tier {a.tier} seed {a.seed}"
        meta["checks"] = res
        json.dump(meta, open(os.path.join(dst, "meta.json"), "w"), indent=1)
finally:
    shutil.rmtree(d, ignore_errors=True)
    shutil.rmtree(cwd, ignore_errors=True)
