#!/venv/bin/python
"""Run the repository's pinned test command with the verification guard OFF and compare with BASELINE.json.
Exit 0 iff every stable_pass test passes."""
import json, os, subprocess, sys, tempfile, xml.etree.ElementTree as ET

base = json.load(open("/root/.vp/BASELINE.json"))
env = dict(os.environ)
env.pop("DEMETER_VERIF", None)
with tempfile.TemporaryDirectory() as d:
    xml = os.path.join(d, "junit.xml")
    cmd = ["/venv/bin/python", "-m", "pytest", "-ra", "-q", "-p", "no:cacheprovider", "--timeout=900",
           "--continue-on-collection-errors", f"--junitxml={xml}"]
    p = subprocess.run(cmd, cwd=os.environ.get("REPO_DIR", "/repo"), env=env, stdout=subprocess.PIPE, stderr=subprocess.STDOUT, text=True)
    passed = set()
    for tc in ET.parse(xml).getroot().iter("testcase"):
        if not any(ch.tag in ("failure", "error", "skipped") for ch in tc):
            passed.add(f"{tc.get('classname')}::{tc.get('name')}")
missing = [t for t in base["stable_pass"] if t not in passed]
print(f"baseline: {len(passed)} passed, {len(base['stable_pass']) - len(missing)}/{len(base['stable_pass'])} of stable_pass")
for t in missing:
    print("MISSING", t)
sys.exit(1 if missing else 0)
