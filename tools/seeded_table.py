#!/usr/bin/env python3
"""Prints the markdown table of /verif/seeded/*/meta.json (which check catches which seeded change) for DESIGN.md §10."""
import glob, json, os
rows = []
for p in sorted(glob.glob("/verif/seeded/*/meta.json")):
    m = json.load(open(p))
    name = os.path.basename(os.path.dirname(p))
    what = (m.get("what_changed") or m.get("what_it_breaks") or "")[:150].replace("|", "/").replace("\n", " ")
    needs = (m.get("needs_to_manifest") or "")[:120].replace("|", "/").replace("\n", " ")
    checks = m.get("checks", {})
    res = "; ".join(f"{k}: {v['verdict']}" + (f" ({v['mechanisms'][0].split('|clause=')[1][:60]})" if v.get("mechanisms") else "") for k, v in checks.items())
    rows.append(f"| {name} | {what} | {needs} | {res} |")
print("| seeded change | what was changed | needs to manifest | result (quick tier) |\n|---|---|---|---|")
print("\n".join(rows))
