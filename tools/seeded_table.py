#!/usr/bin/env python3
"""Rewrites the table of DESIGN.md section 10 from /verif/seeded/*/meta.json (which check catches which seeded change)."""
import glob, json, os, re

rows = []
for p in sorted(glob.glob("/verif/seeded/*/meta.json")):
    m = json.load(open(p))
    name = os.path.basename(os.path.dirname(p))
    what = re.sub(r"\s+", " ", (m.get("what_changed") or "")).replace("|", "/")
    what = what[:170] + ("…" if len(what) > 170 else "")
    needs = re.sub(r"\s+", " ", (m.get("needs_to_manifest") or "")).replace("|", "/")
    needs = needs[:130] + ("…" if len(needs) > 130 else "")
    res = []
    for k, v in (m.get("checks") or {}).items():
        mech = ""
        if v.get("mechanisms"):
            mm = v["mechanisms"][0]
            c = re.search(r"clause=([^|]*)", mm)
            mech = f" ({c.group(1)[:48]})" if c else ""
        res.append(f"{k}: {v['verdict']}{mech}")
    if m.get("first_run"):
        res.append("first run " + str(m["first_run"]).split(".")[0].split(";")[0][:60])
    note = " — rebased" if m.get("rebased") else ""
    note += " — obsolete (see meta.json)" if str(m.get("status", "")).startswith("obsolete") else ""
    rows.append(f"| {name}{note} | {what} | {needs} | {'; '.join(res)} |")
table = "| seeded change | what was changed | needs to manifest | result (quick tier, seed 0) |\n|---|---|---|---|\n" + "\n".join(rows)
path = "/verif/DESIGN.md"
s = open(path).read()
a, b = "<!-- seeded-table:begin -->", "<!-- seeded-table:end -->"
if a in s:
    s = s[: s.index(a) + len(a)] + "\n" + table + "\n" + s[s.index(b):]
    open(path, "w").write(s)
    print("table rewritten:", len(rows), "rows")
else:
    print(table)
