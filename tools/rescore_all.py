#!/venv/bin/python
"""Re-run tools/seedcheck.py --store for every /verif/seeded/<name> (3 at a time) on scratch copies of /repo; the list
of checks per seed is the one already recorded in its meta.json.  Prints one line per seed."""
import concurrent.futures as cf, glob, json, os, subprocess, sys

names = sys.argv[1:] or sorted(os.path.basename(os.path.dirname(p)) for p in glob.glob("/verif/seeded/*/meta.json"))


def one(name):
    d = f"/verif/seeded/{name}"
    meta = json.load(open(f"{d}/meta.json"))
    ids = list((meta.get("checks") or {}).keys()) or [meta.get("property") or name.split("-")[0]]
    r = subprocess.run(["/verif/tools/seedcheck.py", d, "--store", "--ids", *ids], stdout=subprocess.PIPE, stderr=subprocess.STDOUT, text=True)
    try:
        out = json.loads(r.stdout[r.stdout.index("{"):])
    except Exception:
        return f"{name} ERROR {r.stdout[-200:]!r}"
    return f"{name} applies={out.get('patch_applies')} demo={out.get('demo_clean')}/{out.get('demo_patched')} tests_ok={out.get('tests_ok')} " + " ".join(
        f"{k}:{v['verdict']}" for k, v in out.get("checks", {}).items())


with cf.ThreadPoolExecutor(max_workers=int(os.environ.get("RESCORE_JOBS", "3"))) as ex:
    for line in ex.map(one, names):
        print(line, flush=True)
