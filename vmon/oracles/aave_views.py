"""From-scratch recomputation of every derived Aave v3 view (reference model for C13).

Inputs are *raw* facts only: the scaled balances and collateral flags of the positions, the bar's index/rate row,
the price vector and the risk rows (LTV, liquidation threshold) of the generated world.  Nothing is imported from
demeter.  Arithmetic is exact (`Fraction`); every figure carries a rigorous bound for the rounding the real code is
entitled to (Decimal context of 35 digits, rate_to_apy's 31,536,000th power), propagated through the formulas, so a
comparison `|observed - value| <= bound` never asks for more than a correctly rounded implementation delivers and
still resolves differences some twenty orders of magnitude below anything a stale cache produces.

Definitions (Aave v3 / the property statement):
  supply value_k   = scaled_k * liquidity_index_k * price_k        debt value_k = scaled_k * variable_borrow_index_k * price_k
  collateral value = supply value of the positions flagged as collateral
  health factor    = sum(collateral value_k * LT_k) / sum(debt value)         (inf without debt)
  max LTV          = sum(collateral value_k * LTV_k) / sum(collateral value)  (0 without collateral, as Aave v3 defines)
  liq. threshold   = sum(collateral value_k * LT_k) / sum(collateral value)   (0 without collateral, as Aave v3 defines)
  LTV              = sum(debt value) / sum(supply value)                       (inf without supply)
  APY_k            = (1 + rate_k / 31536000) ** 31536000 - 1
  supply/borrow APY= value-weighted mean of APY_k (0 when there is nothing)
  total APY        = (supply APY * supplies - borrow APY * debts) / (supplies - debts)   (0 when supplies == debts)
"""
from decimal import Context, Decimal
from fractions import Fraction

INF = "inf"
SECONDS_IN_A_YEAR = 31536000
_CTX = Context(prec=90)
#: rounding a 35-digit Decimal implementation may accumulate per elementary operation (5e-35 each; 1e-32 covers
#: a couple of hundred chained operations)
OP_REL = Fraction(1, 10**32)
#: floor of every comparison
CMP_REL = Fraction(1, 10**30)
#: (1 + r/N) is rounded to 35 digits (1e-35 relative) and then raised to N = 3.15e7: 3.2e-28 relative on 1 + APY.
APY_ABS = Fraction(1, 10**24)
QUANTUM = Fraction(1, 10**4)


def F(x) -> Fraction:
    if isinstance(x, Fraction):
        return x
    if isinstance(x, bool):
        raise TypeError("bool is not a number here")
    if isinstance(x, int):
        return Fraction(x)
    if isinstance(x, Decimal):
        return Fraction(x)
    return Fraction(str(x))  # numpy scalars, floats written by the harness


class A:
    """value with an absolute error bound (both Fractions); + - * / propagate the bound and add one rounding."""

    __slots__ = ("v", "e")

    def __init__(self, v, e=None):
        self.v = F(v)
        self.e = Fraction(0) if e is None else e

    @staticmethod
    def _c(o):
        return o if isinstance(o, A) else A(o)

    def _r(self, v, e):
        return A(v, e + abs(v) * OP_REL)

    def __add__(self, o):
        o = A._c(o)
        return self._r(self.v + o.v, self.e + o.e)

    __radd__ = __add__

    def __sub__(self, o):
        o = A._c(o)
        # the rounding of a difference is relative to the result, the inherited error to the operands
        return self._r(self.v - o.v, self.e + o.e)

    def __mul__(self, o):
        o = A._c(o)
        return self._r(self.v * o.v, abs(self.v) * o.e + abs(o.v) * self.e + self.e * o.e)

    __rmul__ = __mul__

    def __truediv__(self, o):
        o = A._c(o)
        lo = abs(o.v) - o.e
        if lo <= 0:
            raise ZeroDivisionError("divisor not separated from zero")
        q = self.v / o.v
        return self._r(q, (abs(self.v) * o.e + abs(o.v) * self.e) / (abs(o.v) * lo))

    def separated_from_zero(self):
        return abs(self.v) > 4 * self.e + abs(self.v) * CMP_REL

    def tol(self):
        return 4 * self.e + abs(self.v) * CMP_REL

    def __repr__(self):
        return f"A({float(self.v)!r}±{float(self.e):.1e})"


_apy_cache = {}


def rate_to_apy(rate) -> A:
    key = str(rate)
    hit = _apy_cache.get(key)
    if hit is None:
        r = Decimal(key)
        base = _CTX.add(Decimal(1), _CTX.divide(r, Decimal(SECONDS_IN_A_YEAR)))
        val = Fraction(_CTX.subtract(_CTX.power(base, Decimal(SECONDS_IN_A_YEAR)), Decimal(1)))
        hit = A(val, APY_ABS * (1 + abs(val)))
        if len(_apy_cache) > 20000:
            _apy_cache.clear()
        _apy_cache[key] = hit
    return hit


def _sum(items):
    tot = A(0)
    for x in items:
        tot = tot + x
    return tot


def _ratio(num: A, den: A, if_zero):
    """num/den; `if_zero` when den is exactly zero; None when den cannot be told from zero (comparison skipped)."""
    if den.v == 0 and den.e == 0:
        return if_zero
    if not den.separated_from_zero():
        return None
    return num / den


class Expected:
    """All derived views recomputed from (supplies, borrows, row, prices, risk).

    supplies: {name: (scaled Decimal, collateral bool, begin_index)}   borrows: {name: (scaled Decimal, begin_index)}
    row: {name: {"liquidity_index","variable_borrow_index","liquidity_rate","variable_borrow_rate"}}
    prices: {name: price}   risk: {name: {"ltv","lt"}}
    Views are `A`, `INF`, or None (= undecidable division, skip)."""

    def __init__(self, supplies, borrows, row, prices, risk):
        self.raw_supplies = dict(supplies)
        self.raw_borrows = dict(borrows)
        self.sup = {}
        self.bor = {}
        self.supplies_value = {}
        self.collateral_value = {}
        self.borrows_value = {}
        for name, (scaled, coll, begin) in supplies.items():
            amount = A(scaled) * A(row[name]["liquidity_index"])
            value = amount * A(prices[name])
            self.supplies_value[name] = value
            if coll:
                self.collateral_value[name] = value
            self.sup[name] = {
                "base_amount": scaled, "collateral": bool(coll), "amount": amount,
                "apy": rate_to_apy(row[name]["liquidity_rate"]), "value": value, "begin": begin,
            }
        for name, (scaled, begin) in borrows.items():
            amount = A(scaled) * A(row[name]["variable_borrow_index"])
            value = amount * A(prices[name])
            self.borrows_value[name] = value
            self.bor[name] = {
                "base_amount": scaled, "amount": amount, "apy": rate_to_apy(row[name]["variable_borrow_rate"]),
                "value": value, "begin": begin,
            }
        self.total_supply_value = _sum(self.supplies_value.values())
        self.total_collateral_value = _sum(self.collateral_value.values())
        self.total_borrows_value = _sum(self.borrows_value.values())
        lt_sum = _sum(v * A(risk[k]["lt"]) for k, v in self.collateral_value.items())
        ltv_sum = _sum(v * A(risk[k]["ltv"]) for k, v in self.collateral_value.items())
        self.health_factor = _ratio(lt_sum, self.total_borrows_value, INF)
        # Aave v3 (calculateUserAccountData) defines both weighted figures as 0 for an account without collateral
        self.max_ltv = _ratio(ltv_sum, self.total_collateral_value, A(0))
        self.liquidation_threshold = _ratio(lt_sum, self.total_collateral_value, A(0))
        self.ltv = _ratio(self.total_borrows_value, self.total_supply_value, INF)
        if not self.supplies_value:
            self.supply_apy = A(0)
        else:
            self.supply_apy = _ratio(
                _sum(v * self.sup[k]["apy"] for k, v in self.supplies_value.items()), self.total_supply_value, A(0)
            )
        if not self.borrows_value:
            self.borrow_apy = A(0)
        else:
            self.borrow_apy = _ratio(
                _sum(v * self.bor[k]["apy"] for k, v in self.borrows_value.items()), self.total_borrows_value, A(0)
            )
        if self.supply_apy is None or self.borrow_apy is None:
            self.total_apy = None
        else:
            self.total_apy = _ratio(
                self.supply_apy * self.total_supply_value - self.borrow_apy * self.total_borrows_value,
                self.total_supply_value - self.total_borrows_value, A(0),
            )

    def state_class(self):
        ns, nc, nb = len(self.supplies_value), len(self.collateral_value), len(self.borrows_value)
        hf = self.health_factor
        if hf is INF or hf is None:
            h = "nodebt"
        elif hf.v < 1:
            h = "hf<1"
        elif hf.v < Fraction(11, 10):
            h = "hf~1"
        else:
            h = "hf>1"
        return f"s{min(ns, 3)}c{min(nc, 2)}b{min(nb, 2)}{h}"


# ----------------------------------------------------------------------------------------------- comparisons
def near(got, exp):
    """True / False / None (None = the oracle cannot decide: skipped).  got: Decimal-like; exp: A | INF | None."""
    if exp is None:
        return None
    try:
        d = got if isinstance(got, Decimal) else Decimal(str(got))
    except Exception:
        return False
    if exp is INF:
        return d.is_infinite() and d > 0
    if not d.is_finite():
        return False
    return abs(Fraction(d) - exp.v) <= exp.tol()


def near_quantised(got, exp, quantum=QUANTUM):
    """got must be a multiple of `quantum` within half a quantum (+ bound) of the exact value: a correct rounding to the
    quantum, ties either way.  INF passes through unrounded."""
    if exp is None:
        return None
    try:
        d = got if isinstance(got, Decimal) else Decimal(str(got))
    except Exception:
        return False
    if exp is INF:
        return d.is_infinite() and d > 0
    if not d.is_finite():
        return False
    g = Fraction(d)
    if (g / quantum).denominator != 1:
        return False
    return abs(g - exp.v) <= quantum / 2 + exp.tol()


def show(exp):
    if exp is None:
        return "undecidable"
    if exp is INF:
        return "inf"
    return f"{float(exp.v)!r}"
