"""Reference model of the per-bar Uniswap v3 LP fee used by demeter's back test (property C08).

    fee_token = bar volume_token x pool fee rate x in-range fraction of the tick path [previous close, close]
                x share of active liquidity

Exact arithmetic (ints and Fractions).  Imports nothing from demeter."""
from fractions import Fraction

CLASSES = ("below", "lower", "in", "upper", "above")


def as_tick(x) -> int:
    """Ticks arrive as python ints, numpy int64 or integer-valued floats (gap-filled files)."""
    f = float(x)
    i = int(round(f))
    if i != f:
        raise ValueError(f"non-integer tick {x!r}")
    return i


def tick_class(t: int, lower: int, upper: int) -> str:
    """Position of a tick relative to the closed range [lower, upper]."""
    if t < lower:
        return "below"
    if t == lower:
        return "lower"
    if t < upper:
        return "in"
    if t == upper:
        return "upper"
    return "above"


def active(t: int, lower: int, upper: int) -> bool:
    """A position's liquidity is active at tick t iff lower <= t < upper (Uniswap v3)."""
    return lower <= t < upper


def path_fraction(a: int, b: int, lower: int, upper: int, closed_upper=False) -> Fraction:
    """Fraction of the tick path [a, b] lying inside [lower, upper]; a stationary path counts fully iff the tick
    is active.  closed_upper is only used by the diagnostic alternatives."""
    if a == b:
        ok = (lower <= b <= upper) if closed_upper else active(b, lower, upper)
        return Fraction(1 if ok else 0)
    lo, hi = (a, b) if a < b else (b, a)
    inter = min(hi, upper) - max(lo, lower)
    if inter <= 0:
        return Fraction(0)
    return Fraction(inter, hi - lo)


def share_single(own: int, pool: int) -> Fraction:
    """own / (pool + own): the share when the position is the only one, the upper bound otherwise."""
    if pool + own == 0:
        return Fraction(0)
    return Fraction(own, pool + own)


def share_floor(own: int, pool: int, own_total: int) -> Fraction:
    """own / (pool + all own liquidity): active liquidity can never be more than that."""
    if pool + own_total == 0:
        return Fraction(0)
    return Fraction(own, pool + own_total)


def rate_of(fee_percent) -> Fraction:
    """Pool fee tier given in percent (0.05 -> 0.0005)."""
    return Fraction(str(fee_percent)) / 100


def fee(volume_atomic: int, decimals: int, rate: Fraction, fraction: Fraction, share: Fraction) -> Fraction:
    return Fraction(int(volume_atomic), 10**decimals) * rate * fraction * share


def resample_bars(closes, vol0, vol1, liq, minutes_from_midnight, width):
    """Bars of `width` minutes (aligned to the start of the day) from minute rows: close = last close,
    volume = sum, pool liquidity = last.  Returns (labels_in_minutes, bars)."""
    out = []
    labels = []
    cur = None
    for c, v0, v1, l, mm in zip(closes, vol0, vol1, liq, minutes_from_midnight):
        b = mm // width
        if b != cur:
            cur = b
            labels.append(b * width)
            out.append({"close": c, "vol0": 0, "vol1": 0, "liq": l, "rows": 0})
        bar = out[-1]
        bar["close"] = c
        bar["vol0"] += v0
        bar["vol1"] += v1
        bar["liq"] = l
        bar["rows"] += 1
    return labels, out


def alternatives(a, b, prev_a, lower, upper, own, pool, own_total, own_total_bar_start, vols, prev_vols, decs, rate):
    """Named wrong models, used only to give a violation a precise mechanism (never to accept anything).
    Yields (name, (fee0, fee1))."""
    fr = path_fraction(a, b, lower, upper)
    sh = share_floor(own, pool, own_total)

    def both(fraction, share, v=vols):
        return (fee(v[0], decs[0], rate, fraction, share), fee(v[1], decs[1], rate, fraction, share))

    yield "path-start=current-close", both(path_fraction(b, b, lower, upper), sh)
    if prev_a is not None:
        yield "path-start=close-two-bars-back", both(path_fraction(prev_a, b, lower, upper), sh)
    yield "own-liquidity-counted-twice", both(fr, share_floor(own, pool, 2 * own_total))
    yield "own-liquidity-not-added-to-pool", both(fr, Fraction(own, pool) if pool else Fraction(0))
    if own_total_bar_start != own_total:
        yield "pool-liquidity-not-refreshed-after-write", both(fr, Fraction(own, pool + own_total_bar_start) if pool + own_total_bar_start else Fraction(0))
    yield "path-weight-ignored", both(Fraction(1) if fr > 0 else Fraction(0), sh)
    yield "full-weight-regardless-of-range", both(Fraction(1), sh)
    yield "nothing-earned", (Fraction(0), Fraction(0))
    yield "upper-bound-treated-as-in-range", both(path_fraction(a, b, lower, upper, closed_upper=True), sh)
    if a != b:
        lo, hi = min(a, b), max(a, b)
        yield "weight-over-range-width", both(Fraction(max(0, min(hi, upper) - max(lo, lower)), max(1, upper - lower)), sh)
    sw = (fee(vols[1], decs[0], rate, fr, sh), fee(vols[0], decs[1], rate, fr, sh))
    yield "token-volumes-swapped", sw
    if prev_vols is not None:
        yield "previous-bar-volume", both(fr, sh, prev_vols)
    yield "fee-rate-off-by-100", tuple(x * 100 for x in both(fr, sh))
    yield "fee-rate-missing", tuple(x / rate for x in both(fr, sh))
