"""Reference model for C12 (Aave v3 liquidation at the end of a bar), exact arithmetic (fractions.Fraction).

Nothing is imported from demeter.  The model does not *predict* which pair the code liquidates or how much it
repays (the property only bounds the repayment from above); it replays the recorded steps one by one and checks
every clause of the property against the state the step started from.

State  : supplies {token: (scaled Fraction, collateral flag)}, borrows {token: scaled Fraction}
Env    : per token liquidity index, variable borrow index, price, liquidation threshold, liquidation bonus
Record : one liquidation step as recorded by the code (token names and amounts as Fractions)

Tolerances (the statement gives none; the code computes in Decimal with 35 significant digits and drops
scaled balances below 1e-18):
  REL   1e-15 relative on every compared amount
  DUST  2e-18 scaled units (what helper.sub_base_amount may clamp away), converted with the token's own index
  BAND  a health factor within 1e-25 relative of a threshold (1 or 0.95) without being exactly on it may be
        classified either way (Decimal rounding of the code's own health factor); exactly on it is decided strictly.
"""
from fractions import Fraction

ONE = Fraction(1)
HF_LIQ = Fraction(1)
HF_CLOSE = Fraction(95, 100)
CF_DEFAULT = Fraction(1, 2)
CF_MAX = Fraction(1)
REL = Fraction(1, 10**15)
DUST = Fraction(2, 10**18)
BAND = Fraction(1, 10**25)
SCALE_REL = Fraction(1, 10**28)  # rounding of a difference of two 35-digit valuations, relative to gross size


def F(x):
    """Fraction from Decimal / int / str / Fraction (never from a float or a numpy scalar)."""
    if isinstance(x, Fraction):
        return x
    if isinstance(x, int):
        return Fraction(x)
    return Fraction(str(x))


class Env:
    def __init__(self, li, bi, price, lt, bonus):
        self.li, self.bi, self.price, self.lt, self.bonus = li, bi, price, lt, bonus


class State:
    def __init__(self, sup=None, bor=None):
        self.sup = dict(sup or {})  # name -> (scaled, collateral flag)
        self.bor = dict(bor or {})  # name -> scaled

    def copy(self):
        return State(self.sup, self.bor)

    def __eq__(self, other):
        return self.sup == other.sup and self.bor == other.bor


class Rec:
    """One recorded liquidation step."""

    def __init__(self, collateral_token, debt_token, collateral_used, debt_repaid, hf_before, hf_after,
                 collateral_after, debt_after, debt_to_cover=None):
        self.c, self.d = collateral_token, debt_token
        self.seized, self.repaid = collateral_used, debt_repaid
        self.hf_before, self.hf_after = hf_before, hf_after  # Fraction or None (= infinite)
        self.c_after, self.d_after = collateral_after, debt_after
        self.to_cover = debt_to_cover


# ------------------------------------------------------------------ definitions
def collateral_weighted(st, env):
    return sum((s * env.li[k] * env.price[k] * env.lt[k] for k, (s, c) in st.sup.items() if c), Fraction(0))


def collateral_plain(st, env):
    return sum((s * env.li[k] * env.price[k] for k, (s, c) in st.sup.items() if c), Fraction(0))


def debt_value(st, env):
    return sum((s * env.bi[k] * env.price[k] for k, s in st.bor.items()), Fraction(0))


def supply_value(st, env):
    return sum((s * env.li[k] * env.price[k] for k, (s, c) in st.sup.items()), Fraction(0))


def health_factor(st, env):
    """None = infinite (no debt)."""
    d = debt_value(st, env)
    if d == 0:
        return None
    return collateral_weighted(st, env) / d


def net_value(st, env):
    return supply_value(st, env) - debt_value(st, env)


def side(hf, threshold):
    """-1 below, +1 above, 0 exactly on, None = inside the rounding band (either)."""
    if hf is None:
        return 1
    if hf == threshold:
        return 0
    if abs(hf - threshold) <= BAND * threshold:
        return None
    return -1 if hf < threshold else 1


def close(a, b, extra=Fraction(0)):
    return abs(a - b) <= REL * max(abs(a), abs(b)) + extra


def hf_close(a, b):
    if a is None or b is None:
        return a is None and b is None
    return close(a, b)


# ------------------------------------------------------------------ one step
def check_step(pre, env, rec, post=None):
    """Checks one recorded step against the state `pre` it started from.  `post` is the state observed right after
    the step (None: not observed; then the state is advanced by the recorded amounts with each token's own index).
    Returns (failures [(clause, detail)], next state, info dict for classification)."""
    fails = []
    info = {}

    def fail(clause, detail):
        fails.append((clause, detail))

    c, d = rec.c, rec.d
    if d not in pre.bor or pre.bor[d] <= 0:
        fail("debt-token-not-owed", f"step repays {d}, which is not a debt before the step")
        return fails, (post if post is not None else pre.copy()), info
    if c not in pre.sup or not pre.sup[c][1] or pre.sup[c][0] <= 0:
        fail("collateral-token-not-collateral", f"step seizes {c}, which is not an enabled collateral before the step")
        return fails, (post if post is not None else pre.copy()), info

    hf0 = health_factor(pre, env)
    s1 = side(hf0, HF_LIQ)
    info["hf0"] = hf0
    if s1 is not None and s1 >= 0:
        fail("step-at-hf>=1", f"a liquidation step was made at health factor {float(hf0):.18g} (not below 1)")

    # amounts are non-negative
    for nm, v in (("collateral_used", rec.seized), ("variable_delt_liquidated", rec.repaid),
                  ("collateral_after", rec.c_after), ("variable_debt_after", rec.d_after)):
        if v < 0:
            fail("negative-amount:" + nm, f"{nm} = {float(v)!r}")

    debt_amt = pre.bor[d] * env.bi[d]
    coll_amt = pre.sup[c][0] * env.li[c]
    # close factor
    s95 = side(hf0, HF_CLOSE)
    if s95 is None:
        cf = CF_MAX
    else:
        cf = CF_DEFAULT if s95 > 0 else CF_MAX
    info["cf"] = cf
    info["cf_band"] = s95 is None
    limit = cf * debt_amt
    if rec.repaid > limit * (1 + REL) + DUST * env.bi[d]:
        fail(
            "repaid>close-factor" + ("-50%" if cf == CF_DEFAULT else "-100%"),
            f"{d}: repaid {float(rec.repaid)!r} of a debt of {float(debt_amt)!r} at health factor {float(hf0):.18g}: "
            f"more than {float(cf)} of it",
        )
    # bonus: seized value = repaid value * (1 + bonus of the collateral), and no more than the whole collateral
    want_seized = rec.repaid * env.price[d] * (1 + env.bonus[c]) / env.price[c]
    if not close(rec.seized, want_seized, DUST * env.li[c]):
        fail(
            "seized!=repaid*(1+bonus)",
            f"seized {float(rec.seized)!r} {c} for {float(rec.repaid)!r} {d}: expected {float(want_seized)!r} "
            f"(prices {float(env.price[c])!r}/{float(env.price[d])!r}, bonus of {c} {float(env.bonus[c])})",
        )
    if rec.seized > coll_amt * (1 + REL) + DUST * env.li[c]:
        fail("seized>collateral", f"seized {float(rec.seized)!r} {c} of a collateral of {float(coll_amt)!r}")
    capped = close(rec.seized, coll_amt, DUST * env.li[c])
    info["capped"] = capped
    if close(rec.repaid, limit, DUST * env.bi[d]):
        info["repay_class"] = "close-factor"
    elif capped:
        info["repay_class"] = "all-collateral"
    elif close(rec.repaid, debt_amt * env.price[d]):
        info["repay_class"] = "debt-value-as-amount"  # the USD value of the debt used as a token amount (price < cf)
    else:
        info["repay_class"] = "other"
    info["repaid_frac"] = rec.repaid / debt_amt

    # next state by the record, each token's own index
    nxt = pre.copy()
    sc = pre.sup[c][0] - rec.seized / env.li[c]
    sd = pre.bor[d] - rec.repaid / env.bi[d]
    if sc < DUST:
        nxt.sup.pop(c)
    else:
        nxt.sup[c] = (sc, pre.sup[c][1])
    if sd < DUST:
        nxt.bor.pop(d)
    else:
        nxt.bor[d] = sd

    if post is not None:
        # record vs observed state change
        got_c = post.sup.get(c, (Fraction(0), True))[0]
        got_d = post.bor.get(d, Fraction(0))
        if not close((pre.sup[c][0] - got_c) * env.li[c], rec.seized, DUST * env.li[c]):
            fail(
                "record!=state:collateral",
                f"{c}: recorded collateral_used {float(rec.seized)!r} but the position lost "
                f"{float((pre.sup[c][0] - got_c) * env.li[c])!r} (scaled {float(pre.sup[c][0])!r} -> {float(got_c)!r}, "
                f"own liquidity index {float(env.li[c])!r}; liquidity index of {d} {float(env.li[d])!r})",
            )
        if not close((pre.bor[d] - got_d) * env.bi[d], rec.repaid, DUST * env.bi[d]):
            fail(
                "record!=state:debt",
                f"{d}: recorded variable_delt_liquidated {float(rec.repaid)!r} but the debt fell by "
                f"{float((pre.bor[d] - got_d) * env.bi[d])!r}",
            )
        if got_c < 0 or got_d < 0:
            fail("negative-position", f"after the step scaled {c} = {float(got_c)!r}, scaled {d} debt = {float(got_d)!r}")
        # nothing else moved
        for k in set(pre.sup) | set(post.sup):
            if k != c and pre.sup.get(k) != post.sup.get(k):
                fail("other-supply-changed", f"step on ({c},{d}) changed supply {k}: {pre.sup.get(k)} -> {post.sup.get(k)}")
        if c in post.sup and post.sup[c][1] != pre.sup[c][1]:
            fail("collateral-flag-changed", f"{c} flag {pre.sup[c][1]} -> {post.sup[c][1]}")
        for k in set(pre.bor) | set(post.bor):
            if k != d and pre.bor.get(k) != post.bor.get(k):
                fail("other-borrow-changed", f"step on ({c},{d}) changed debt {k}: {pre.bor.get(k)} -> {post.bor.get(k)}")
        after = post
    else:
        after = nxt

    # recorded *_after and health factors describe the state
    a_c = after.sup.get(c, (Fraction(0), True))[0] * env.li[c]
    a_d = after.bor.get(d, Fraction(0)) * env.bi[d]
    if not close(rec.c_after, a_c, DUST * env.li[c]):
        fail("record!=state:collateral_after", f"{c}: recorded collateral_after {float(rec.c_after)!r}, position holds {float(a_c)!r}")
    if not close(rec.d_after, a_d, DUST * env.bi[d]):
        fail("record!=state:variable_debt_after", f"{d}: recorded variable_debt_after {float(rec.d_after)!r}, debt is {float(a_d)!r}")
    if not hf_close(rec.hf_before, hf0):
        fail("record!=state:health_factor_before", f"recorded {rec.hf_before and float(rec.hf_before)!r}, state gives {hf0 and float(hf0)!r}")
    hf1 = health_factor(after, env)
    info["hf1"] = hf1
    if not hf_close(rec.hf_after, hf1):
        fail("record!=state:health_factor_after", f"recorded {rec.hf_after and float(rec.hf_after)!r}, state gives {hf1 and float(hf1)!r}")

    # net value falls by exactly bonus * repaid value
    want_drop = env.bonus[c] * rec.repaid * env.price[d]
    got_drop = net_value(pre, env) - net_value(after, env)
    gross = supply_value(pre, env) + debt_value(pre, env)
    slack = REL * want_drop + SCALE_REL * gross + DUST * (env.li[c] * env.price[c] + env.bi[d] * env.price[d])
    info["drop"] = want_drop
    if abs(got_drop - want_drop) > slack:
        fail(
            "net-value-drop!=bonus*repaid",
            f"net value fell by {float(got_drop)!r}, bonus {float(env.bonus[c])} x repaid value "
            f"{float(rec.repaid * env.price[d])!r} = {float(want_drop)!r}",
        )
    return fails, after, info


# ------------------------------------------------------------------ a whole update()
def check_update(pre, env, recs, posts, final):
    """pre: state before update(); recs: recorded steps in order; posts: observed state after each step (list of
    State, or None when not observed); final: observed state after update().
    Returns (failures, infos, summary)."""
    fails = []
    infos = []
    hf_start = health_factor(pre, env)
    st = pre
    visited = []
    for i, rec in enumerate(recs):
        post = posts[i] if posts is not None else None
        f, st, info = check_step(st, env, rec, post)
        info["i"] = i
        fails.extend(f)
        infos.append(info)
        if rec.d in visited:
            fails.append(("debt-visited-twice", f"{rec.d} was liquidated twice in one bar (steps {visited + [rec.d]})"))
        visited.append(rec.d)
    # the state after the last step is the state after update()
    if posts is not None:
        if st != final:
            fails.append(("state-changed-without-record", f"state after the last recorded step differs from the state after update(): {_diff(st, final)}"))
    else:
        d = _approx_diff(st, final, env)
        if d:
            fails.append(("replayed-end-state!=real", "; ".join(d)))
    # iff and termination
    s = side(hf_start, HF_LIQ)
    has_coll = any(c and v > 0 for v, c in pre.sup.values())
    summary = {"hf_start": hf_start, "steps": len(recs), "has_collateral": has_coll}
    if hf_start is not None and s is not None and s < 0 and has_coll and not recs:
        fails.append(("not-liquidated-below-1", f"health factor {float(hf_start):.18g} < 1 with collateral, and no liquidation was recorded"))
    hf_end = health_factor(final, env)
    e = side(hf_end, HF_LIQ)
    coll_left = any(c and v > 0 for v, c in final.sup.values())
    unvisited = [k for k in pre.bor if k not in visited and k in final.bor]
    summary.update(hf_end=hf_end, collateral_left=coll_left, unvisited=unvisited)
    if recs and e is not None and e < 0 and coll_left and unvisited:
        fails.append((
            "stopped-early",
            f"ended at health factor {float(hf_end):.18g} < 1 with collateral left and debts never visited: {unvisited}",
        ))
    if e is None or e >= 0:
        summary["end"] = "hf>=1"
    elif not coll_left:
        summary["end"] = "no-collateral"
    elif not unvisited:
        summary["end"] = "all-debts-visited"
    else:
        summary["end"] = "none"
    return fails, infos, summary


def _diff(a, b):
    out = []
    for k in sorted(set(a.sup) | set(b.sup)):
        if a.sup.get(k) != b.sup.get(k):
            out.append(f"supply {k}: {a.sup.get(k)} -> {b.sup.get(k)}")
    for k in sorted(set(a.bor) | set(b.bor)):
        if a.bor.get(k) != b.bor.get(k):
            out.append(f"debt {k}: {a.bor.get(k)} -> {b.bor.get(k)}")
    return "; ".join(out)[:600]


def _approx_diff(rep, real, env):
    out = []
    for k in sorted(set(rep.sup) | set(real.sup)):
        a = rep.sup.get(k, (Fraction(0), None))
        b = real.sup.get(k, (Fraction(0), None))
        if not close(a[0], b[0], DUST):
            out.append(
                f"supply {k}: replaying the records with the token's own liquidity index gives scaled {float(a[0])!r}, "
                f"the position holds {float(b[0])!r} (ratio {float(b[0] / a[0]) if a[0] else 'n/a'})"
            )
        elif a[1] is not None and b[1] is not None and a[1] != b[1]:
            out.append(f"supply {k}: collateral flag {a[1]} -> {b[1]}")
    for k in sorted(set(rep.bor) | set(real.bor)):
        a = rep.bor.get(k, Fraction(0))
        b = real.bor.get(k, Fraction(0))
        if not close(a, b, DUST):
            out.append(f"debt {k}: replayed scaled {float(a)!r}, real {float(b)!r}")
    return out
