"""High-precision reference for Uniswap v3 TickMath.  Imports nothing from demeter."""
from decimal import Decimal, Context, ROUND_HALF_EVEN
from fractions import Fraction

MIN_TICK = -887272
MAX_TICK = 887272
MIN_SQRT_RATIO = 4295128739
MAX_SQRT_RATIO = 1461446703485210103287273052203988822378723970342
Q96 = 2**96

CTX = Context(prec=90, rounding=ROUND_HALF_EVEN, Emax=999999, Emin=-999999)
D_1P0001 = Decimal("1.0001")
SQRT_1P0001 = CTX.sqrt(D_1P0001)
INV_SQRT_1P0001 = CTX.divide(Decimal(1), SQRT_1P0001)
D_Q96 = Decimal(Q96)
D_2_128 = Decimal(2**128)


def sqrt_price_real(tick: int) -> Decimal:
    """1.0001^(tick/2) at 90 digits (exact power of the exact base, then one sqrt)."""
    p = CTX.power(D_1P0001, tick)
    return CTX.sqrt(p)


def walk(lo: int, hi: int, reanchor: int = 4096):
    """Yield (tick, r) for tick in [lo, hi) with r = 1.0001^(tick/2); running product re-anchored from an
    exact power every `reanchor` ticks (accumulated relative error < 4096 * 1e-89)."""
    r = None
    for t in range(lo, hi):
        if r is None or (t - lo) % reanchor == 0:
            r = sqrt_price_real(t)
        else:
            r = CTX.multiply(r, SQRT_1P0001)
        yield t, r


def band_ok(tick: int, s: int, r: Decimal) -> (bool, Decimal):
    """The property's band: |s - r*2^96| < 1 for tick <= 0, < 1 + R*8*r/2^128 for tick > 0 (R = r*2^96).
    Returns (ok, err/bound)."""
    R = CTX.multiply(r, D_Q96)
    err = abs(CTX.subtract(Decimal(s), R))
    bound = Decimal(1)
    if tick > 0:
        bound = CTX.add(bound, CTX.divide(CTX.multiply(CTX.multiply(R, Decimal(8)), r), D_2_128))
    return err < bound, CTX.divide(err, bound)


def price_from_sqrt_x96(s: int, d0: int, d1: int, token0_is_quote: bool) -> Fraction:
    """base-unit price implied by an integer sqrt ratio: (s/2^96)^2 * 10^(d0-d1), inverted when token0 is quote."""
    p = Fraction(s * s, Q96 * Q96) * Fraction(10) ** (d0 - d1)
    return 1 / p if token0_is_quote else p


def nearest_usable(tick: int, spacing: int):
    """Set of acceptable answers: multiples of spacing inside [MIN_TICK, MAX_TICK] at minimal distance."""
    lo_m = -(-MIN_TICK // spacing) * spacing  # smallest multiple >= MIN_TICK
    hi_m = (MAX_TICK // spacing) * spacing
    base = (tick // spacing) * spacing
    cands = [m for m in (base - spacing, base, base + spacing, base + 2 * spacing, lo_m, hi_m) if lo_m <= m <= hi_m]
    best = min(abs(m - tick) for m in cands)
    return {m for m in cands if abs(m - tick) == best}
