"""Sequential matching-engine reference model for the Deribit option market (property C15).

Exact arithmetic (fractions.Fraction) only; nothing is imported from demeter.  The model is *three-valued*: for every
order it returns the set of outcomes the property statement permits (usually one), and whether a rejection is
permitted.  The checker looks the observed outcome up in that set and commits it, so that places where the statement
is silent (rounding direction on an exact tie, a level exactly on a price cap, a limit price that is merely close to a
level, a buy the cash cannot pay for) never turn into demands.

Book convention (soundness carve-out of DESIGN.md C15): each side is sorted best-first with distinct prices, as Deribit
publishes it.  A level's price is the *displayed* decimal value of the stored float (its shortest repr)."""
from fractions import Fraction

FEE_RATE = Fraction(3, 10000)  # 0.03 % of the contracts (underlying units)
FEE_CAP = Fraction(1, 8)  # 12.5 % of the premium
CONFIGS = {
    # contract step, fee step (Deribit contract specification: ETH options trade in 1 contract, BTC in 0.1)
    "ETH": {"step": Fraction(1), "fee_step": Fraction(1, 10**6)},
    "BTC": {"step": Fraction(1, 10), "fee_step": Fraction(1, 10**8)},
}
SIZE_TOL = Fraction(1, 10**9)  # level sizes are floats in the real book
EXACT_PRICE_TOL = Fraction(1, 10**12)  # relative: a limit price "on" a level (covers usd -> token conversion rounding)
BAND = Fraction(1, 1000)  # a limit price within 0.1 % of a level may be snapped to it (the suite relies on it)
BAND_EDGE = Fraction(1, 10000)  # +-10 % of the band width around its edge: nothing is demanded there
CAP_TIE = Fraction(1, 10**14)  # relative width of "exactly on the cap" (binary vs displayed value of mark and level)


def F(x):
    """Displayed value of a number as a Fraction (floats/numpy scalars through their shortest repr)."""
    if isinstance(x, Fraction):
        return x
    if isinstance(x, bool):
        raise TypeError("bool is not a number here")
    if isinstance(x, int):
        return Fraction(x)
    if isinstance(x, float) or type(x).__module__ == "numpy":
        return Fraction(repr(float(x)))
    return Fraction(str(x))


def round_options(x: Fraction, step: Fraction):
    """x rounded to the nearest multiple of step; both neighbours on an exact tie (the statement does not name the
    tie rule)."""
    q = x / step
    lo = q.numerator // q.denominator
    frac = q - lo
    if frac < Fraction(1, 2):
        return [lo * step]
    if frac > Fraction(1, 2):
        return [(lo + 1) * step]
    return [lo * step, (lo + 1) * step]


def fee_options(contracts: Fraction, premium: Fraction, fee_step: Fraction):
    return round_options(min(FEE_RATE * contracts, FEE_CAP * premium), fee_step)


class Outcome:
    __slots__ = ("amount", "fills", "premium", "fees", "tag")

    def __init__(self, amount, fills, fee_step, tag=""):
        self.amount = amount
        self.fills = [(p, s) for p, s in fills if s > 0]  # [(price, size)] best-first
        self.premium = sum((p * s for p, s in self.fills), Fraction(0))
        self.fees = fee_options(amount, self.premium, fee_step)
        self.tag = tag

    def by_price(self):
        out = {}
        for p, s in self.fills:
            out[p] = out.get(p, Fraction(0)) + s
        return out


class Decision:
    """outcomes: permitted fills (empty = the order must be rejected); reject_ok: a rejection is permitted;
    why: class of the decision (for histograms); reject_clause: clause name if an order that must be rejected fills."""

    def __init__(self):
        self.outcomes = []
        self.reject_ok = False
        self.why = []
        self.reject_clause = None
        self.allowed_strict = None  # indices of levels that are certainly inside the cap
        self.allowed_max = None  # ... plus levels exactly on the cap
        self.limit_targets = None  # permitted level indices for a limit-priced order
        self.limit_class = None
        self.limit_neighbours = []  # levels inside the 0.1 % band of a limit price that sits exactly on another level
        self.flagged = []  # outcomes that break the statement but that the model can follow (fill at such a neighbour)
        self.amounts = []

    def must_reject(self, clause, why):
        self.outcomes = []
        self.reject_ok = True
        self.reject_clause = clause
        self.why.append(why)
        return self


class Position:
    __slots__ = ("amount", "buy_amount", "buy_cost", "sell_amount", "sell_proceeds")

    def __init__(self):
        self.amount = Fraction(0)
        self.buy_amount = Fraction(0)
        self.buy_cost = Fraction(0)
        self.sell_amount = Fraction(0)
        self.sell_proceeds = Fraction(0)

    @property
    def avg_buy(self):
        return self.buy_cost / self.buy_amount if self.buy_amount else Fraction(0)

    @property
    def avg_sell(self):
        return self.sell_proceeds / self.sell_amount if self.sell_amount else Fraction(0)


class Engine:
    def __init__(self, token: str):
        cfg = CONFIGS[token]
        self.token = token
        self.step = cfg["step"]
        self.fee_step = cfg["fee_step"]
        self.cash = Fraction(0)
        self.pos = {}
        self.books = {}  # name -> {"asks": [[price, size], ...], "bids": [...], "mark": Fraction, "under": Fraction}
        self.fills_since_refresh = {}  # (name, side) -> number of accepted orders on that side since the refresh

    # ------------------------------------------------------------------ state
    def refresh(self, raw_books):
        """raw_books: name -> {"asks": [[price, size]], "bids": [...], "mark": number, "under": number}."""
        self.books = {}
        for name, b in raw_books.items():
            self.books[name] = {
                "asks": [[F(p), F(s)] for p, s in b["asks"]],
                "bids": [[F(p), F(s)] for p, s in b["bids"]],
                "mark": F(b["mark"]),
                "under": F(b["under"]),
            }
        self.fills_since_refresh = {}

    def deposit(self, x):
        self.cash += F(x)

    def side(self, name, is_buy):
        return self.books[name]["asks" if is_buy else "bids"]

    def equity_bounds(self):
        """cash + sum(size * mark); marks may be quantised to the fee step (half a step per contract either way).
        None if a held instrument has no mark in the current book."""
        total = self.cash
        slack = Fraction(0)
        for name, p in self.pos.items():
            if name not in self.books:
                return None
            total += p.amount * self.books[name]["mark"]
            slack += abs(p.amount) * self.fee_step / 2
        return total, slack

    # ------------------------------------------------------------------ decision
    def decide(self, is_buy, name, req, limit=None, limit_usd=None, cap=None) -> Decision:
        d = Decision()
        req = F(req)
        if name not in self.books:
            return d.must_reject("unknown-instrument-traded", "unknown-instrument")
        book = self.books[name]
        levels = self.side(name, is_buy)
        # -- amount
        if req <= 0:
            return d.must_reject("non-positive-amount-filled", "non-positive-amount")
        amounts = [a for a in round_options(req, self.step) if a > 0]
        if req < self.step:
            d.reject_ok = True  # below one contract step: the statement is silent, the code refuses
            d.why.append("below-step")
        if len(amounts) > 1:
            d.why.append("amount-tie")
        d.amounts = amounts
        if not amounts:
            return d.must_reject("zero-contracts-filled", "rounds-to-zero")
        # -- holdings
        if not is_buy:
            held = self.pos[name].amount if name in self.pos else Fraction(0)
            if held <= 0:
                return d.must_reject("sold-not-held", "not-held")
            amounts = [a for a in amounts if a <= held]
            if not amounts:
                return d.must_reject("sold-more-than-held", "oversell")
            if len(amounts) < len(d.amounts):
                d.reject_ok = True
                d.why.append("oversell-on-tie")
        # -- price cap relative to mark
        idx = list(range(len(levels)))
        if cap is not None:
            cap = F(cap)
            if cap <= 0:
                return d.must_reject("non-positive-cap-filled", "non-positive-cap")
            bound = cap * book["mark"] if is_buy else book["mark"] / cap
            strict, ties = [], []
            for i in idx:
                p = levels[i][0]
                if abs(p - bound) <= CAP_TIE * bound:
                    ties.append(i)
                elif (p < bound) if is_buy else (p > bound):
                    strict.append(i)
            allowed_sets = [strict] + ([sorted(strict + ties)] if ties else [])
            if ties:
                d.why.append("cap-tie")
            d.why.append("cap-none" if not strict else ("cap-all" if len(strict) == len(idx) else "cap-some"))
        else:
            allowed_sets = [idx]
        d.allowed_strict = allowed_sets[0]
        d.allowed_max = allowed_sets[-1]
        # -- limit price
        if limit is None and limit_usd is not None:
            limit = F(limit_usd) / book["under"]
        if limit is not None:
            P = F(limit)
            if P <= 0:
                return d.must_reject("non-positive-limit-filled", "non-positive-limit")
            targets, exact = [], None
            for allowed in allowed_sets:
                for i in allowed:
                    p = levels[i][0]
                    dist = abs(p - P)
                    if dist <= EXACT_PRICE_TOL * p:
                        exact = i
                    elif dist <= BAND * (1 + BAND_EDGE) * P and i not in targets:
                        targets.append(i)
            must_hit = False
            if exact is not None and exact in d.allowed_strict:
                d.limit_class = "on-level"
                d.limit_neighbours = [i for i in targets if i != exact]
                if d.limit_neighbours:
                    d.limit_class = "on-level+neighbour-in-band"
                targets = [exact]
                must_hit = True
            elif exact is not None:
                # the level named sits exactly on the cap: used, or excluded - and then the price is merely near the
                # remaining levels, exactly as a price on a level strictly beyond the cap is (never seen as "exact")
                d.limit_class = "on-cap-tie-level"
                targets = [exact] + [i for i in targets if i != exact and i in d.allowed_strict]
                d.reject_ok = True
            elif targets:
                d.limit_class = "near-level"
                d.reject_ok = True
            else:
                d.limit_class = "off-level"
                return d.must_reject("limit-order-filled-without-level", "limit-off-level")
            d.limit_targets = targets
            d.why.append("limit-" + d.limit_class)
            fits_all = True
            for i in targets:
                size = levels[i][1]
                for a in amounts:
                    if a <= size + SIZE_TOL:
                        d.outcomes.append(Outcome(a, [(levels[i][0], a)], self.fee_step, f"limit@{i}"))
                    if a > size - SIZE_TOL:
                        fits_all = False
            for i in d.limit_neighbours:
                for a in amounts:
                    if a <= levels[i][1] + SIZE_TOL:
                        d.flagged.append(Outcome(a, [(levels[i][0], a)], self.fee_step, f"neighbour@{i}"))
            if not d.outcomes:
                return d.must_reject("limit-fill-exceeds-level-size", "limit-exceeds-level")
            if not must_hit or not fits_all:
                d.reject_ok = True
        else:
            # -- market order: best-first over the allowed levels
            avail_strict = sum((levels[i][1] for i in allowed_sets[0]), Fraction(0))
            if any(a > avail_strict - SIZE_TOL for a in amounts):
                d.reject_ok = True
            for allowed in allowed_sets:
                avail = sum((levels[i][1] for i in allowed), Fraction(0))
                for a in amounts:
                    if a > avail + SIZE_TOL:
                        continue
                    left = a
                    fills = []
                    for i in allowed:
                        take = min(levels[i][1], left)
                        if take > 0:
                            fills.append((levels[i][0], take))
                            left -= take
                        if left <= 0:
                            break
                    if left > 0 and fills:  # within SIZE_TOL of the whole side: put the dust on the last level
                        p, s_ = fills[-1]
                        fills[-1] = (p, s_ + left)
                    d.outcomes.append(Outcome(a, fills, self.fee_step, "market"))
            if not d.outcomes:
                clause = "fill-exceeds-visible-book" if cap is None else "fill-exceeds-levels-inside-cap"
                return d.must_reject(clause, "exceeds-book" if cap is None else "exceeds-capped-book")
        # -- cash (the statement does not say what happens to a buy the cash cannot pay for)
        if is_buy:
            for o in d.outcomes:
                if o.premium + max(o.fees) > self.cash:
                    d.reject_ok = True
                    if "cash-short" not in d.why:
                        d.why.append("cash-short")
        return d

    # ------------------------------------------------------------------ commit an observed, permitted outcome
    def commit(self, is_buy, name, amount, fills, fee):
        """amount: contracts; fills: [(price, size)] as observed (already checked against a permitted outcome);
        fee: observed fee (already checked).  Returns nothing; updates book, cash, position."""
        levels = self.side(name, is_buy)
        premium = Fraction(0)
        for p, s in fills:
            premium += p * s
            for lv in levels:
                if lv[0] == p:
                    lv[1] = max(Fraction(0), lv[1] - s)
                    break
        key = (name, is_buy)
        self.fills_since_refresh[key] = self.fills_since_refresh.get(key, 0) + 1
        if is_buy:
            self.cash -= premium + fee
            pos = self.pos.setdefault(name, Position())
            pos.amount += amount
            pos.buy_amount += amount
            pos.buy_cost += premium
        else:
            self.cash += premium - fee
            pos = self.pos[name]
            pos.amount -= amount
            pos.sell_amount += amount
            pos.sell_proceeds += premium
            if pos.amount <= 0:
                del self.pos[name]
        return premium
