"""Direct-definition reference for performance metrics (C20).  Imports nothing from demeter, pandas or numpy.

Everything is computed from the net-value series itself in Decimal arithmetic with a local 60-digit context
(the inputs — floats, ints, Decimals — are converted exactly; only divisions, square roots, ln and exp round, at
1e-60).  The global Decimal context is never touched.

Definitions
  drawdown      max over j of (peak_j - v_j) / peak_j with peak_j = max(v_0..v_j)      (>= 0 by construction)
                = max over all pairs i < j of (v_i - v_j) / v_i, clipped at 0           (second, independent form)
  simple return r_t = (v_t - v_(t-1)) / v_(t-1), gross return g_t = v_t / v_(t-1), t >= 1
  total return  v_last / v_first - 1
  annualised    compound: (v_last / v_first) ** (365 / duration_days) - 1, kept as its logarithm
                log(1 + APR) = (365 / duration) * ln(v_last / v_first) so that huge exponents stay representable;
                single:   (v_last / v_first - 1) / (duration / 365)
  volatility    sample standard deviation (n - 1) of the returns * sqrt(365 / interval_days)
  Sharpe        (APR - risk free) / volatility
  beta          cov(g, b) / var(b)  over gross (equivalently simple) returns g of the series and b of the benchmark
  alpha         APR(series) - beta * APR(benchmark)
"""
from decimal import Context, Decimal, ROUND_HALF_EVEN
from fractions import Fraction

CTX = Context(prec=60, rounding=ROUND_HALF_EVEN, Emax=10**12, Emin=-(10**12))
D0 = Decimal(0)
D1 = Decimal(1)
D365 = Decimal(365)
U = Decimal(2) ** -53  # unit roundoff of a double
LOG_DBL_MAX = Decimal("709.782712893384")  # ln(1.7976931348623157e308)


def D(x) -> Decimal:
    """Exact conversion (float -> its binary value, Fraction -> 60 digits)."""
    if isinstance(x, Decimal):
        return x
    if isinstance(x, bool):
        raise TypeError("bool")
    if isinstance(x, int):
        return Decimal(x)
    if isinstance(x, float):
        return Decimal(x)
    if isinstance(x, Fraction):
        return CTX.divide(Decimal(x.numerator), Decimal(x.denominator))
    if hasattr(x, "item"):  # numpy scalar
        return D(x.item())
    return Decimal(str(x))


def exact(vals):
    return [D(v) for v in vals]


# ------------------------------------------------------------------ drawdown
def max_drawdown(v):
    """Running-peak form.  Returns (drawdown, index of the peak, index of the trough); (0, 0, 0) if it never falls."""
    best, bi, bj = D0, 0, 0
    ip = 0
    for j in range(1, len(v)):
        if v[j] > v[ip]:
            ip = j
            continue
        if v[j] < v[ip]:
            dd = CTX.divide(CTX.subtract(v[ip], v[j]), v[ip])
            if dd > best:
                best, bi, bj = dd, ip, j
    return best, bi, bj


def max_drawdown_pairs(v):
    """All-pairs form, computed from the other end: for each i the lowest later value.  O(n)."""
    n = len(v)
    best = D0
    low = v[n - 1]
    for i in range(n - 2, -1, -1):
        if low < v[i]:
            dd = CTX.divide(CTX.subtract(v[i], low), v[i])
            if dd > best:
                best = dd
        if v[i] < low:
            low = v[i]
    return best


def max_drawdown_brute(v):
    """Literal definition, O(n^2); used on short series to cross-check the two forms above."""
    best = D0
    for i in range(len(v)):
        for j in range(i + 1, len(v)):
            if v[j] < v[i]:
                dd = CTX.divide(CTX.subtract(v[i], v[j]), v[i])
                if dd > best:
                    best = dd
    return best


def never_falls(v):
    return all(v[i] >= v[i - 1] for i in range(1, len(v)))


# ------------------------------------------------------------------ returns
def gross_returns(v):
    return [CTX.divide(v[t], v[t - 1]) for t in range(1, len(v))]


def simple_returns(v):
    return [CTX.divide(CTX.subtract(v[t], v[t - 1]), v[t - 1]) for t in range(1, len(v))]


def total_ratio(v):
    return CTX.divide(v[-1], v[0])


def log_growth(ratio: Decimal, duration_days: Decimal) -> Decimal:
    """log(1 + APR) for the compound form."""
    return CTX.multiply(CTX.divide(D365, duration_days), CTX.ln(ratio))


def apr_single(ratio: Decimal, duration_days: Decimal) -> Decimal:
    return CTX.divide(CTX.subtract(ratio, D1), CTX.divide(duration_days, D365))


def exp(x: Decimal) -> Decimal:
    return CTX.exp(x)


def apr_interval(want_log: Decimal, tol_log: Decimal):
    """Admissible interval for a double holding APR = exp(want_log) - 1 when log(1 + APR) is known to tol_log and
    the final subtraction of 1 rounds.  Returns (lo, hi, must_be_inf, may_be_inf); lo/hi are None when must_be_inf."""
    lo_l = CTX.subtract(want_log, tol_log)
    hi_l = CTX.add(want_log, tol_log)
    if lo_l > LOG_DBL_MAX:
        return None, None, True, True
    may_inf = hi_l > LOG_DBL_MAX
    g_lo = CTX.exp(lo_l)
    slack_lo = CTX.multiply(Decimal(4) * U, max(D1, g_lo))
    lo = CTX.subtract(CTX.subtract(g_lo, D1), slack_lo)
    if may_inf:
        return lo, None, False, True
    g_hi = CTX.exp(hi_l)
    slack_hi = CTX.multiply(Decimal(4) * U, max(D1, g_hi))
    hi = CTX.add(CTX.subtract(g_hi, D1), slack_hi)
    return lo, hi, False, False


# ------------------------------------------------------------------ moments
def mean(xs):
    s = D0
    for x in xs:
        s = CTX.add(s, x)
    return CTX.divide(s, Decimal(len(xs)))


def sample_cov(xs, ys):
    """Two-pass sample covariance (n - 1); None for fewer than two observations."""
    n = len(xs)
    if n < 2 or n != len(ys):
        return None
    mx, my = mean(xs), mean(ys)
    s = D0
    for x, y in zip(xs, ys):
        s = CTX.add(s, CTX.multiply(CTX.subtract(x, mx), CTX.subtract(y, my)))
    return CTX.divide(s, Decimal(n - 1))


def sample_std(xs):
    var = sample_cov(xs, xs)
    if var is None:
        return None
    return CTX.sqrt(var)


def annualisation_factor(interval_days: Decimal) -> Decimal:
    return CTX.sqrt(CTX.divide(D365, interval_days))


def mean_abs_dev(xs):
    m = mean(xs)
    s = D0
    for x in xs:
        s = CTX.add(s, abs(CTX.subtract(x, m)))
    return CTX.divide(s, Decimal(len(xs)))


def selftest():
    """Hand-computed values; raises AssertionError if the reference itself is wrong."""
    v = exact([100, 120, 90, 110, 60, 130])
    dd, i, j = max_drawdown(v)
    assert (dd, i, j) == (Decimal("0.5"), 1, 4), (dd, i, j)
    assert max_drawdown_pairs(v) == Decimal("0.5") and max_drawdown_brute(v) == Decimal("0.5")
    # largest relative decline is not the largest absolute one: 10 -> 4 (60 %) beats 1000 -> 700 (30 %)
    v = exact([10, 4, 1000, 700])
    assert max_drawdown(v)[0] == Decimal("0.6") and max_drawdown_pairs(v) == Decimal("0.6")
    assert max_drawdown(exact([1, 1, 2, 2, 3]))[0] == 0 and never_falls(exact([1, 1, 2, 2, 3]))
    assert simple_returns(exact([100, 110, 99])) == [Decimal("0.1"), Decimal("-0.1")]
    assert sample_std(exact([2, 4, 4, 4, 5, 5, 7, 9])) == CTX.sqrt(CTX.divide(Decimal(32), Decimal(7)))
    assert sample_cov(exact([1, 2, 3]), exact([2, 4, 7])) == Decimal("2.5")
    assert abs(exp(log_growth(Decimal("1.21"), Decimal(730))) - Decimal("1.1")) < Decimal("1e-55")
    assert apr_single(Decimal("1.1"), Decimal("182.5")) == Decimal("0.2")
    lo, hi, must, may = apr_interval(Decimal(800), Decimal("1e-9"))
    assert must and may
    lo, hi, must, may = apr_interval(Decimal(0), Decimal(0))
    assert not must and not may and lo < 0 < hi and hi < Decimal("1e-15")
