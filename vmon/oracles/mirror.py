"""Reference model for C09 (token order is immaterial): the mirror map and the comparison rule.

A Uniswap v3 pool (token0, token1, tick t, per-token volumes) and the pool with the two tokens listed the other way
round describe the same market when
    tick' = -t              (1.0001^t is token1 per token0, so the reciprocal price has the negated tick)
    [lower, upper]' = [-upper, -lower]
    lowestTick' = -highestTick, highestTick' = -lowestTick
    inAmount0' = inAmount1, netAmount0' = netAmount1 (and vice versa), decimals travel with the token,
    currentLiquidity' = currentLiquidity     (L = sqrt(x*y) is symmetric in the two reserves)
Everything expressed in base/quote terms (prices, values, base amount, quote amount, liquidity) is invariant
under this map.  This module holds that map for raw data and results, the base-unit price of a tick computed
independently (Decimal, 90 digits), the placement rules that keep a workload inside the property's domain
(no price on a range bound), and the exact-arithmetic comparison with the statement's tolerances.

Imports nothing from demeter.  Never touches the global Decimal context."""
from decimal import Decimal, Context, ROUND_HALF_EVEN
from fractions import Fraction

from . import tickmath as TM

EXACT = Fraction(1, 10**12)  # statement: 1e-12 relative for exact operations
ESTIMATE = Fraction(1, 1000)  # statement: 0.1 % for the estimate-based helpers
MAX_ABS_TICK = 330000  # see tick_domain_note
CTX = Context(prec=60, rounding=ROUND_HALF_EVEN, Emax=999999, Emin=-999999)

tick_domain_note = (
    "all ticks (paths and range bounds) satisfy |tick| <= 330000: the integer sqrt ratio of tick -330000 is "
    "5.4e21 and the integer product sqrtA*sqrtB/2^96 used for liquidity-from-amount0 is > 3e14, so the protocol's "
    "integer truncations stay below 3e-15 relative (at -400000 that product is 3e11, i.e. 3e-12 relative, which "
    "would exceed the 1e-12 the statement allows for a reason that is not a token-order defect)"
)


# ------------------------------------------------------------------ the mirror map
def mirror_tick(t):
    return -int(t)


def mirror_range(lower, upper):
    return (-int(upper), -int(lower))


TICK_COLS = ("closeTick", "openTick", "lowestTick", "highestTick")


def mirror_raw(df):
    """Raw minute rows of the mirrored pool.  Works on a pandas frame with demeter-fetch's raw columns; dtypes of
    the tick columns are preserved (float stays float, int64 stays int64)."""
    out = df.copy()
    out["netAmount0"], out["netAmount1"] = df["netAmount1"].copy(), df["netAmount0"].copy()
    out["inAmount0"], out["inAmount1"] = df["inAmount1"].copy(), df["inAmount0"].copy()
    out["closeTick"] = -df["closeTick"]
    out["openTick"] = -df["openTick"]
    out["lowestTick"] = -df["highestTick"]
    out["highestTick"] = -df["lowestTick"]
    for c in TICK_COLS:
        out[c] = out[c].astype(df[c].dtype)
    return out[list(df.columns)]


def to_frame_a(pos, mirrored):
    """A position (lower, upper) reported by a pool, expressed in the frame of pool A."""
    lo, up = int(pos[0]), int(pos[1])
    return mirror_range(lo, up) if mirrored else (lo, up)


def price_vs_range(tick_a, lower_a, upper_a):
    """below / in / above in *base/quote price* terms.  Pool A has token0 = quote, so its tick rises when the price
    of the base token falls."""
    if tick_a > upper_a:
        return "below"
    if tick_a < lower_a:
        return "above"
    return "in"


# ------------------------------------------------------------------ independent price of a tick
def base_price_of_tick_a(tick_a, dec_quote, dec_base, digits=30):
    """Price of the base token in quote tokens (base units) at tick `tick_a` of pool A (token0 = quote,
    token1 = base): 1 / (1.0001^tick * 10^(dec_quote - dec_base)), rounded to `digits` significant digits.
    The same Decimal is handed to both pools wherever a script passes a price."""
    p = CTX.power(TM.D_1P0001, -int(tick_a))
    p = CTX.multiply(p, CTX.power(Decimal(10), dec_base - dec_quote))
    return Context(prec=digits, rounding=ROUND_HALF_EVEN).plus(p)


def liquidity_of_value_a(value_quote, dec_quote, tick_a, lower_a, upper_a):
    """Liquidity (real-valued) that `value_quote` quote tokens buy in the range [lower_a, upper_a] of pool A
    (token0 = quote, token1 = base) when the price sits at tick_a.  Liquidity figures of ranges of different
    widths are not commensurable (the same money is 50x the liquidity in a 50x narrower range), so a tolerance
    stated on amounts has to be carried over to a liquidity figure through this map.
    One unit of liquidity holds 1/s - 1/sb of token0 and s - sa of token1 (s clamped to the range); a token1 unit
    is worth 1/s^2 token0 units."""
    s, sa, sb = (sqrt_price_real_cached(int(t)) for t in (tick_a, lower_a, upper_a))
    sc = min(max(s, sa), sb)
    per_unit = CTX.subtract(CTX.divide(1, sc), CTX.divide(1, sb))  # token0 held
    per_unit = CTX.add(per_unit, CTX.divide(CTX.subtract(sc, sa), CTX.multiply(s, s)))  # token1 held, in token0
    return frac(value_quote) * 10**dec_quote / Fraction(per_unit)


_SQRT_CACHE = {}


def sqrt_price_real_cached(tick):
    r = _SQRT_CACHE.get(tick)
    if r is None:
        if len(_SQRT_CACHE) > 20000:
            _SQRT_CACHE.clear()
        r = _SQRT_CACHE[tick] = TM.sqrt_price_real(tick)
    return r


# ------------------------------------------------------------------ domain placement
def safe_tick(t, bounds, lo=-MAX_ABS_TICK, hi=MAX_ABS_TICK, margin=2):
    """Nearest tick to t that is at least `margin` ticks away from every range bound of the script (ranges are
    half-open [lower, upper) and the mirror of that is (-upper, -lower], so a price exactly on a bound legitimately
    behaves differently; one further tick of distance absorbs the +-1 of the floor in price -> tick conversions)."""
    t = max(lo, min(hi, int(t)))
    if all(abs(t - b) >= margin for b in bounds):
        return t
    for d in range(1, 4 * margin * (len(bounds) + 1) + 2):
        for cand in (t + d, t - d):
            if lo <= cand <= hi and all(abs(cand - b) >= margin for b in bounds):
                return cand
    raise ValueError("no safe tick found")


# ------------------------------------------------------------------ comparison
def frac(x):
    if isinstance(x, Fraction):
        return x
    if isinstance(x, Decimal):
        if not x.is_finite():
            raise ValueError(f"non-finite value {x!r}")
        return Fraction(x)
    if isinstance(x, bool):
        return Fraction(int(x))
    if isinstance(x, int):
        return Fraction(x)
    if isinstance(x, float):
        if x != x or x in (float("inf"), float("-inf")):
            raise ValueError(f"non-finite value {x!r}")
        return Fraction(x)
    # numpy scalars, UnitDecimal subclasses etc.
    return Fraction(Decimal(str(x)))


def liquidity_quantum(liq):
    """Liquidity is an integer number of units (uint128 on chain, floor of a quotient).  Two correct computations
    may differ by one unit per rounding step (floor of L0, floor of L1, the integer product sqrtA*sqrtB/2^96):
    allow 3 units, i.e. 3/L relative on everything derived from that liquidity."""
    liq = abs(frac(liq))
    if liq == 0:
        return Fraction(0)
    return Fraction(3) / liq


def rel_diff(a, b, scale=None):
    """|a-b| / max(|a|, |b|, scale); 0 when both are 0."""
    a, b = frac(a), frac(b)
    s = max(abs(a), abs(b))
    if scale is not None:
        s = max(s, frac(scale))
    if s == 0:
        return Fraction(0)
    return abs(a - b) / s


def close(a, b, tol, scale=None, quantum=Fraction(0)):
    """(ok, relative difference).  tol is the statement's tolerance; quantum the relative allowance for integer
    liquidity units accumulated by the script (0 when no liquidity is involved)."""
    r = rel_diff(a, b, scale)
    return r <= tol + quantum, r
