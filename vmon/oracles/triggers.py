"""Reference model of demeter's time triggers (C18): which bars a trigger *specification* denotes, and whether a
specification can still denote a bar of the unbounded continuation of a bar grid.

Written from the property statement, not from demeter/strategy/trigger.py; imports nothing from demeter.
All arithmetic is exact: datetimes are turned into integer microseconds since an arbitrary epoch, and periodic
specifications are decided in closed form (modular arithmetic), never by stepping a "next due time" forward.

A specification is a dict:
  {"kind": "at_time",  "times":  [datetime]}                      AtTimeTrigger
  {"kind": "at_times", "times":  [datetime, ...]}                 AtTimesTrigger
  {"kind": "range",    "ranges": [(start, end)]}                  TimeRangeTrigger      (end excluded)
  {"kind": "ranges",   "ranges": [(start, end), ...]}             TimeRangesTrigger     (end excluded)
  {"kind": "period",   "deltas": [timedelta], "pending": timedelta, "immediate": bool}      PeriodTrigger
  {"kind": "periods",  "deltas": [timedelta, ...], "pending": timedelta, "immediate": bool} PeriodsTrigger

Meaning (t = a bar timestamp, t0 = the first bar on which the trigger is live):
  times    t is denoted iff t equals one of the listed times truncated to the minute
  ranges   t is denoted iff start' <= t < end' for one of the ranges (bounds truncated to the minute)
  periods  t is denoted iff (immediate and t == t0) or t == t0 + pending + k * delta for some listed delta and an
           integer k >= 1.  Each delta is judged on its own: what another delta did on an earlier bar is irrelevant.
A bar is denoted at most once, however many times / ranges / periods agree on it.
"""
from datetime import datetime, timedelta
from math import gcd

_EPOCH = datetime(2000, 1, 1)
_US = timedelta(microseconds=1)

TIME_KINDS = ("at_time", "at_times")
RANGE_KINDS = ("range", "ranges")
PERIOD_KINDS = ("period", "periods")


def us(x) -> int:
    """datetime -> integer microseconds since the model's epoch; timedelta -> integer microseconds."""
    if isinstance(x, timedelta):
        return x // _US
    return (x - _EPOCH) // _US


def minute_floor_us(t: datetime) -> int:
    v = us(t)
    return v - v % 60_000_000


class Model:
    """One trigger specification compiled to integers."""

    def __init__(self, spec: dict):
        self.kind = spec["kind"]
        if self.kind in TIME_KINDS:
            self.times = frozenset(minute_floor_us(t) for t in spec["times"])
        elif self.kind in RANGE_KINDS:
            self.ranges = [(minute_floor_us(s), minute_floor_us(e)) for s, e in spec["ranges"]]
        elif self.kind in PERIOD_KINDS:
            self.deltas = [us(d) for d in spec["deltas"]]
            if any(d <= 0 for d in self.deltas):
                raise ValueError("the model is defined for positive periods only")
            self.pending = us(spec["pending"])
            self.immediate = bool(spec["immediate"])
        else:
            raise ValueError(self.kind)

    # ------------------------------------------------------------------ denoted bars
    def due_deltas(self, t: datetime, t0: datetime):
        """indices of the periods that are due at bar t (period kinds only)."""
        a = us(t) - us(t0) - self.pending
        return [i for i, d in enumerate(self.deltas) if a >= d and a % d == 0]

    def denotes(self, t: datetime, t0: datetime = None) -> bool:
        """Is bar t denoted?  t0 (first live bar) is needed for period kinds; bars before t0 are never denoted."""
        x = us(t)
        if t0 is not None and x < us(t0):
            return False
        if self.kind in TIME_KINDS:
            return x in self.times
        if self.kind in RANGE_KINDS:
            return any(s <= x < e for s, e in self.ranges)
        if self.immediate and x == us(t0):
            return True
        return bool(self.due_deltas(t, t0))

    # ------------------------------------------------------------------ can it ever fire again?
    def can_fire_after(self, t: datetime, t0: datetime, interval: timedelta) -> bool:
        """Does the specification denote some bar t + k*interval, k >= 1 (unbounded continuation of the grid)?"""
        x, step = us(t), us(interval)
        if step <= 0:
            raise ValueError("interval must be positive")
        if self.kind in TIME_KINDS:
            return any(T > x and (T - x) % step == 0 for T in self.times)
        if self.kind in RANGE_KINDS:
            for s, e in self.ranges:
                k = max(1, -((x - s) // step))  # smallest k >= 1 with x + k*step >= s   (ceil((s - x) / step))
                if x + k * step < e:
                    return True
            return False
        # x + k*step == t0 + pending + m*delta with k, m >= 1: solvable iff the offset is a multiple of
        # gcd(step, delta); the solutions form a line k = k* + n*delta/g, m = m* + n*step/g, so both can be made >= 1.
        a = us(t0) + self.pending - x
        return any(a % gcd(step, d) == 0 for d in self.deltas)


# ---------------------------------------------------------------------- descriptions used for mechanism keys
def bar_relation(model: Model, t: datetime, t0: datetime, interval: timedelta) -> str:
    """How bar t relates to the specification (a mechanism-level description, no concrete values)."""
    x = us(t)
    if model.kind in TIME_KINDS:
        return "listed-time" if x in model.times else "unlisted-time"
    if model.kind in RANGE_KINDS:
        tags = set()
        for s, e in model.ranges:
            if x == e:
                tags.add("range-end")
            if x == s and s < e:
                tags.add("range-start")
            elif s < x < e:
                tags.add("inside")
        if not tags:
            return "outside"
        return "+".join(sorted(tags))
    step = us(interval)
    div = "delta|interval-multiple" if all(d % step == 0 for d in model.deltas) else "delta-not-multiple-of-interval"
    if x == us(t0):
        return f"first-live-bar/{div}"
    a = x - us(t0) - model.pending
    ks = sorted({a // d for d in model.deltas if a >= d and a % d == 0})
    if not ks:
        return f"not-due/{div}"
    return f"{'first-due' if ks[0] == 1 else 'later-due'}{'/several-periods-due' if len(ks) > 1 or len(model.due_deltas(t, t0)) > 1 else ''}/{div}"
