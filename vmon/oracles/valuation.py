"""Independent valuation of an account (property C01) and the ownership ledger of liquidity positions.

Nothing is imported from demeter.  Everything is `fractions.Fraction`; square roots and the squeeth TWAP go through
local high-precision Decimal contexts.  Inputs are plain numbers read from the *raw* rows of a bar (prices, indices,
norm factor, marks, pool value ...) and from the state projection (balances, liquidity, scaled amounts, vaults,
contracts, shares).  Each market valuation returns a `Val`:

    value  worth of the market's open positions in the market's own quote unit
    lo/hi  admissible interval when the statement leaves a choice (an option absent from an open bar's book)
    gross  sum of |components| (scale of the relative tolerance)
    slack  absolute allowance for quantised / float fields of the real code (listed in the check's assumptions)

Definitions (from the property statement):
  wallet          sum balance * price[token]
  uniswap         every position *owned by the market*: L held in [lower, upper] at the bar's pool price
                  (amount0 = L (sb - p)/(sb p), amount1 = L (p - sa), p clamped) + uncollected amounts, in the pool quote
  aave            sum scaled supply * liquidity index * price  -  sum scaled debt * variable borrow index * price
  squeeth         (vault ETH + LP of the vault: ETH part + oSQTH part * norm factor * TWAP(ETH) / 10^4) * ETH price
                  -  short * oSQTH mark (oSQTH/ETH * ETH price)
  deribit         cash + sum contracts * mark
  gmx v1          GLP * glp price + reward * native token price
  gmx v2          GM * pool value / GM supply
"""
import decimal
from decimal import Decimal
from fractions import Fraction

from . import liqmath as L

CTX = decimal.Context(prec=80, Emax=999999, Emin=-999999)
Q96 = 2**96
INDEX_SCALE = 10**4


def F(x) -> Fraction:
    """Exact conversion.  Floats (also numpy floats) are taken at their exact binary value, as Decimal(float) does."""
    if isinstance(x, Fraction):
        return x
    if isinstance(x, bool):
        return Fraction(int(x))
    if isinstance(x, (int, Decimal)):
        return Fraction(x)
    if isinstance(x, float):
        return Fraction(x)
    if isinstance(x, str):
        return Fraction(x)
    try:  # numpy scalars
        import numpy as np

        if isinstance(x, np.integer):
            return Fraction(int(x))
        if isinstance(x, np.floating):
            return Fraction(float(x))
    except ImportError:  # pragma: no cover
        pass
    return Fraction(str(x))


class Val:
    __slots__ = ("value", "lo", "hi", "gross", "slack", "parts", "flags")

    def __init__(self, value=Fraction(0), gross=Fraction(0), slack=Fraction(0), parts=None, lo=None, hi=None, flags=None):
        self.value = value
        self.lo = value if lo is None else lo
        self.hi = value if hi is None else hi
        self.gross = gross
        self.slack = slack
        self.parts = parts or {}
        self.flags = flags or []


# ------------------------------------------------------------------------------------------------ wallet
def wallet_value(wallet: dict, prices: dict) -> Val:
    v = g = Fraction(0)
    parts = {}
    for name, bal in wallet.items():
        x = F(bal) * F(prices[name])
        parts[name] = x
        v += x
        g += abs(x)
    return Val(v, g, parts=parts)


# ------------------------------------------------------------------------------------------------ uniswap
def sqrt_x96_of_price(price, d0: int, d1: int, token0_is_quote: bool) -> Fraction:
    """sqrt(token1 per token0, atomic units) * 2^96 of a base-unit pool price, at 80 digits."""
    p = F(price)
    if token0_is_quote:
        p = 1 / p
    atomic = p / Fraction(10) ** (d0 - d1)
    d = CTX.divide(Decimal(atomic.numerator), Decimal(atomic.denominator))
    return Fraction(CTX.sqrt(d)) * Q96


def position_amounts(s: Fraction, lower: int, upper: int, liquidity: int, d0: int, d1: int):
    """token amounts (token units) of `liquidity` in [lower, upper] at sqrt price s (x96, real valued)"""
    sa, sb = L.sqrt_ratio_at_tick(lower), L.sqrt_ratio_at_tick(upper)
    if sa > sb:
        sa, sb = sb, sa
    p = sa if s < sa else (sb if s > sb else s)
    liq = int(liquidity)
    a0 = liq * Q96 * (sb - p) / (sb * p) / Fraction(10) ** d0
    a1 = liq * (p - sa) / Q96 / Fraction(10) ** d1
    return Fraction(a0), Fraction(a1)


def position_holdings(pool: dict, price, pos: dict):
    """(token0 total, token1 total) = liquidity amounts + uncollected amounts of one position"""
    s = sqrt_x96_of_price(price, pool["d0"], pool["d1"], pool["q0"])
    a0, a1 = position_amounts(s, pos["lower"], pos["upper"], pos["liquidity"], pool["d0"], pool["d1"])
    return a0 + F(pos["pending0"]), a1 + F(pos["pending1"])


def in_quote(pool: dict, price, t0: Fraction, t1: Fraction) -> Fraction:
    base, quote = (t1, t0) if pool["q0"] else (t0, t1)
    return base * F(price) + quote


def uni_value(pool: dict, price, positions: list) -> Val:
    """positions: the ones the market owns.  pool: {d0, d1, q0}.  price: base in quote at this bar."""
    v = g = Fraction(0)
    parts = {}
    for pos in positions:
        t0, t1 = position_holdings(pool, price, pos)
        x = in_quote(pool, price, t0, t1)
        parts[(pos["lower"], pos["upper"])] = x
        v += x
        g += abs(x)
    return Val(v, g, parts=parts)


# ------------------------------------------------------------------------------------------------ aave
AAVE_QUANTUM = Fraction(1, 10**4)


def aave_value(supplies: dict, borrows: dict, index: dict, prices: dict) -> Val:
    """supplies/borrows: {token: scaled amount}; index: {token: (liquidity index, variable borrow index)}"""
    s = b = Fraction(0)
    parts = {}
    for t, scaled in supplies.items():
        x = F(scaled) * F(index[t][0]) * F(prices[t])
        parts["supply/" + t] = x
        s += x
    for t, scaled in borrows.items():
        x = F(scaled) * F(index[t][1]) * F(prices[t])
        parts["borrow/" + t] = x
        b += x
    # the real market reports supplies and borrows rounded to 1e-4 each
    return Val(s - b, abs(s) + abs(b), slack=AAVE_QUANTUM, parts=parts)


# ------------------------------------------------------------------------------------------------ squeeth
TWAP_REL = Fraction(1, 10**9)


def squeeth_value(vaults: dict, lp: dict, nf, twap_eth: Fraction, eth_price, osqth_in_eth) -> Val:
    """vaults: {id: (collateral eth, short)}; lp: {vault id: (eth total, osqth total)} of the position the vault
    holds (liquidity amounts + uncollected).  twap_eth is a float computation in the real code: 1e-9 relative on
    the part it touches."""
    coll = short = index_part = Fraction(0)
    for vid, (c, sh) in vaults.items():
        coll += F(c)
        short += F(sh)
    for vid, (eth, osq) in lp.items():
        coll += eth
        index_part += osq * F(nf) * twap_eth / INDEX_SCALE
    coll_value = (coll + index_part) * F(eth_price)
    short_value = short * F(osqth_in_eth) * F(eth_price)
    return Val(coll_value - short_value, abs(coll_value) + abs(short_value), slack=abs(index_part * F(eth_price)) * TWAP_REL,
               parts={"collateral_eth": coll + index_part, "lp_index_part_eth": index_part, "short": short,
                      "collateral_value": coll_value, "short_value": short_value})


# ------------------------------------------------------------------------------------------------ deribit
def deribit_value(cash, positions: dict, marks: dict, step: Fraction) -> Val:
    """positions: {instrument: contracts}; marks: {instrument: (lo, hi)} mark interval to use at this bar (a single
    mark when the instrument is quoted).  The real market rounds the mark to `step` (half a step per contract)."""
    lo = hi = F(cash)
    g = abs(F(cash))
    contracts = Fraction(0)
    flags = []
    for name, amt in positions.items():
        a = F(amt)
        mlo, mhi = marks.get(name, (Fraction(0), Fraction(0)))
        if name not in marks:
            flags.append("no-mark-ever:" + name)
        lo += a * mlo if a >= 0 else a * mhi
        hi += a * mhi if a >= 0 else a * mlo
        g += abs(a) * mhi
        contracts += abs(a)
    return Val(lo, g, slack=contracts * step / 2, lo=lo, hi=hi, parts={"cash": F(cash), "contracts": contracts}, flags=flags)


# ------------------------------------------------------------------------------------------------ gmx
def gmx_value(glp, reward, glp_price, native_price_1e30) -> Val:
    a = F(glp) * F(glp_price)
    b = F(reward) * F(native_price_1e30) / 10**30
    return Val(a + b, abs(a) + abs(b), parts={"glp": a, "reward": b})


GMX2_REL = Fraction(1, 10**9)


def gmx2_value(gm, pool_value, supply) -> Val:
    if F(gm) <= 0:
        return Val()
    v = F(gm) * F(pool_value) / F(supply)
    return Val(v, abs(v), slack=abs(v) * GMX2_REL, parts={"gm": v})


# ------------------------------------------------------------------------------------------------ ownership
class Ledger:
    """Who owns each liquidity position, from the record of what happened: a position is the pool market's until a
    deposit into a vault is recorded, the vault's until its withdrawal or its redemption (debt reduction) is
    recorded.  Keys are (lower tick, upper tick)."""

    def __init__(self):
        self.owner = {}
        self.n = 0

    def apply(self, kind: str, vault_id: int, pos):
        key = (int(pos[0]), int(pos[1]))
        if kind == "deposit":
            self.owner[key] = int(vault_id)
        elif kind in ("withdraw", "redeem"):
            self.owner.pop(key, None)
        self.n += 1

    def vault_of(self, key):
        return self.owner.get((int(key[0]), int(key[1])))

    def lent(self):
        return dict(self.owner)


def close(obs: Fraction, val: Val, rel: Fraction, scale: Fraction = None, factor: Fraction = Fraction(1)):
    """obs within [lo, hi] * factor up to rel * scale + slack * |factor|.  Returns (ok, deviation, allowance)."""
    scale = val.gross * abs(factor) if scale is None else scale
    allow = rel * scale + val.slack * abs(factor)
    lo, hi = val.lo * factor, val.hi * factor
    if lo > hi:
        lo, hi = hi, lo
    if obs < lo:
        dev = lo - obs
    elif obs > hi:
        dev = obs - hi
    else:
        dev = Fraction(0)
    return dev <= allow, dev, allow
