"""Exact reference for Uniswap v3 position math (LiquidityAmounts / SqrtPriceMath closed forms).

Everything is `int` / `fractions.Fraction` on the protocol's integer Q64.96 sqrt ratios.  Imports nothing from
demeter.  The integer sqrt ratio of a tick is TickMath.getSqrtRatioAtTick written from the v3-core Solidity source
(table driven); `selfcheck()` validates it against the 90-digit real-valued reference of oracles/tickmath.py."""
from decimal import Decimal
from fractions import Fraction

MIN_TICK = -887272
MAX_TICK = 887272
MIN_SQRT_RATIO = 4295128739
MAX_SQRT_RATIO = 1461446703485210103287273052203988822378723970342
Q96 = 2**96
Q192 = 2**192
UINT256_MAX = 2**256 - 1

# v3-core TickMath.sol: factor for bit k of |tick| is 2^128 / sqrt(1.0001)^(2^k)
_FACTORS = (
    0xFFFCB933BD6FAD37AA2D162D1A594001, 0xFFF97272373D413259A46990580E213A, 0xFFF2E50F5F656932EF12357CF3C7FDCC,
    0xFFE5CACA7E10E4E61C3624EAA0941CD0, 0xFFCB9843D60F6159C9DB58835C926644, 0xFF973B41FA98C081472E6896DFB254C0,
    0xFF2EA16466C96A3843EC78B326B52861, 0xFE5DEE046A99A2A811C461F1969C3053, 0xFCBE86C7900A88AEDCFFC83B479AA3A4,
    0xF987A7253AC413176F2B074CF7815E54, 0xF3392B0822B70005940C7A398E4B70F3, 0xE7159475A2C29B7443B29C7FA6E889D9,
    0xD097F3BDFD2022B8845AD8F792AA5825, 0xA9F746462D870FDF8A65DC1F90E061E5, 0x70D869A156D2A1B890BB3DF62BAF32F7,
    0x31BE135F97D08FD981231505542FCFA6, 0x9AA508B5B7A84E1C677DE54F3E99BC9, 0x5D6AF8DEDB81196699C329225EE604,
    0x2216E584F5FA1EA926041BEDFE98, 0x48A170391F7DC42444E8FA2,
)
_cache = {}


def sqrt_ratio_at_tick(tick: int) -> int:
    """TickMath.getSqrtRatioAtTick: Q128.128 product of the per-bit factors, inverted for positive ticks, rounded
    up to Q64.96."""
    tick = int(tick)
    got = _cache.get(tick)
    if got is not None:
        return got
    a = -tick if tick < 0 else tick
    if a > MAX_TICK:
        raise ValueError(f"tick {tick} out of range")
    ratio = 1 << 128
    for k, f in enumerate(_FACTORS):
        if (a >> k) & 1:
            ratio = (ratio * f) >> 128
    if tick > 0:
        ratio = UINT256_MAX // ratio
    out = (ratio >> 32) + (1 if ratio & 0xFFFFFFFF else 0)
    if len(_cache) < 200000:
        _cache[tick] = out
    return out


def selfcheck():
    """The table-driven port reproduces the protocol's end values and stays inside C06's error band against the
    real-valued 1.0001^(tick/2) at 90 digits on a spread of ticks.  Raises AssertionError otherwise."""
    from . import tickmath as T

    assert sqrt_ratio_at_tick(MIN_TICK) == MIN_SQRT_RATIO
    assert sqrt_ratio_at_tick(MAX_TICK) == MAX_SQRT_RATIO
    assert sqrt_ratio_at_tick(0) == Q96
    for t in (-887271, -500001, -65536, -4097, -61, -1, 1, 2, 3, 60, 4095, 69081, 200311, 524288, 887271):
        ok, _ = T.band_ok(t, sqrt_ratio_at_tick(t), T.sqrt_price_real(t))
        assert ok, t


def ordered(sa: int, sb: int):
    return (sa, sb) if sa <= sb else (sb, sa)


def clamp(s: int, sa: int, sb: int) -> int:
    return sa if s < sa else (sb if s > sb else s)


def amounts_wei(s: int, sa: int, sb: int, liquidity: int):
    """Real-valued token amounts (atomic units) held by `liquidity` in [sa, sb] at sqrt price s:
    amount0 = L * 2^96 * (sb - p) / (sb * p), amount1 = L * (p - sa) / 2^96, p = s clamped into [sa, sb]."""
    sa, sb = ordered(sa, sb)
    p = clamp(s, sa, sb)
    a0 = Fraction(liquidity * Q96 * (sb - p), sb * p)
    a1 = Fraction(liquidity * (p - sa), Q96)
    return a0, a1


def amounts(s: int, sa: int, sb: int, liquidity: int, d0: int, d1: int):
    """Same in token units."""
    a0, a1 = amounts_wei(s, sa, sb, liquidity)
    return a0 / 10**d0, a1 / 10**d1


def region(s: int, sa: int, sb: int) -> str:
    sa, sb = ordered(sa, sb)
    if s < sa:
        return "below"
    if s == sa:
        return "on-lower"
    if s < sb:
        return "inside"
    if s == sb:
        return "on-upper"
    return "above"


def max_liquidity(s: int, sa: int, sb: int, amount0_wei: int, amount1_wei: int):
    """Real-valued largest liquidity whose amounts fit both offers.  Returns (L*, binding side '0' | '1' | '01')."""
    sa, sb = ordered(sa, sb)
    if s <= sa:
        return Fraction(amount0_wei * sa * sb, Q96 * (sb - sa)), "0"
    if s < sb:
        l0 = Fraction(amount0_wei * s * sb, Q96 * (sb - s))
        l1 = Fraction(amount1_wei * Q96, s - sa)
        if l0 < l1:
            return l0, "0"
        if l1 < l0:
            return l1, "1"
        return l0, "01"
    return Fraction(amount1_wei * Q96, sb - sa), "1"


def slack(s: int, sa: int, sb: int, amount0_wei: int) -> Fraction:
    """The statement's allowance below the real-valued maximum: one unit + offered token0 / sqrt-price span.
    The span is the one of the token0 formula (sb - p); above the range, where token0 plays no role, the whole
    range's span is used (most lenient reading)."""
    sa, sb = ordered(sa, sb)
    p = clamp(s, sa, sb)
    span = sb - p if p < sb else sb - sa
    return 1 + Fraction(amount0_wei, span)


def to_wei_floor(amount, decimals: int) -> int:
    """An offer in atomic units; a fraction of an atomic unit cannot be offered to the protocol."""
    if isinstance(amount, Decimal):
        f = Fraction(amount)
    else:
        f = Fraction(amount)
    w = f * 10**decimals
    return w.numerator // w.denominator


def rel_err(got, want: Fraction) -> Fraction:
    """|got - want| / want; 0 when both are 0; 1 when only the reference is 0."""
    g = got if isinstance(got, Fraction) else Fraction(got)
    if want == 0:
        return Fraction(0) if g == 0 else Fraction(1)
    return abs(g - want) / abs(want)


def sqrt_matches_price(s: int, price, d0: int, d1: int, token0_is_quote: bool) -> bool:
    """s is within one tick (factor sqrt(1.0001) either way) of the sqrt ratio implied by a base-unit price."""
    p = Fraction(price)
    if token0_is_quote:
        p = 1 / p
    atomic = p / Fraction(10) ** (d0 - d1)  # token1 wei per token0 wei
    sq = Fraction(s * s, Q192)
    k = Fraction(10001, 10000)
    return atomic / k <= sq <= atomic * k
