"""Aave v3 risk model in exact arithmetic (fractions.Fraction).  Imports nothing from demeter.

A portfolio is
    supplies: {token: (amount, is_collateral)}      amounts in tokens, Fraction
    debts:    {token: amount}
    prices:   {token: price in the base currency}
    risk:     {token: {"ltv": Fraction, "lt": Fraction, "collateral": bool, "borrow": bool}}

Definitions (GenericLogic.calculateUserAccountData / ValidationLogic of Aave v3, e-mode and isolation aside):
    C_i = amount_i * price_i for supplies used as collateral, D_j = debt_j * price_j
    health factor            HF   = sum(C_i * LT_i) / sum(D_j)        (infinite without debt)
    weighted max LTV         LTVw = sum(C_i * LTV_i) / sum(C_i)       (0 without collateral)
    weighted liq. threshold  LTw  = sum(C_i * LT_i) / sum(C_i)        (0 without collateral)
    borrow of value v accepted  only if  sum(C_i) * LTVw >= sum(D_j) + v     (and HF > 1 before, borrowing enabled)
    withdrawal / switching collateral off accepted only if HF afterwards >= 1

Decisions are three-valued: ACCEPT when the limit holds with relative margin BAND, REJECT when it fails with
that margin, EITHER inside the band (how the two sides are rounded is not specified)."""
from fractions import Fraction

ACCEPT, REJECT, EITHER = "accept", "reject", "either"
BAND = Fraction(1, 10**9)
INF = None  # health factor without debt


def F(x):
    if isinstance(x, Fraction):
        return x
    if isinstance(x, int):
        return Fraction(x)
    return Fraction(str(x))


# amounts are carried with 35 significant digits by the code under test: a remainder (supplied - withdrawn) is only
# known to about 1e-34 of the supplied amount, whatever the size of the debt it is compared with
AMOUNT_RESOLUTION = Fraction(1, 10**33)


def side(lhs, rhs, band=BAND, slack=0):
    """three-valued lhs >= rhs for non-negative rhs; `slack` = absolute uncertainty of lhs."""
    if lhs - slack >= rhs * (1 + band):
        return ACCEPT
    if lhs + slack < rhs * (1 - band):
        return REJECT
    return EITHER


class Portfolio:
    def __init__(self, supplies, debts, prices, risk):
        self.supplies = {k: (F(a), bool(c)) for k, (a, c) in supplies.items()}
        self.debts = {k: F(a) for k, a in debts.items()}
        self.prices = {k: F(p) for k, p in prices.items()}
        self.risk = risk

    # ---- aggregates
    def coll_values(self):
        return {k: a * self.prices[k] for k, (a, c) in self.supplies.items() if c}

    def total_collateral(self):
        return sum(self.coll_values().values(), Fraction(0))

    def total_debt(self):
        return sum((a * self.prices[k] for k, a in self.debts.items()), Fraction(0))

    def lt_sum(self, without=None, minus=None):
        """sum C_i * LT_i; `without` drops one token entirely, `minus`=(token, amount) removes part of one."""
        s = Fraction(0)
        for k, v in self.coll_values().items():
            if k == without:
                continue
            if minus is not None and minus[0] == k:
                v = v - F(minus[1]) * self.prices[k]
            s += v * F(self.risk[k]["lt"])
        return s

    def ltv_sum(self):
        return sum((v * F(self.risk[k]["ltv"]) for k, v in self.coll_values().items()), Fraction(0))

    # ---- figures
    def health_factor(self):
        d = self.total_debt()
        return INF if d == 0 else self.lt_sum() / d

    def max_ltv(self):
        c = self.total_collateral()
        return Fraction(0) if c == 0 else self.ltv_sum() / c

    def liquidation_threshold(self):
        c = self.total_collateral()
        return Fraction(0) if c == 0 else self.lt_sum() / c

    def healthy(self, band=BAND):
        """three-valued HF >= 1."""
        return side(self.lt_sum(), self.total_debt(), band)

    # ---- limits
    def borrow_room_value(self):
        return self.ltv_sum() - self.total_debt()

    def borrow_limit(self, token):
        """largest amount of `token` whose borrow satisfies the LTV rule (may be negative)."""
        return self.borrow_room_value() / self.prices[token]

    def withdraw_limit(self, token):
        """largest amount of `token` that can be withdrawn: everything for a non-collateral supply or without debt,
        otherwise what keeps HF >= 1 (negative when the account is already under water)."""
        amount, coll = self.supplies[token]
        if not coll or not self.debts:
            return amount
        d = self.total_debt()
        others = self.lt_sum(without=token)
        keep = (d - others) / (F(self.risk[token]["lt"]) * self.prices[token])
        if keep < 0:
            keep = Fraction(0)
        return amount - keep

    # ---- decisions
    def decide_borrow(self, token, amount):
        amount = F(amount)
        if amount <= 0:
            return EITHER, "non-positive-amount"
        need = self.total_debt() + amount * self.prices[token]
        s = side(self.ltv_sum(), need)
        if s == REJECT:
            return REJECT, "ltv-limit"
        if s == EITHER:
            return EITHER, "ltv-band"
        # the limit holds with margin; the request must be accepted if the token may be borrowed and HF > 1 before
        if not self.risk[token]["borrow"]:
            return EITHER, "borrowing-disabled"
        if self.debts and side(self.lt_sum(), self.total_debt()) != ACCEPT:
            return EITHER, "hf-before-not-above-1"
        return ACCEPT, "ltv-limit"

    def decide_withdraw(self, token, amount, reported_supply=None):
        """amount None = everything.  reported_supply: the amount the code itself reports for the position (a
        request for exactly that much is 'all of it', whatever the 35th digit says)."""
        have, coll = self.supplies[token]
        if amount is None:
            amount = have if reported_supply is None else F(reported_supply)
            is_all = True
        else:
            amount = F(amount)
            is_all = reported_supply is not None and amount == F(reported_supply)
        if amount <= 0:
            return EITHER, "non-positive-amount"
        soft = None
        if not is_all:
            if amount > have * (1 + BAND):
                return REJECT, "exceeds-supplied"
            if amount > have * (1 - BAND):
                soft = "supplied-band"
        if not coll or not self.debts:
            return (EITHER, soft) if soft else (ACCEPT, "no-hf-constraint")
        # the kept collateral is a difference of two 35-digit amounts: it cannot be resolved below ~1e-34 of `have`
        slack = AMOUNT_RESOLUTION * have * self.prices[token] * F(self.risk[token]["lt"])
        s = side(self.lt_sum(minus=(token, min(amount, have))), self.total_debt(), slack=slack)
        if s == REJECT:
            return REJECT, "hf-after"
        if s == EITHER:
            return EITHER, "hf-band"
        return (EITHER, soft) if soft else (ACCEPT, "hf-after")

    def decide_collateral(self, token, flag):
        have, coll = self.supplies[token]
        if coll == bool(flag):
            return ACCEPT, "no-change"
        if flag:
            if not self.risk[token]["collateral"]:
                return EITHER, "collateral-disabled"
            return ACCEPT, "switch-on"
        if not self.debts:
            return ACCEPT, "no-hf-constraint"
        s = side(self.lt_sum(without=token), self.total_debt())
        if s == REJECT:
            return REJECT, "hf-after"
        if s == EITHER:
            return EITHER, "hf-band"
        return ACCEPT, "hf-after"


class Ledger:
    """Scaled-balance book of one account, driven by the accepted operations only."""

    def __init__(self):
        self.sup = {}  # token -> [scaled Fraction, collateral flag]
        self.bor = {}  # token -> scaled Fraction

    def supply(self, token, amount, index, collateral):
        if token not in self.sup:
            self.sup[token] = [Fraction(0), bool(collateral)]
        self.sup[token][0] += F(amount) / F(index)

    def withdraw(self, token, amount, index, everything=False):
        if everything or token not in self.sup:
            self.sup.pop(token, None)
            return
        self.sup[token][0] -= F(amount) / F(index)
        if self.sup[token][0] < Fraction(1, 10**18):  # the code treats a scaled residue below 1e-18 as nothing
            self.sup.pop(token)

    def borrow(self, token, amount, index):
        self.bor[token] = self.bor.get(token, Fraction(0)) + F(amount) / F(index)

    def repay(self, token, amount, index, everything=False):
        if everything or token not in self.bor:
            self.bor.pop(token, None)
            return
        self.bor[token] -= F(amount) / F(index)
        if self.bor[token] < Fraction(1, 10**18):
            self.bor.pop(token)

    def set_collateral(self, token, flag):
        if token in self.sup:
            self.sup[token][1] = bool(flag)

    def portfolio(self, liq_index, bor_index, prices, risk):
        return Portfolio(
            {k: (s * F(liq_index[k]), c) for k, (s, c) in self.sup.items()},
            {k: s * F(bor_index[k]) for k, s in self.bor.items()},
            prices, risk,
        )
