"""Reference models for GMX v1 (Vault / VaultUtils / GlpManager, integer arithmetic exactly as the contracts do it)
and GMX v2 synthetics (ExecuteDepositUtils / ExecuteWithdrawalUtils / SwapPricingUtils / PricingUtils, re-derived
in exact rational arithmetic over the float inputs).  Imports nothing from demeter.

v1 units: token amounts in the token's own wei, prices scaled by 1e30, USDG / GLP / AUM-in-USDG in 1e18 wei.
"""
from fractions import Fraction

PRICE_PRECISION = 10**30
BPS = 10000
USDG_DECIMALS = 18
GLP_DECIMALS = 18
MINT_BURN_FEE_BPS = 25
TAX_BPS = 60
MAX_FEE_BPS = MINT_BURN_FEE_BPS + TAX_BPS


# ------------------------------------------------------------------------------------------------ v1
def adjust_for_decimals(amount: int, dec_div: int, dec_mul: int) -> int:
    """Vault.adjustForDecimals(_amount, _tokenDiv, _tokenMul) = _amount * 10^mul / 10^div (integer division)."""
    return amount * 10**dec_mul // 10**dec_div


def target_usdg_amount(weight: int, total_weights: int, usdg_supply: int) -> int:
    """Vault.getTargetUsdgAmount."""
    if usdg_supply == 0 or total_weights == 0:
        return 0
    return weight * usdg_supply // total_weights


def fee_basis_points(initial: int, usdg_delta: int, target: int, increment: bool,
                     base: int = MINT_BURN_FEE_BPS, tax: int = TAX_BPS) -> int:
    """VaultUtils.getFeeBasisPoints with hasDynamicFees = true."""
    nxt = initial + usdg_delta
    if not increment:
        nxt = 0 if usdg_delta > initial else initial - usdg_delta
    if target == 0:
        return base
    initial_diff = abs(initial - target)
    next_diff = abs(nxt - target)
    if next_diff < initial_diff:
        rebate = tax * initial_diff // target
        return 0 if rebate > base else base - rebate
    average_diff = (initial_diff + next_diff) // 2
    if average_diff > target:
        average_diff = target
    return base + tax * average_diff // target


def fee_envelope(initial: int, usdg_delta: int, target: int, increment: bool, radius: int = 2):
    """The rule evaluated on every input within `radius` wei of the delta and 1 wei of the target: the rule jumps
    (by up to base + tax) where the move stops improving the balance, so an implementation that keeps a fraction of
    a wei somewhere may legitimately sit on the other side of the jump.  Returns the set of fees."""
    out = set()
    for d in range(-radius, radius + 1):
        if usdg_delta + d < 0:
            continue
        for t in ((target, target + 1) if target > 0 else (0,)):  # a zero target (zero weight) stays zero
            out.add(fee_basis_points(initial, usdg_delta + d, t, increment))
    return out


def fee_path(initial: int, usdg_delta: int, target: int, increment: bool) -> str:
    """Which branch of the rule decides the fee (for classification only)."""
    if target == 0:
        return "zero-target"
    nxt = initial + usdg_delta if increment else max(0, initial - usdg_delta)
    idf, ndf = abs(initial - target), abs(nxt - target)
    if ndf < idf:
        crossed = (initial < target) != (nxt < target) and nxt != target
        return "improve-cross" if crossed else "improve"
    if (idf + ndf) // 2 > target:
        return "worsen-capped"
    return "worsen" if (idf or ndf) else "stay-at-target"


class V1State:
    """One bar of the pool: everything the Vault rule reads."""

    def __init__(self, price: int, decimals: int, usdg_amount: int, weight: int, total_weights: int,
                 usdg_supply: int, aum: int, glp_supply: int):
        self.price = int(price)
        self.decimals = int(decimals)
        self.usdg_amount = int(usdg_amount)
        self.weight = int(weight)
        self.total_weights = int(total_weights)
        self.usdg_supply = int(usdg_supply)
        self.aum = int(aum)  # 1e30-scaled USD
        self.glp_supply = int(glp_supply)

    @property
    def target(self) -> int:
        return target_usdg_amount(self.weight, self.total_weights, self.usdg_supply)

    @property
    def aum_in_usdg(self) -> int:
        # GlpManager.getAumInUsdg: aum * 10^18 / 10^30
        return self.aum * 10**USDG_DECIMALS // PRICE_PRECISION


def buy_usdg(st: V1State, token_wei: int, fee_bps=None):
    """Vault.buyUSDG.  Returns (usdg_before_fee, fee_bps, usdg_minted).  fee_bps may be forced (Fraction) to
    evaluate the amount formula for a given fee; then no intermediate floor is applied to the fee step."""
    usdg = token_wei * st.price // PRICE_PRECISION
    usdg = adjust_for_decimals(usdg, st.decimals, USDG_DECIMALS)
    f = fee_basis_points(st.usdg_amount, usdg, st.target, True) if fee_bps is None else fee_bps
    after = token_wei * (BPS - f) // BPS
    mint = after * st.price // PRICE_PRECISION
    mint = adjust_for_decimals(mint, st.decimals, USDG_DECIMALS)
    return usdg, f, mint


def add_liquidity(st: V1State, token_wei: int, fee_bps=None):
    """GlpManager._addLiquidity.  Returns dict(usdg, fee_bps, usdg_after_fee, glp_wei)."""
    aum_usdg = st.aum_in_usdg
    usdg, f, mint_usdg = buy_usdg(st, token_wei, fee_bps)
    glp = mint_usdg if aum_usdg == 0 else mint_usdg * st.glp_supply // aum_usdg
    return {"usdg": usdg, "fee_bps": f, "usdg_after_fee": mint_usdg, "glp_wei": glp}


def add_liquidity_exact(st: V1State, token_wei, fee_bps) -> Fraction:
    """The same chain without any rounding step, for a given fee (Fraction): the value every correctly rounding
    implementation stays below, and within a few wei of."""
    token_wei = Fraction(token_wei)
    usdg_after = token_wei * (BPS - Fraction(fee_bps)) / BPS * st.price / PRICE_PRECISION
    usdg_after = usdg_after * 10**USDG_DECIMALS / 10**st.decimals
    return usdg_after * st.glp_supply / st.aum_in_usdg


def sell_usdg(st: V1State, usdg: int, fee_bps=None):
    """Vault.sellUSDG.  Returns (redemption_wei, fee_bps, token_wei_out)."""
    red = usdg * PRICE_PRECISION // st.price
    red = adjust_for_decimals(red, USDG_DECIMALS, st.decimals)
    f = fee_basis_points(st.usdg_amount, usdg, st.target, False) if fee_bps is None else fee_bps
    out = red * (BPS - f) // BPS
    return red, f, out


def remove_liquidity(st: V1State, glp_wei: int, fee_bps=None):
    """GlpManager._removeLiquidity.  Returns dict(usdg, fee_bps, redemption_wei, token_wei)."""
    usdg = glp_wei * st.aum_in_usdg // st.glp_supply
    red, f, out = sell_usdg(st, usdg, fee_bps)
    return {"usdg": usdg, "fee_bps": f, "redemption_wei": red, "token_wei": out}


def remove_liquidity_exact(st: V1State, glp_wei, fee_bps) -> Fraction:
    usdg = Fraction(glp_wei) * st.aum_in_usdg / st.glp_supply
    red = usdg * PRICE_PRECISION / st.price * 10**st.decimals / 10**USDG_DECIMALS
    return red * (BPS - Fraction(fee_bps)) / BPS


def token_wei_in_glp_wei(st: V1State) -> Fraction:
    """How many GLP wei one wei of the token is worth (size of the token-side rounding quantum on a mint)."""
    return Fraction(st.price * 10**USDG_DECIMALS, PRICE_PRECISION * 10**st.decimals) * st.glp_supply / max(1, st.aum_in_usdg)


def usdg_wei_in_token_wei(st: V1State) -> Fraction:
    return Fraction(PRICE_PRECISION * 10**st.decimals, st.price * 10**USDG_DECIMALS)


def reward_increment(tokens_per_second, seconds: int, held_glp: Fraction, glp_supply_wei: int) -> Fraction:
    """Pro-rata share of the bar's distribution: tokens_per_second * seconds * held / supply, with held in GLP units
    and supply in GLP wei (so the result is in units of the reward token, like the distributor's wei / 1e18)."""
    return Fraction(tokens_per_second) * seconds * Fraction(held_glp) / Fraction(glp_supply_wei)


# ------------------------------------------------------------------------------------------------ v2
class V2Config:
    """Market configuration the formulas read (values are whatever the harness configured on the market)."""

    def __init__(self, exponent=2, impact_pos=Fraction(2, 10**10), impact_neg=Fraction(4, 10**10),
                 dep_fee_pos=Fraction(5, 10**4), dep_fee_neg=Fraction(7, 10**4),
                 wd_fee_pos=Fraction(5, 10**4), wd_fee_neg=Fraction(7, 10**4)):
        self.exponent = int(exponent)
        if self.exponent != exponent:
            raise ValueError("the exact oracle needs an integer impact exponent")
        self.impact_pos = Fraction(impact_pos)
        self.impact_neg = Fraction(impact_neg)
        self.dep_fee_pos = Fraction(dep_fee_pos)
        self.dep_fee_neg = Fraction(dep_fee_neg)
        self.wd_fee_pos = Fraction(wd_fee_pos)
        self.wd_fee_neg = Fraction(wd_fee_neg)

    def adjusted_impact_factors(self):
        # MarketUtils.getAdjustedSwapImpactFactors: the positive factor never exceeds the negative one
        pos, neg = self.impact_pos, self.impact_neg
        if pos > neg:
            pos = neg
        return pos, neg


class V2State:
    def __init__(self, long_amount, short_amount, virt_long, virt_short, pool_value, supply, impact_pool,
                 long_price, short_price):
        F = Fraction
        self.long_amount = F(long_amount)
        self.short_amount = F(short_amount)
        self.virt_long = None if virt_long is None else F(virt_long)
        self.virt_short = None if virt_short is None else F(virt_short)
        self.pool_value = F(pool_value)
        self.supply = F(supply)
        self.impact_pool = F(impact_pool)
        self.long_price = F(long_price)
        self.short_price = F(short_price)


EPS = Fraction(1, 2**52)


def _impact_for_pool(cfg: V2Config, usd_a, usd_b, delta_a, delta_b):
    """SwapPricingUtils._getPriceImpactUsd.  Returns (impact, kind, err) where err bounds what a binary64 evaluation
    of the same formula may be off by, in USD: the pool values and their sums are each rounded to 2^-52 relative, so
    the two imbalances carry an absolute error d <= 2 eps (A + B + dA + dB), which the (difference of) powers turns
    into e f diff^(e-1) d each, plus the rounding of the terms themselves."""
    next_a, next_b = usd_a + delta_a, usd_b + delta_b
    init_diff = abs(usd_a - usd_b)
    next_diff = abs(next_a - next_b)
    same_side = (usd_a <= usd_b) == (next_a <= next_b)
    e = cfg.exponent
    pos_f, neg_f = cfg.adjusted_impact_factors()
    d = 2 * EPS * (usd_a + usd_b + abs(delta_a) + abs(delta_b))
    fmax = max(pos_f, neg_f)

    def perr(x):  # |(x +- d)^e - x^e|
        return (x + d) ** e - x**e

    if same_side:
        positive = next_diff < init_diff
        f = pos_f if positive else neg_f
        a, b = init_diff**e * f, next_diff**e * f
        err = fmax * (perr(init_diff) + perr(next_diff)) + 8 * EPS * (a + b)
        v = abs(a - b)
        return (v if positive else -v), "same-side", err
    a = init_diff**e * pos_f
    b = next_diff**e * neg_f
    err = fmax * (perr(init_diff) + perr(next_diff)) + 8 * EPS * (a + b)
    v = abs(a - b)
    return (v if a > b else -v), "crossover", err


def deposit_price_impact(cfg: V2Config, st: V2State, long_usd, short_usd):
    """SwapPricingUtils.getPriceImpactUsd for a deposit (tokenA = long, tokenB = short, virtual inventory included).
    Returns (impact_usd, info).  info["candidates"]: every value a binary64 evaluation may legitimately return when
    it cannot tell the sign of the real-pool impact (which decides whether the virtual inventory is consulted at
    all): the real-pool impact itself and, if there is a virtual inventory, the worse of the two."""
    imp, kind, err = _impact_for_pool(cfg, st.long_amount * st.long_price, st.short_amount * st.short_price,
                                      long_usd, short_usd)
    # sign_ambiguous: a float evaluation cannot tell the sign of the real-pool impact, which selects the fee factor
    # and whether the virtual inventory is consulted at all
    info = {"kind": kind, "virtual_used": False, "err": err, "sign_ambiguous": abs(imp) <= err, "candidates": [imp]}
    if st.virt_long is None or st.virt_short is None:
        return imp, info
    vimp, vkind, verr = _impact_for_pool(cfg, st.virt_long * st.long_price, st.virt_short * st.short_price,
                                         long_usd, short_usd)
    if info["sign_ambiguous"]:
        info["candidates"].append(min(vimp, imp))
        info["err"] = max(err, verr)
    if imp >= 0:
        return imp, info
    info["err"] = max(err, verr)
    if vimp < imp:
        info["virtual_used"] = True
        info["kind"] = vkind
        return vimp, info
    return imp, info


def _deposit_side(cfg: V2Config, st: V2State, price_in, price_out, amount, impact_usd):
    """ExecuteDepositUtils._executeDeposit for one token.  Returns (gm, fee_amount, capped, positive_gm, reverts)."""
    fee_factor = cfg.dep_fee_pos if impact_usd > 0 else cfg.dep_fee_neg
    fee = amount * fee_factor
    after = amount - fee
    mint = Fraction(0)
    capped = False
    pos_gm = Fraction(0)
    if impact_usd > 0:
        impact_amount = impact_usd / price_out
        if impact_amount > st.impact_pool:
            impact_amount = st.impact_pool
            capped = True
        pos_gm = impact_amount * price_out * st.supply / st.pool_value
        mint += pos_gm
    if impact_usd < 0:
        after -= (-impact_usd) / price_in
    # the contract works in unsigned integers: a negative impact larger than the deposit reverts
    reverts = after < 0
    mint += after * price_in * st.supply / st.pool_value
    return mint, fee, capped, pos_gm, reverts


def deposit(cfg: V2Config, st: V2State, long_amount, short_amount, impact_override=None):
    """Minted GM for a deposit of long_amount / short_amount (token units).  Returns a dict.
    impact_override: evaluate fees and mint for this price impact (USD) instead of the model's own (used when the
    sign of the impact is below float resolution and the implementation's value has been accepted)."""
    la, sa = Fraction(long_amount), Fraction(short_amount)
    long_usd, short_usd = la * st.long_price, sa * st.short_price
    total = long_usd + short_usd
    impact, info = deposit_price_impact(cfg, st, long_usd, short_usd)
    if impact_override is not None:
        impact = Fraction(impact_override)
        info = dict(info, err=Fraction(0), overridden=True)
    gm = Fraction(0)
    long_fee = short_fee = Fraction(0)
    capped = False
    reverts = False
    pos_gm = Fraction(0)
    if la > 0:
        g, long_fee, c, p, r = _deposit_side(cfg, st, st.long_price, st.short_price, la, impact * long_usd / total)
        gm += g
        capped |= c
        reverts |= r
        pos_gm += p
    if sa > 0:
        g, short_fee, c, p, r = _deposit_side(cfg, st, st.short_price, st.long_price, sa, impact * short_usd / total)
        gm += g
        capped |= c
        reverts |= r
        pos_gm += p
    return {
        "gm": gm, "impact_usd": impact, "long_fee": long_fee, "short_fee": short_fee,
        "fee_usd": long_fee * st.long_price + short_fee * st.short_price, "capped": capped,
        "positive_gm": pos_gm, "total_usd": total, "info": info, "reverts": reverts,
        "err_usd": info["err"], "err_gm": info["err"] * st.supply / st.pool_value,
    }


def withdraw(cfg: V2Config, st: V2State, gm_amount):
    """ExecuteWithdrawalUtils: pro-rata pool composition at pool value per share, less the withdrawal fee."""
    gm = Fraction(gm_amount)
    usd = st.pool_value * gm / st.supply
    long_pool_usd = st.long_amount * st.long_price
    short_pool_usd = st.short_amount * st.short_price
    tot = long_pool_usd + short_pool_usd
    long_gross = usd * long_pool_usd / tot / st.long_price
    short_gross = usd * short_pool_usd / tot / st.short_price
    f = cfg.wd_fee_neg  # withdrawals are charged the factor for negative impact (forPositiveImpact = false)
    long_fee, short_fee = long_gross * f, short_gross * f
    lo, so = long_gross - long_fee, short_gross - short_fee
    return {
        "long": lo, "short": so, "long_fee": long_fee, "short_fee": short_fee, "gm_usd": usd,
        "usd": lo * st.long_price + so * st.short_price,
    }
