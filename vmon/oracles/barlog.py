"""Offline trace checker for C05 (bar loop: each bar once, in order, fixed phase order; action records and
account history aligned with the bars).

Imports nothing from demeter.  Input is a plain event list produced by recording wrappers (vmon/checks/c05.py):

    ("SET",  market, ts)                       set_market_status entered (ts = timestamp of the status passed in)
    ("HB",   hook, ts, obs) / ("HE", hook)     strategy hook entered / left; hook in initialize, before_bar, on_bar,
                                               after_bar, finalize; ts = snapshot.timestamp (None for initialize /
                                               finalize); obs = {"mts": {market: market_status.timestamp}, "rows": n,
                                               "last_row_ts": ts|None, "fp": {market: [(column, value)]}} = what the strategy can see
                                               at that moment (fp = cells of the markets' current status rows)
    ("NB",   uid, stamped_ts) / ("NE", uid)    strategy.notify entered / left for the action object uid
    ("WB",   tid, ts) / ("WE", tid, result)    trigger.when entered / left
    ("DB",   tid, ts) / ("DE", tid)            trigger.do entered / left
    ("UB",   market) / ("UE", market)          market.update entered / left
    ("OB",   opid, market, op, must_record) / ("OE", opid, ok, changed)   scripted operation issued by the strategy;
                                               changed = False when an accepted call recorded nothing and left the
                                               projected state (wallet, positions, book) exactly as it was
    ("ACT",  uid, market, type)                action-record callback invoked for the action object uid

All ts are naive datetimes.  `expected` is the independently computed bar index.  The checker is tolerant: it
reports a violation with a mechanism-specific clause and resynchronises on the hooks it sees."""
from collections import Counter

PRE, INIT, BEFORE, ONBAR, AFTER, FINAL = "start", "initialize", "before_bar", "on_bar", "after_bar", "finalize"


class Result:
    def __init__(self):
        self.violations = []  # (operation, clause, site, detail, data)
        self.ev = 0
        self.stats = Counter()
        self.bars = []  # per visited bar: {"ts", "actions": [(uid, source, phase, type, market)], ...}
        self._seen = set()

    def bad(self, operation, clause, site, detail, data=None):
        k = (operation, clause, site)
        self.stats["violations"] += 1
        if k in self._seen and len(self.violations) > 40:
            return
        self._seen.add(k)
        self.violations.append((operation, clause, site, detail, data))


def _pos(expected, ts):
    try:
        return expected.index(ts)
    except ValueError:
        return None


def _rel(expected, i, ts):
    """how ts relates to bar i of the expected index: previous-bar, next-bar, earlier-bar, later-bar, not-a-bar"""
    j = _pos(expected, ts)
    if j is None:
        return "not-a-bar"
    if j == i - 1:
        return "previous-bar"
    if j == i + 1:
        return "next-bar"
    return "earlier-bar" if j < i else "later-bar"


def _row_rel(allowed, i, m, col, val):
    if i > 0 and val in allowed[i - 1].get(m, {}).get(col, ()):
        return "previous-bar"
    if i + 1 < len(allowed) and val in allowed[i + 1].get(m, {}).get(col, ()):
        return "next-bar"
    for j, a in enumerate(allowed):
        if val in a.get(m, {}).get(col, ()):
            return "earlier-bar" if j < i else "later-bar"
    return "no-bar"


def check_log(log, expected, markets, triggers, allowed=None):
    """triggers: {tid: {"fires": set of bar timestamps at which a trigger registered in initialize must fire exactly
    once, or None when nothing is promised about it}}."""
    R = Result()
    N = len(expected)
    stage = PRE
    bar = -1  # index of the bar whose before_bar was seen last
    open_hook = None
    open_upd = None
    open_op = None
    open_do = None
    open_notify = None
    upd_count = Counter()
    act = {}  # uid -> dict(bar, source, phase, market, type, notified=[(bar, stage_ok)], stamped=[...])
    act_order = []
    op_acts = {}
    op_info = {}
    fired = {tid: Counter() for tid in triggers}
    when_true_pending = None
    n_init = n_final = 0
    cur = None  # record of the current bar

    def cur_bar_for_action():
        return max(bar, 0)

    def phase_now():
        if open_notify is not None:
            return "notify"
        if open_do is not None:
            return "trigger"
        if open_hook is not None:
            return open_hook
        if open_upd is not None:
            return "update"
        return "between:" + stage

    def close_bar(i):
        """all comparisons that can be made when bar i is over"""
        if i < 0:
            return
        for m in markets:
            R.ev += 1
            c = upd_count[(i, m)]
            if c != 1:
                R.bad("update", "market-update-not-exactly-once-per-bar", f"count={'0' if c == 0 else '2+'}",
                      f"bar {i} ({expected[i] if i < N else '?'}): update() of market {m} ran {c} times", {"market": m})

    for e in log:
        k = e[0]
        if k == "SET":
            _, m, ts = e
            R.stats["set"] += 1
            if open_hook is None and open_upd is None and open_notify is None and stage in (INIT, AFTER):
                # start-of-bar refresh for the coming bar
                nxt = bar + 1
                R.ev += 1
                if nxt < N and ts != expected[nxt]:
                    R.bad("set_market_status", "start-of-bar-refresh-carries-other-bar", _rel(expected, nxt, ts),
                          f"market {m} refreshed with {ts} before bar {nxt} = {expected[nxt]}", {"market": m})
                elif nxt >= N:
                    R.bad("run", "bar-beyond-index", "set_market_status",
                          f"market {m} refreshed with {ts} after the last expected bar {expected[-1] if N else None}")
            elif stage in (BEFORE, ONBAR) and 0 <= bar < N:
                R.ev += 1
                R.stats["set_in_bar"] += 1
                if ts != expected[bar]:
                    R.bad("set_market_status", "in-bar-refresh-carries-other-bar", _rel(expected, bar, ts),
                          f"market {m} refreshed with {ts} inside bar {bar} = {expected[bar]}", {"market": m})
            continue

        if k == "HB":
            _, hook, ts, obs = e
            if open_hook is not None or open_upd is not None:
                R.bad("run", "phase-order", f"{hook}-inside-{open_hook or 'update'}", f"{hook} entered while {open_hook or open_upd} is running")
            if hook == INIT:
                n_init += 1
                if stage != PRE or n_init > 1:  # not the statement's subject: counted only
                    R.stats["initialize_not_once_before_first_bar"] += 1
                open_hook = INIT
                continue
            if hook == FINAL:
                n_final += 1
                close_bar(bar)
                R.ev += 1
                if bar != N - 1:
                    R.bad("run", "bars-not-visited", "last-bar-dropped" if bar == N - 2 else "several",
                          f"finalize() reached after bar {bar}; expected {N} bars, last {expected[-1] if N else None}")
                open_hook = FINAL
                stage = FINAL
                continue
            if hook == BEFORE:
                R.ev += 1
                if stage not in (PRE, INIT, AFTER):
                    R.bad("run", "phase-order", f"before_bar-after-{stage}", f"before_bar({ts}) entered in stage {stage} of bar {bar}")
                close_bar(bar)
                bar += 1
                cur = {"i": bar, "ts": ts, "actions": [], "phases": set(), "hooks": [BEFORE]}
                R.bars.append(cur)
                R.ev += 1
                if bar >= N:
                    R.bad("run", "bar-beyond-index", "before_bar", f"before_bar({ts}) is bar {bar}, expected only {N} bars")
                elif ts != expected[bar]:
                    j = _pos(expected, ts)
                    clause = "bar-not-in-index" if j is None else ("bar-skipped" if j > bar else "bar-repeated-or-out-of-order")
                    R.bad("run", clause, "before_bar", f"bar {bar}: before_bar saw {ts}, expected {expected[bar]}")
            else:
                want_stage = {ONBAR: BEFORE, AFTER: ONBAR}[hook]
                R.ev += 1
                if stage != want_stage:
                    R.bad("run", "phase-order", f"{hook}-after-{stage}", f"{hook}({ts}) entered in stage {stage} of bar {bar}")
                R.ev += 1
                if 0 <= bar < N and ts != expected[bar]:
                    R.bad("run", "hook-sees-other-bar", f"{hook}:{_rel(expected, bar, ts)}", f"bar {bar} = {expected[bar]}: {hook} saw {ts}")
                if cur is not None:
                    cur["hooks"].append(hook)
                if hook == AFTER:
                    for m in markets:
                        R.ev += 1
                        c = upd_count[(bar, m)]
                        if c == 0:
                            R.bad("update", "market-not-updated-before-after_bar", "after_bar",
                                  f"bar {bar}: after_bar entered but update() of {m} has not run in this bar", {"market": m})
            # what the strategy can see: every market is at this bar; one history row per finished bar
            if 0 <= bar < N and obs is not None:
                for m, mts in obs.get("mts", {}).items():
                    R.ev += 1
                    if mts != expected[bar]:
                        R.bad("run", "market-status-of-other-bar", f"{hook}:{_rel(expected, bar, mts)}",
                              f"bar {bar} = {expected[bar]}: at {hook} market {m} shows status of {mts}")
                if allowed is not None:
                    for m, pairs in obs.get("fp", {}).items():
                        al = allowed[bar].get(m, {})
                        R.ev += 1
                        if not pairs and any(al.values()):
                            R.bad("run", "market-row-missing-for-bar", hook, f"bar {bar} = {expected[bar]}: at {hook} market {m} shows no rows "
                                  "although its data has rows inside the bar", {"market": m})
                        for col, val in pairs:
                            R.ev += 1
                            if val not in al.get(col, ()):
                                R.bad("run", "market-row-of-other-bar", f"{hook}:{_row_rel(allowed, bar, m, col, val)}",
                                      f"bar {bar} = {expected[bar]}: at {hook} market {m} shows {col} = {val[1:]}, which is not among the "
                                      f"{len(al.get(col, ()))} raw rows inside the bar", {"market": m})
                                break
                if hook == BEFORE:
                    R.ev += 1
                    if obs.get("rows") != bar:
                        R.bad("account_status", "history-rows-ne-finished-bars", "before_bar",
                              f"bar {bar}: {obs.get('rows')} history rows exist when before_bar starts")
                    elif bar > 0 and obs.get("last_row_ts") != expected[bar - 1]:
                        R.bad("account_status", "history-row-timestamp", "before_bar:" + _rel(expected, bar - 1, obs.get("last_row_ts")),
                              f"bar {bar}: newest history row carries {obs.get('last_row_ts')}, previous bar is {expected[bar - 1]}")
            open_hook = hook
            continue

        if k == "HE":
            _, hook = e
            open_hook = None
            if hook in (INIT, BEFORE, ONBAR, AFTER, FINAL):
                stage = hook
            continue

        if k == "UB":
            _, m = e
            R.ev += 1
            R.stats["update"] += 1
            if open_upd is not None:
                R.stats["nested_update"] += 1
                continue
            if stage != ONBAR or open_hook is not None:
                R.bad("update", "update-outside-window", f"{'inside-' + open_hook if open_hook else 'after-' + stage}",
                      f"bar {bar}: update() of {m} entered {('inside ' + open_hook) if open_hook else ('after ' + stage)}; "
                      "must run after on_bar and before after_bar", {"market": m})
            upd_count[(bar, m)] += 1
            open_upd = m
            continue
        if k == "UE":
            if open_upd == e[1]:
                open_upd = None
            continue

        if k in ("WB", "DB"):
            _, tid, ts = e
            R.ev += 1
            what = "when" if k == "WB" else "do"
            if stage != BEFORE or open_hook is not None:
                R.bad("trigger", "trigger-outside-window", f"{what}-{'inside-' + open_hook if open_hook else 'after-' + stage}",
                      f"bar {bar}: trigger.{what} entered {('inside ' + open_hook) if open_hook else ('after ' + stage)}; "
                      "must run after before_bar and before on_bar")
            R.ev += 1
            if 0 <= bar < N and ts != expected[bar]:
                R.bad("trigger", "trigger-sees-other-bar", f"{what}:{_rel(expected, bar, ts)}", f"bar {bar} = {expected[bar]}: trigger.{what} saw {ts}")
            if k == "DB":
                open_do = tid
                R.stats["trigger_do"] += 1
                if tid in fired:
                    fired[tid][bar] += 1
                if cur is not None:
                    cur["hooks"].append("trigger")
            continue
        if k == "WE":
            continue
        if k == "DE":
            open_do = None
            continue

        if k == "OB":
            _, opid, m, op, must = e
            op_acts[opid] = 0
            op_info[opid] = (m, op, must, phase_now(), bar)
            open_op = opid
            continue
        if k == "OE":
            _, opid, ok, changed = e
            m, op, must, ph, b = op_info[opid]
            open_op = None
            R.stats["ops"] += 1
            if ok:
                R.stats["ops_accepted"] += 1
                R.stats[f"accepted@{ph}"] += 1
                if must:
                    R.ev += 1
                    if op_acts[opid] == 0 and changed is False:
                        R.stats["accepted_noop_without_record"] += 1
                    elif op_acts[opid] == 0:
                        R.bad(op, "accepted-op-without-action-record", m, f"bar {b}, phase {ph}: {m}.{op} returned normally but no action was recorded", {"market": m})
            continue

        if k == "ACT":
            _, uid, m, typ = e
            if open_op is not None:
                op_acts[open_op] += 1
                source = "op"
            elif open_upd is not None:
                source = "market"
            else:
                source = "other"
            ph = phase_now()
            b = cur_bar_for_action()
            R.ev += 1
            if uid in act:
                R.bad("record", "same-action-object-recorded-twice", typ, f"bar {b}: action {typ} recorded again")
                continue
            # recorded in initialize(): belongs to bar 0 (the timestamp that is current when initialize runs)
            act[uid] = {"bar": b, "source": source, "phase": ph, "market": m, "type": typ, "notes": [], "stamps": []}
            act_order.append(uid)
            continue

        if k == "NB":
            _, uid, stamped = e
            open_notify = uid
            R.stats["notify"] += 1
            R.ev += 1
            ok_stage = stage == AFTER and open_hook is None and open_upd is None
            if uid not in act:
                R.bad("notify", "notified-action-never-recorded", "notify", f"bar {bar}: notify() got an action the record callback never saw")
                continue
            a = act[uid]
            a["notes"].append(bar)
            a["stamps"].append(stamped)
            if not ok_stage:
                R.bad("notify", "notified-before-end-of-bar", f"{'inside-' + open_hook if open_hook else 'after-' + stage}",
                      f"bar {bar}: {a['type']} delivered to notify() {('inside ' + open_hook) if open_hook else ('after ' + stage)}, not after after_bar")
            continue
        if k == "NE":
            open_notify = None
            continue

    R.ev += 1
    if n_final == 0:  # the statement does not speak of finalize(); the bars are judged all the same
        R.stats["no_finalize"] += 1
        close_bar(bar)
        if bar != N - 1:
            R.bad("run", "bars-not-visited", "last-bar-dropped" if bar == N - 2 else "several", f"log ends after bar {bar}, expected {N} bars")
    R.ev += 1
    if len(R.bars) != N:
        R.bad("run", "bar-count", "more" if len(R.bars) > N else "fewer", f"{len(R.bars)} bars visited, expected {N}")
    seen_ts = [b["ts"] for b in R.bars]
    R.ev += 1
    if seen_ts != list(expected) and len(seen_ts) == N and sorted(seen_ts) == sorted(expected):
        R.bad("run", "bars-out-of-order", "before_bar", f"visited {seen_ts[:6]}..., expected {list(expected)[:6]}...")
    for b in R.bars:
        R.ev += 1
        seq = [h for i, h in enumerate(b["hooks"]) if not (h == "trigger" and i > 0 and b["hooks"][i - 1] == "trigger")]
        if seq not in ([BEFORE, ONBAR, AFTER], [BEFORE, "trigger", ONBAR, AFTER]):
            R.bad("run", "phase-order", "bar-hooks=" + ">".join(seq[:8]), f"bar {b['i']}: hooks ran as {b['hooks'][:12]}")

    # ---- per action: stamp and delivery
    for uid in act_order:
        a = act[uid]
        i = a["bar"]
        if i < len(R.bars):
            R.bars[i]["actions"].append(a)
        R.ev += 1
        n = len(a["notes"])
        where = f"{a['source']}@{a['phase']}"
        if n == 0:
            R.bad("notify", "action-never-notified", where, f"bar {i}: {a['market']}.{a['type']} recorded in {a['phase']} was never delivered to notify()", {"market": a["market"]})
        elif n > 1:
            R.bad("notify", "action-notified-more-than-once", where, f"bar {i}: {a['market']}.{a['type']} delivered {n} times (bars {a['notes']})")
        R.ev += 1
        late = [b for b in a["notes"] if b != i]
        if late:
            R.bad("notify", "action-notified-in-other-bar", where + (":later" if late[0] > i else ":earlier"),
                  f"{a['market']}.{a['type']} recorded in bar {i} ({a['phase']}) was delivered in bar {late[0]}")
        for st in a["stamps"]:
            R.ev += 1
            if i < N and st != expected[i]:
                R.bad("record", "action-stamped-with-other-bar", f"{where}:{_rel(expected, i, st)}",
                      f"{a['market']}.{a['type']} recorded in bar {i} = {expected[i]} ({a['phase']}) carries timestamp {st} when notified")

    # ---- triggers registered in initialize with a promised fire set
    for tid, spec in triggers.items():
        fires = spec.get("fires")
        if fires is None:
            continue
        for i in range(min(N, len(R.bars))):
            R.ev += 1
            want = 1 if expected[i] in fires else 0
            got = fired[tid][i]
            if got != want:
                R.bad("trigger", "trigger-fire-count", f"want={want}:got={'0' if got == 0 else ('1' if got == 1 else '2+')}",
                      f"bar {i} = {expected[i]}: trigger {tid} ({spec.get('kind')}) fired {got} times, its condition holds {want} times")
    R.actions = act
    R.action_order = act_order
    return R


def check_history(R, expected, final_actions, status_ts, df_index, df_prices, expected_prices):
    """final_actions: [(uid, timestamp)] of Actuator.actions after the run; status_ts: timestamps of
    Actuator.account_status; df_index: index of account_status_df; df_prices / expected_prices: {token: [values]}"""
    N = len(expected)
    act = R.actions
    R.ev += 1
    if [u for u, _ in final_actions] != R.action_order:
        extra = [u for u, _ in final_actions if u not in act]
        missing = [u for u in R.action_order if u not in {x for x, _ in final_actions}]
        R.bad("record", "action-log-differs-from-recorded", f"extra={len(extra) > 0}:missing={len(missing) > 0}",
              f"Actuator.actions has {len(final_actions)} entries, the record callback saw {len(R.action_order)} "
              f"({len(extra)} unknown, {len(missing)} missing, order differs: {not extra and not missing})")
    for uid, ts in final_actions:
        a = act.get(uid)
        if a is None:
            continue
        R.ev += 1
        i = a["bar"]
        if i < N and ts != expected[i]:
            R.bad("record", "action-stamped-with-other-bar", f"{a['source']}@{a['phase']}:{_rel(expected, i, ts)}",
                  f"{a['market']}.{a['type']} recorded in bar {i} = {expected[i]} ({a['phase']}) carries timestamp {ts} in Actuator.actions")
    R.ev += 1
    if len(status_ts) != N:
        R.bad("account_status", "history-row-count", "list:" + ("more" if len(status_ts) > N else "fewer"), f"{len(status_ts)} account_status entries for {N} bars")
    else:
        for i, ts in enumerate(status_ts):
            R.ev += 1
            if ts != expected[i]:
                R.bad("account_status", "history-row-timestamp", "list:" + _rel(expected, i, ts), f"account_status[{i}] carries {ts}, bar is {expected[i]}")
                break
    R.ev += 1
    if df_index is None:
        R.bad("account_status", "history-dataframe-missing", "df", "account_status_df is None after the run")
        return
    if len(df_index) != N:
        R.bad("account_status", "history-row-count", "df:" + ("more" if len(df_index) > N else "fewer"), f"account_status_df has {len(df_index)} rows for {N} bars")
        return
    for i, ts in enumerate(df_index):
        R.ev += 1
        if ts != expected[i]:
            R.bad("account_status", "history-row-timestamp", "df:" + _rel(expected, i, ts), f"account_status_df row {i} is indexed {ts}, bar is {expected[i]}")
            break
    for tok, want in expected_prices.items():
        R.ev += 1
        got = df_prices.get(tok)
        if got is None:
            R.bad("account_status", "history-price-column-missing", "df", f"account_status_df has no price column for {tok}")
            continue
        for i in range(N):
            R.ev += 1
            if got[i] != want[i]:
                j = [x for x in range(N) if want[x] == got[i]]
                rel = "not-a-bar-price" if not j else ("previous-bar" if i - 1 in j else ("next-bar" if i + 1 in j else "other-bar"))
                R.bad("account_status", "history-price-ne-bar-price", "df:" + rel,
                      f"row {i} ({expected[i]}): price of {tok} is {got[i]}, the bar's price is {want[i]}")
                break
