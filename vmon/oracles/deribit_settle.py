"""Reference model + offline event-log checker for Deribit option settlement (C16).

Exact arithmetic (fractions.Fraction), no import from demeter.  The checker is fed a plain-data log of one
backtest (per bar: timestamp, states before/after each phase, operation attempts, recorded actions, and the
quotes of the *raw* generated book) and returns the clauses that do not hold.

Rule (property C16):
  * a position is removed exactly once, at the first open bar at or after its expiry, never earlier;
  * in the money it pays  contracts * |S - K| / S  -  min(0.015 % * contracts, 12.5 % * contracts * mark),
    nothing when out of the money / at the money or when the payoff does not cover the fee;
  * the hourly market accepts trades only on bars where it is open.

Bands instead of points where the statement is silent:
  * the code quantises mark, payoff and fee to the token's fee step (ETH 1e-6, BTC 1e-8): the oracle computes the
    unrounded figures and allows one half step per rounded quantity;
  * a bar on the hour grid for which the book has no rows at all ("gap bar") may or may not settle;
  * an instrument that is absent from the book of the settlement bar has no mark: underlying = the price frame,
    fee anywhere in [0, min(0.015 % * contracts, 12.5 % * payoff)].
"""
from fractions import Fraction

FLAT_RATE = Fraction(15, 100000)  # 0.015 %
CAP_RATE = Fraction(1, 8)  # 12.5 %
FEE_STEP = {"ETH": Fraction(1, 10**6), "BTC": Fraction(1, 10**8)}
FLOAT_SLACK = Fraction(1, 10**12)  # per contract; the code divides two doubles before going to Decimal
ZERO = Fraction(0)


def frac(x):
    """exact Fraction of an int / Fraction / Decimal / float / numeric string (numpy scalars via float/int first)."""
    if isinstance(x, Fraction):
        return x
    if isinstance(x, bool):
        raise TypeError("bool")
    if isinstance(x, int):
        return Fraction(x)
    if isinstance(x, float):
        return Fraction(x)
    if isinstance(x, str):
        return Fraction(x)
    try:
        return Fraction(x)  # Decimal
    except TypeError:
        pass
    if hasattr(x, "dtype"):
        return Fraction(x.item())
    raise TypeError(type(x))


def on_hour(ts):
    return ts.minute == 0 and ts.second == 0 and ts.microsecond == 0


def payoff_band(token, kind, contracts, strike, underlying, mark):
    """What the settlement of `contracts` may pay.  mark None = instrument not quoted at the settlement bar.
    Returns dict(itm, gross, fee, net, lo, hi, deliver in must/never/either, branch, money)."""
    n = frac(contracts)
    K = frac(strike)
    S = frac(underlying)
    q = FEE_STEP[token]
    if S <= 0:
        raise ValueError("underlying must be positive")
    diff = (S - K) if kind == "CALL" else (K - S)
    itm = diff > 0
    out = {"itm": itm, "gross": ZERO, "fee": ZERO, "net": ZERO, "lo": ZERO, "hi": ZERO, "deliver": "never",
           "branch": "-", "money": "atm" if diff == 0 else "otm"}
    if not itm:
        if diff < 0 and -diff / S > Fraction(5, 100):
            out["money"] = "deep-otm"
        return out
    gross = n * diff / S
    flat = FLAT_RATE * n
    tol = q + n * FLOAT_SLACK  # half a step for the payoff, half a step for the fee
    if mark is None:
        fee_hi = min(flat, CAP_RATE * gross)
        fee_lo = ZERO
        branch = "unquoted"
        fee = fee_hi
    else:
        m = frac(mark)
        cap = CAP_RATE * n * m
        fee = min(flat, cap)
        fee_lo = fee_hi = fee
        branch = "flat" if flat <= cap else "cap"
        if CAP_RATE * n * (m - q / 2) < flat:  # the mark's own rounding can reach the fee
            tol += CAP_RATE * n * q / 2
    lo = gross - fee_hi - tol
    hi = gross - fee_lo + tol
    net = gross - fee
    out.update(gross=gross, fee=fee, net=net, branch=branch)
    if lo > 0:
        out.update(lo=lo, hi=hi, deliver="must")
    elif hi < 0:
        out.update(lo=ZERO, hi=ZERO, deliver="never")
    else:
        out.update(lo=ZERO, hi=max(hi, ZERO), deliver="either")
    rel = diff / S
    if out["deliver"] != "must" or net < 3 * max(fee, q):
        out["money"] = "thin"
    elif rel > 1:
        out["money"] = "itm-over-one-coin"
    elif rel > Fraction(5, 100):
        out["money"] = "deep-itm"
    else:
        out["money"] = "itm"
    return out


def _same(a, b):
    return a["cash"] == b["cash"] and a["pos"] == b["pos"]


def _fmt(st):
    return {"cash": str(st["cash"]), "pos": {k: str(v) for k, v in st["pos"].items()}}


def expiry_class(expiry, ts, first_ts, interval_hours):
    """relation of the expiry to the bar that settled it."""
    if expiry == ts:
        return "at-expiry-bar"
    if expiry < first_ts:
        return "expired-before-first-bar"
    if not on_hour(expiry):
        return "between-hours"
    gap = (ts - expiry).total_seconds() / 3600
    if gap < interval_hours:
        return "hour-between-bars"
    return "late(position-younger-than-expiry-or-gap)"


def check_run(log):
    """log = {token, interval_hours, instruments: {name: {kind, strike, expiry}}, initial: state, bars: [...],
    final_actions: [...]}.  bar = {ts, has_book, frame, B0, S1, S2, E, ops: [...], actions: [...],
    quotes: {name: (underlying, mark) | None}}.  state = {cash: Fraction, pos: {name: Fraction}}.
    Returns (violations, events, stats): violations = dicts(operation, clause, site, detail, data)."""
    V = []
    events = []
    stats = {"ev": 0, "closed_trade_attempts": 0, "open_trades_accepted": 0, "bars": 0, "settle_bars": 0,
             "gap_bars_with_expired": 0, "kept_unexpired_checks": 0, "closed_bars_with_expired_position": 0}
    token = log["token"]
    ins = log["instruments"]
    ih = log.get("interval_hours", 1)

    def viol(op, clause, site, detail, data=None):
        V.append({"operation": op, "clause": clause, "site": site, "detail": detail, "data": data})

    prev_end = log["initial"]
    first_ts = log["bars"][0]["ts"] if log["bars"] else None
    n_exp_events = 0
    n_del_records_expected_min = 0
    n_del_records_expected_max = 0
    for bar in log["bars"]:
        ts = bar["ts"]
        stats["bars"] += 1
        hour = on_hour(ts)
        trade_open = hour and bar["has_book"]
        where = "off-hour" if not hour else ("hour-without-book" if not bar["has_book"] else "open")
        # 1. nothing moves between two bars
        stats["ev"] += 1
        if not _same(prev_end, bar["B0"]):
            viol("bar-change", "state-changed-between-bars", where,
                 f"{ts}: state at the start of the bar differs from the end of the previous bar",
                 {"before": _fmt(prev_end), "after": _fmt(bar["B0"])})
        # 2. operation attempts
        for op in bar["ops"]:
            if op["op"] not in ("buy", "sell"):
                continue
            if not trade_open:
                stats["ev"] += 1
                stats["closed_trade_attempts"] += 1
                if op["ok"]:
                    viol(op["op"], "trade-accepted-on-closed-bar", where,
                         f"{ts}: {op['op']} {op['name']} x{op['amount']} accepted in {op['phase']} although the market is closed")
                elif not _same(op["before"], op["after"]):
                    viol(op["op"], "closed-bar-trade-changed-state", where,
                         f"{ts}: rejected {op['op']} {op['name']} x{op['amount']} in {op['phase']} changed cash/positions",
                         {"before": _fmt(op["before"]), "after": _fmt(op["after"])})
            elif op["ok"]:
                stats["open_trades_accepted"] += 1
        for a in bar["actions"]:
            if a["type"] in ("buy", "sell") and not trade_open:
                stats["ev"] += 1
                viol(a["type"], "trade-recorded-on-closed-bar", where, f"{ts}: {a['type']} record for {a['name']} on a closed bar")
        # 3. the update step
        s1, s2 = bar["S1"], bar["S2"]
        bar_events = []
        for name, amt in s1["pos"].items():
            info = ins[name]
            expired = info["expiry"] <= ts
            removed = name not in s2["pos"]
            stats["ev"] += 1
            if removed:
                if not expired:
                    viol("update", "removed-before-expiry", where,
                         f"{ts}: {name} x{amt} (expiry {info['expiry']}) disappeared in update()")
                elif not hour:
                    viol("update", "settled-on-closed-bar", where,
                         f"{ts}: {name} x{amt} (expiry {info['expiry']}) settled on a bar that is not on the hour grid")
                else:
                    bar_events.append((name, amt, info))
            else:
                if s2["pos"][name] != amt:
                    viol("update", "position-changed-in-update", where,
                         f"{ts}: {name} amount {amt} -> {s2['pos'][name]} in update()")
                if expired and trade_open:
                    viol("update", "alive-after-expiry-bar", expiry_class(info["expiry"], ts, first_ts, ih),
                         f"{ts}: {name} x{amt} expired {info['expiry']} but is still held after this open bar")
                elif expired and hour:
                    stats["gap_bars_with_expired"] += 1
                elif expired:
                    stats["closed_bars_with_expired_position"] += 1
                else:
                    stats["kept_unexpired_checks"] += 1
        for name in s2["pos"]:
            if name not in s1["pos"]:
                stats["ev"] += 1
                viol("update", "position-appeared-in-update", where, f"{ts}: {name} appeared in update()")
        # records of this bar
        exp_recs = [a for a in bar["actions"] if a["type"] == "expired"]
        del_recs = [a for a in bar["actions"] if a["type"] == "deliver"]
        settled_names = {e[0] for e in bar_events}
        for a in exp_recs + del_recs:
            if a["name"] not in settled_names:
                stats["ev"] += 1
                viol("update", "record-without-settlement", a["type"],
                     f"{ts}: {a['type']} record for {a['name']} but no position of it was removed in this bar")
        lo_sum = hi_sum = ZERO
        if bar_events:
            stats["settle_bars"] += 1
        for name, amt, info in bar_events:
            n_exp_events += 1
            quote = bar["quotes"].get(name)
            if quote is None:
                S, mark, src = bar["frame"], None, "price-frame"
            else:
                S, mark, src = quote[0], quote[1], "book"
            band = payoff_band(token, info["kind"], amt, info["strike"], S, mark)
            lo_sum += band["lo"]
            hi_sum += band["hi"]
            ecls = expiry_class(info["expiry"], ts, first_ts, ih)
            site = f"{info['kind']}/{band['money']}/{band['branch']}/{src}"
            # exactly one Expired record, carrying the position's amount
            mine = [a for a in exp_recs if a["name"] == name]
            stats["ev"] += 1
            if len(mine) != 1:
                viol("update", "expired-record-count", "none" if not mine else "several",
                     f"{ts}: {len(mine)} Expired records for {name} (position x{amt} removed)")
            elif mine[0]["amount"] != amt:
                viol("update", "expired-record-amount", site, f"{ts}: Expired record amount {mine[0]['amount']} != position {amt}")
            # 0/1 Deliver record with the payoff
            dl = [a for a in del_recs if a["name"] == name]
            stats["ev"] += 1
            if band["deliver"] == "must":
                n_del_records_expected_min += 1
                n_del_records_expected_max += 1
            elif band["deliver"] == "either":
                n_del_records_expected_max += 1
            if len(dl) > 1:
                viol("update", "deliver-record-count", "several", f"{ts}: {len(dl)} Deliver records for {name}")
            elif band["deliver"] == "must" and not dl:
                viol("update", "deliver-record-count", f"missing/{site}",
                     f"{ts}: {name} x{amt} in the money (S={float(S)}, K={info['strike']}, net {float(band['net']):.9f}) "
                     f"but no Deliver record")
            elif band["deliver"] == "never" and dl:
                viol("update", "deliver-record-count", f"unexpected/{site}",
                     f"{ts}: {name} x{amt} must pay nothing (S={float(S)}, K={info['strike']}, net {float(band['net']):.9f}) "
                     f"but a Deliver record with income {dl[0]['income']} exists")
            if len(dl) == 1:
                stats["ev"] += 1
                inc = dl[0]["income"]
                if not (band["lo"] <= inc <= band["hi"]) or inc < 0:  # a record of exactly 0 (payoff == fee) pays nothing
                    viol("update", "deliver-record-income", site,
                         f"{ts}: {name} x{amt} S={float(S)} K={info['strike']} mark={None if mark is None else float(mark)}: "
                         f"record income {float(inc):.10f}, rule gives {float(band['net']):.10f} "
                         f"(gross {float(band['gross']):.10f} fee {float(band['fee']):.10f}), allowed [{float(band['lo']):.10f}, {float(band['hi']):.10f}]",
                         {"income": str(inc), "lo": str(band["lo"]), "hi": str(band["hi"])})
                if dl[0]["amount"] != amt:
                    viol("update", "deliver-record-amount", site, f"{ts}: Deliver record amount {dl[0]['amount']} != position {amt}")
            events.append({"ts": ts, "name": name, "kind": info["kind"], "amount": amt, "strike": info["strike"],
                           "expiry": info["expiry"], "underlying": S, "mark": mark, "source": src, "band": band,
                           "expiry_class": ecls, "where": where, "n_in_bar": len(bar_events),
                           "income": dl[0]["income"] if len(dl) == 1 else ZERO, "delivered": len(dl)})
        # cash moved by exactly the payoffs
        stats["ev"] += 1
        d_cash = s2["cash"] - s1["cash"]
        if not bar_events:
            if d_cash != 0:
                viol("update", "cash-changed-without-settlement", where, f"{ts}: cash moved by {d_cash} in update() with nothing to settle")
        elif not (lo_sum <= d_cash <= hi_sum):
            if len(bar_events) == 1:
                e = events[-1]
                site = f"{e['kind']}/{e['band']['money']}/{e['band']['branch']}/{e['source']}"
            else:
                site = "several-positions"
            viol("update", "cash-vs-payoff", site,
                 f"{ts}: cash moved by {float(d_cash):.10f} in update(), the rule allows [{float(lo_sum):.10f}, {float(hi_sum):.10f}] "
                 f"for {[(e[0], str(e[1])) for e in bar_events]}",
                 {"d_cash": str(d_cash), "lo": str(lo_sum), "hi": str(hi_sum)})
        prev_end = bar["E"]
    # 4. whole-run record counts (exactly once)
    fa = log.get("final_actions")
    if fa is not None:
        stats["ev"] += 2
        n_exp = sum(1 for a in fa if a["type"] == "expired")
        n_del = sum(1 for a in fa if a["type"] == "deliver")
        if n_exp != n_exp_events:
            viol("run", "expired-record-count-total", "more" if n_exp > n_exp_events else "fewer",
                 f"{n_exp} Expired records in the action log, {n_exp_events} positions were removed by settlement")
        if not (n_del_records_expected_min <= n_del <= n_del_records_expected_max):
            viol("run", "deliver-record-count-total", "more" if n_del > n_del_records_expected_max else "fewer",
                 f"{n_del} Deliver records in the action log, rule expects {n_del_records_expected_min}..{n_del_records_expected_max}")
        bar_ts = {b["ts"] for b in log["bars"]}
        for a in fa:
            if a["ts"] not in bar_ts:
                stats["ev"] += 1
                viol("run", "record-timestamp-not-a-bar", a["type"], f"{a['type']} record stamped {a['ts']}, which is no bar")
    # 5. positions alive at the end must not be overdue at an open bar (already covered per bar); report leftovers
    stats["alive_at_end"] = len(prev_end["pos"])
    return V, events, stats
