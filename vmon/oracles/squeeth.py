"""Reference model of the Squeeth controller rules named by property C14.

Pure functions over exact numbers (fractions.Fraction; logarithms/exponentials in a *local* 60-digit Decimal
context).  Nothing is imported from demeter.  Every decision that depends on a float-derived TWAP is
three-valued: YES / NO / EITHER (inside the relative band the property leaves rounding unspecified).

Rules (from the property statement):
  twap(t)        = geometric mean of the price rows whose timestamp lies in (t - 7 min, t]
  debt value     = short * norm_factor * twap_eth / 10^4                                  [ETH]
  collateral     = vault ETH + LP ETH + LP oSQTH * norm_factor * twap_eth / 10^4          [ETH]
  safe           = no debt  or  collateral * 2 >= debt value * 3
  dust           = debt and collateral < 0.5
  bar end        : unsafe vault -> (1) LP redeemed: ETH joins the collateral, oSQTH burns debt (excess to the
                   wallet), bounty 2 % of the redeemed value; if safe now, stop (bounty stays paid);
                   (2) bounty returned, burn = short/2, pay = burn * twap_osqth * 1.1; if collateral - pay < 0.5
                   burn = short (pay recomputed); if pay > collateral: pay = collateral, burn = short.
"""
import decimal
from datetime import timedelta
from decimal import Decimal
from fractions import Fraction

CTX = decimal.Context(prec=60)
TWAP_MINUTES = 7
CR_NUM, CR_DEN = 3, 2
MIN_COLLATERAL = Fraction(1, 2)
INDEX_SCALE = 10**4
REDUCE_BOUNTY = Fraction(2, 100)
LIQ_FACTOR = Fraction(11, 10)
BAND = Fraction(1, 10**9)  # relative band around every frontier that involves a float TWAP
EXACT = Fraction(1, 10**30)  # relative slack for values computed in Decimal(prec 35) only

YES, NO, EITHER = "yes", "no", "band"


def F(x):
    """Exact conversion (Decimal / int / str / Fraction; floats and numpy scalars through repr/str)."""
    if isinstance(x, Fraction):
        return x
    if isinstance(x, (int, Decimal)):
        return Fraction(x)
    if isinstance(x, float):
        return Fraction(repr(x))
    return Fraction(str(x))


def ln(x: Fraction) -> Decimal:
    return CTX.ln(CTX.divide(Decimal(x.numerator), Decimal(x.denominator)))


def geo_mean_from_logs(logs) -> Fraction:
    s = Decimal(0)
    for v in logs:
        s = CTX.add(s, v)
    return Fraction(CTX.exp(CTX.divide(s, Decimal(len(logs)))))


class TwapTable:
    """rows: list of (timestamp, price) in time order — the price rows the market is given."""

    def __init__(self, rows):
        self.ts = [r[0] for r in rows]
        self.logs = [ln(F(r[1])) for r in rows]
        self.cache = {}

    def window(self, t):
        lo = t - timedelta(minutes=TWAP_MINUTES)
        return [i for i, x in enumerate(self.ts) if lo < x <= t]

    def twap(self, t) -> Fraction:
        if t not in self.cache:
            idx = self.window(t)
            self.cache[t] = (geo_mean_from_logs([self.logs[i] for i in idx]), len(idx))
        return self.cache[t][0]

    def rows_in_window(self, t) -> int:
        self.twap(t)
        return self.cache[t][1]


def debt_value(short: Fraction, nf: Fraction, twap_eth: Fraction) -> Fraction:
    return short * nf * twap_eth / INDEX_SCALE


def lp_value(lp_eth: Fraction, lp_osqth: Fraction, nf: Fraction, twap_eth: Fraction) -> Fraction:
    return lp_eth + lp_osqth * nf * twap_eth / INDEX_SCALE


def ge(a: Fraction, b: Fraction, band=BAND) -> str:
    """three-valued a >= b; band = 0 gives the exact comparison"""
    scale = max(abs(a), abs(b))
    if band == 0:
        return YES if a >= b else NO
    if a - b > band * scale:
        return YES
    if b - a > band * scale:
        return NO
    return EITHER


def both(*vals) -> str:
    """three-valued AND"""
    if any(v == NO for v in vals):
        return NO
    if all(v == YES for v in vals):
        return YES
    return EITHER


def agree(a: str, b: str) -> str:
    """combine the verdicts of two admissible readings: decided only when both agree"""
    return a if a == b else EITHER


def is_safe(coll: Fraction, debt: Fraction) -> str:
    """collateral * 2 >= debt value * 3 (a vault without debt is safe)"""
    if debt == 0:
        return YES
    return ge(coll * CR_DEN, debt * CR_NUM)


def not_dust(coll: Fraction, debt: Fraction, band=BAND) -> str:
    if debt == 0:
        return YES
    return ge(coll, MIN_COLLATERAL, band)


# ------------------------------------------------------------------ bar-end liquidation
def reduce_debt(coll: Fraction, short: Fraction, lp_eth: Fraction, lp_osqth: Fraction, osqth_value_per_unit: Fraction):
    """stage 1: returns (collateral after bounty, short after, burn, excess, bounty)"""
    burn = min(lp_osqth, short)
    excess = lp_osqth - burn
    bounty = (lp_eth + lp_osqth * osqth_value_per_unit) * REDUCE_BOUNTY
    return coll + lp_eth - bounty, short - burn, burn, excess, bounty


def liquidation_candidates(coll: Fraction, short: Fraction, twap_osqth: Fraction):
    """stage 2 on a vault without LP: list of admissible (kind, burn, pay); more than one only on a near-tie."""
    out = []
    half = short / 2
    pay_half = half * twap_osqth * LIQ_FACTOR
    pay_full = short * twap_osqth * LIQ_FACTOR
    d = coll - pay_half - MIN_COLLATERAL
    s = BAND * max(coll, pay_half, 1)
    left_ok = YES if d > s else (NO if d < -s else EITHER)
    if left_ok in (YES, EITHER):
        out.append(("half", half, pay_half))
    if left_ok in (NO, EITHER):
        capped = ge(pay_full, coll)  # pay_full > coll (a tie may go either way)
        if capped in (YES, EITHER):
            out.append(("full-capped", short, coll))
        if capped in (NO, EITHER):
            out.append(("full-dust", short, pay_full))
    return out


def close(a: Fraction, b: Fraction, rel: Fraction, abs_tol=Fraction(1, 10**27)) -> bool:
    return abs(a - b) <= rel * max(abs(a), abs(b)) + abs_tol
