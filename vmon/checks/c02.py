"""C02 — no look-ahead (bars 0..k depend only on data of bars 0..k); supplied frames stay intact; re-running the same
inputs with a fresh account reproduces the result.

Differential monitor over the real Actuator.  One case = one generated raw history H (raw columns of every market
of a market mix + price series), pushed through demeter's own preparation code (add_statistic_column,
get_price_from_data, set_token_data, set_price, the resampling path of Actuator.switch_interval) and driven by a
data-dependent scripted strategy: every decision of the strategy is drawn from a PRNG seeded with what the hooks were
handed (snapshot digest, wallet) and sized by balances / get_max_* / TWAP helpers, so that anything that leaks from a
later bar changes what the strategy does.  Then
  * H is run twice on the *same* frame objects with fresh Actuator/markets: everything must be identical;
  * deep digests (index, columns, dtypes, every cell with its Python type, nested ask/bid lists) of every supplied
    frame are taken before the frames are handed to demeter and after the run: they must not change;
  * for several cuts k: H' = H[rows <= k] + an independently regenerated future (same length, shorter, longer, or no
    future at all) is built from raw columns, prepared and run again: account rows, recorded actions and the snapshot
    digests taken *inside* before_bar/on_bar/after_bar must be identical for every bar whose raw rows are all <= k."""
import copy
import dataclasses
import hashlib
import random
import math
import traceback
from datetime import datetime, timedelta
from decimal import Decimal
from enum import Enum

import pandas as pd

from .. import drive as Dr
from .. import opsgen as G
from .. import worlds as W

ID = "C02"
META = {
    "level": "exploration",
    "rule": "a case = one market mix (uniswap float/int64 ticks, aave, uniswap+aave, squeeth with its pool and a live TWAP, "
    "hourly deribit books next to a minutely uniswap pool in both attach orders, deribit alone, GMX v1, GMX v2) x bar "
    "interval (1min/5min/15min/1h through Actuator.switch_interval) x data-dependent script (decisions seeded by the "
    "snapshot digest + wallet, sized by balances, get_max_* and TWAP helpers). Evaluations = exact comparisons: per compared "
    "bar 3 snapshot digests + 1 account row (prefix pairs and run-twice), 1 action-log comparison per pair, 1 deep digest "
    "comparison per supplied frame per run. Non-trivial = a (history, cut k) pair whose futures differ in the raw columns "
    "and where >=1 position was open at bar k; distinct by (mix, interval, cut class, future class, script class, kinds "
    "of holdings at k). Run-twice / frame-digest cases count as non-trivial when the run accepted >=1 operation.",
    "assumptions": [
        "a bar of an N-minute backtest 'owns' the raw rows in [bar time, bar time + N): bars are compared only when every raw row "
        "they own is in the shared prefix (a 5-minute bar legitimately shows the close of its last minute)",
        "'supplied frames' = the objects handed to Market.data / set_token_data / Actuator.set_price (after the caller's own "
        "add_statistic_column, which is documented to add columns in place); the Actuator's own token price frame and every "
        "market's data object as they are when run() is entered are digested as well",
        "'fresh account' = new Actuator, broker and Market objects around the same frame objects",
        "identity is exact: same Python types and reprs (Decimal digits, float bits), same order of actions",
        "snapshots are digested inside the hook, restricted to the markets of the running broker (Snapshot.market_status is a "
        "class-level MarketDict shared by every Snapshot of the process; stale entries of other runs are not read)",
        "operation outcomes (accepted / rejection site / returned value) seen by the strategy are logged for diagnosis only; "
        "the statement demands account rows, actions and snapshots",
        "deribit histories stay inside one calendar day and do not touch 00:00 (deribit get_price_from_data pads to the end "
        "of the day of the last book hour); the first book hour lists every instrument (the derived price frame starts there)",
        "a pair reports only its earliest difference (bar order, then before_bar/on_bar/after_bar snapshot, account row, and "
        "the action log last): the script reacts to what it sees, so later differences are consequences",
        "bars that exist in H only because later rows exist (5/15-minute bars between the hourly books of a deribit-only run "
        "when H' ends at the cut) are not compared; spliced histories whose pool has no more minutes than the book has hours "
        "are skipped (Actuator.get_test_range would take the hourly book as the bar grid)",
        "pandas >= 3 copy-on-write is the platform: a dropped .copy() of a row / cross-section cannot write through to the "
        "supplied frame and is therefore not observable; nested ask/bid lists are shared through .copy() and are digested",
    ],
}
NSHARDS = 16
T0 = W.T0
MIN1 = timedelta(minutes=1)
IV_MIN = {"1min": 1, "5min": 5, "15min": 15, "1h": 60}
PHASES3 = ("before_bar", "on_bar", "after_bar")

# (mix, interval) grid; every shard walks it with its own offset so that all cells are hit in every run
MIXES = ("uni", "uni-int", "aave", "uni+aave", "squeeth", "deribit+uni", "uni+deribit", "deribit", "gmx", "gmx2")
COMBOS = [(m, iv) for iv in ("1min", "5min", "15min", "1h") for m in MIXES]
MTYPE = {"uni": "uniswap", "squ": "uniswap", "aave": "aave", "squeeth": "squeeth", "deribit": "deribit", "gmx": "gmx", "gmx2": "gmx2"}


def plan(tier, seed):
    n = 36 if tier == "quick" else 260
    return [{"shard": i, "cases": n} for i in range(NSHARDS)]


# ------------------------------------------------------------------------------------------------ canonical forms
def sha(s):
    return hashlib.sha1(s.encode("utf-8", "replace")).hexdigest()[:16]


def canon(x):
    """type-exact, address-free text of a value (nested lists, dataclasses, pandas objects included)"""
    if x is None:
        return "None"
    t = type(x)
    if t is bool or t is int or t is str:
        return f"{t.__name__}:{x!r}"
    if t is float:
        return "float:" + repr(x)
    if isinstance(x, Decimal):
        u = getattr(x, "_unit", None)
        return f"{t.__name__}:{Decimal.__str__(x)}" + (f"<{u}>" if u is not None else "")
    if isinstance(x, (pd.Timestamp, datetime)):
        return f"{t.__name__}:{x.isoformat()}"
    if isinstance(x, (timedelta, pd.Timedelta)):
        return f"{t.__name__}:{x}"
    if isinstance(x, Enum):
        return f"{t.__name__}.{x.name}"
    if isinstance(x, tuple) and hasattr(x, "_fields"):
        return t.__name__ + "(" + ",".join(f"{k}={canon(v)}" for k, v in zip(x._fields, x)) + ")"
    if isinstance(x, (list, tuple)):
        return t.__name__ + "[" + ",".join(canon(v) for v in x) + "]"
    if isinstance(x, (set, frozenset)):
        return t.__name__ + "{" + ",".join(sorted(canon(v) for v in x)) + "}"
    if isinstance(x, dict):
        return t.__name__ + "{" + ",".join(f"{canon(k)}:{canon(v)}" for k, v in x.items()) + "}"
    if isinstance(x, pd.Series):
        return f"Series<{x.dtype}>[{canon(x.name)}](" + ",".join(f"{canon(k)}={canon(v)}" for k, v in zip(x.index.tolist(), x.tolist())) + ")"
    if isinstance(x, pd.DataFrame):
        return "DataFrame{" + ",".join(f"{k}:{v}" for k, v in frame_digest(x).items()) + "}"
    mod = t.__module__ or ""
    if mod.startswith("numpy"):
        if hasattr(x, "item") and getattr(x, "ndim", 1) == 0:
            return f"{t.__name__}:{x.item()!r}"
        return f"{t.__name__}[" + ",".join(canon(v) for v in x.tolist()) + "]"
    if dataclasses.is_dataclass(x) or hasattr(x, "__dict__"):
        return t.__name__ + "{" + ",".join(f"{k}={canon(v)}" for k, v in vars(x).items()) + "}"
    return f"{t.__name__}:{x!r}"


def frame_digest(df):
    """deep digest of a frame, one entry per column so that a change can be named"""
    d = {
        "__index__": sha(canon(df.index.tolist()) + str(df.index.dtype) + canon(list(df.index.names))),
        "__columns__": sha(canon(df.columns.tolist())),
        "__dtypes__": sha(",".join(str(t) for t in df.dtypes.tolist())),
        "__shape__": f"{df.shape[0]}x{df.shape[1]}",
    }
    cols = df.columns.tolist()
    if len(cols):
        rows = df.to_numpy(dtype=object).tolist()
        for i, c in enumerate(cols):
            d[f"col:{c}"] = sha("|".join(canon(r[i]) for r in rows))
    return d


def first_diff(a, b):
    """first key (in a's order, then b's extra keys) at which two flat dicts differ"""
    for k, v in a.items():
        if k not in b:
            return k, v, "<absent>"
        if b[k] != v:
            return k, v, b[k]
    for k, v in b.items():
        if k not in a:
            return k, "<absent>", v
    return None


def snap_flat(snap, minfos):
    """flat {field: canonical text} of what a hook was handed, taken at the time of the call"""
    d = {"timestamp": canon(snap.timestamp), "row_id": canon(snap.row_id), "prices.__name__": canon(snap.prices.name),
         "prices.__dtype__": str(snap.prices.dtype)}
    for k, v in zip(snap.prices.index.tolist(), snap.prices.tolist()):
        d[f"prices.{k}"] = canon(v)
    d["default"] = canon(snap.market_status.get_default_key())
    for mi in minfos:
        data = snap.market_status[mi]
        nm = mi.name
        if isinstance(data, pd.Series):
            d[f"{nm}.__series__"] = f"{data.dtype}/{canon(data.name)}/{len(data)}"
            for k, v in zip(data.index.tolist(), data.tolist()):
                d[f"{nm}.{k}"] = canon(v)
        elif isinstance(data, pd.DataFrame):
            d[f"{nm}.__frame__"] = canon(data.index.tolist()) + "/" + ",".join(str(t) for t in data.dtypes.tolist())
            cols = data.columns.tolist()
            for r, vals in zip(data.index.tolist(), data.to_numpy(dtype=object).tolist()):
                for c, v in zip(cols, vals):
                    d[f"{nm}.{c}@{r}"] = canon(v)
        else:
            d[f"{nm}.__other__"] = canon(data)
    return d


# ------------------------------------------------------------------------------------------------ raw histories
def iv_delta(interval):
    return timedelta(minutes=IV_MIN[interval])


class Spec:
    """structural part of a case (never regenerated): mix, interval, tokens, pool, instruments, start, wallet"""

    def __init__(self, rng, mix, interval):
        self.mix, self.interval = mix, interval
        m = IV_MIN[interval]
        nb = {1: rng.randint(22, 44), 5: rng.randint(7, 13), 15: rng.randint(5, 8), 60: rng.randint(3, 5)}[m]
        self.n = nb * m + (rng.randrange(m) if m > 1 and rng.random() < 0.5 else 0)
        h0 = rng.randint(1, 5)
        off = 0
        if mix in ("uni", "uni-int", "aave", "gmx") and rng.random() < 0.3:
            off = rng.randrange(1, 60)  # first resampled bin is partial
        self.start = T0 + timedelta(hours=h0, minutes=off)
        self.script = rng.choice(("kits", "rules"))
        self.script_seed = rng.getrandbits(48)
        self.density = rng.choice((0.6, 1.0, 1.0))
        if mix in ("uni", "uni-int"):
            d0, d1 = rng.choice([6, 8, 18]), rng.choice([6, 8, 18])
            self.uni = dict(d0=d0, d1=d1, token0_is_quote=rng.random() < 0.5, fee=rng.choice([0.01, 0.05, 0.3, 1]),
                            names=("TKA", "TKB"), tick_dtype="int" if mix == "uni-int" else "float")
            self._uni_place(rng, None)
        elif mix == "uni+aave":
            self.uni = dict(d0=6, d1=18, token0_is_quote=True, fee=rng.choice([0.05, 0.3]), names=("USDC", "WETH"), tick_dtype="float")
            self._uni_place(rng, 2000.0)
            self.aave_tokens = (("WETH", 18), ("USDC", 6), ("WBTC", 8), ("DAI", 18))
        elif mix == "aave":
            self.aave_tokens = tuple(rng.sample([("WETH", 18), ("USDC", 6), ("WBTC", 8), ("DAI", 18), ("LINK", 18)], rng.randint(2, 4)))
            if rng.random() < 0.35:
                # a reserve that is listed later than the others: its file starts some minutes into the history (the joined
                # frame has no record of it before; the strategy leaves it alone until it appears)
                self.aave_late = (rng.choice(self.aave_tokens[1:])[0], rng.choice([2, 5, 9, 17, 33]))
            if rng.random() < 0.35:
                # the price feed also quotes a token nobody holds or trades, and only from some minute on (no quote = NaN):
                # what the strategy is shown for it before that minute must not depend on its later quotes
                self.price_late = ("LATEQ", rng.choice([3, 8, 15, 29]))
        elif mix == "squeeth":
            self.sq = dict(eth0=rng.uniform(900, 3500), nf0=rng.uniform(0.25, 0.85), premium=rng.uniform(0.97, 1.2), liq_exp=rng.uniform(19, 23))
        elif mix in ("deribit+uni", "uni+deribit", "deribit"):
            self.under0 = rng.uniform(1600, 3800)
            if mix == "deribit":
                nh = {1: rng.randint(5, 9), 5: rng.randint(3, 4), 15: rng.randint(4, 6), 60: rng.randint(5, 9)}[m]
                self.start = T0 + timedelta(hours=h0)
                self.n = nh  # raw rows are hours
                self.hour0 = self.start
            else:
                # the pool starts late in an hour so that short runs still cross book hours
                mo = {1: rng.choice([25, 35, 45, 50]), 5: rng.choice([20, 35, 45]), 15: rng.choice([0, 15, 30]), 60: 0}[m]
                self.start = T0 + timedelta(hours=h0, minutes=mo)
                self.hour0 = T0 + timedelta(hours=h0)
                self.uni = dict(d0=6, d1=18, token0_is_quote=rng.random() < 0.5, fee=0.05, names=("USDC", "WETH"), tick_dtype="float")
                self._uni_place(rng, self.under0)
            hours_max = 16
            dw = W.DeribitWorld(random.Random(rng.getrandbits(32)), hours=1, start=self.hour0, n_instr=rng.randint(2, 5), token="ETH",
                                under0=self.under0,
                                expiries=[self.hour0 + timedelta(hours=rng.randint(1, 7), minutes=rng.choice([0, 0, 30])) for _ in range(3)]
                                + [self.hour0 + timedelta(hours=hours_max + 20)])
            self.instruments = dw.instruments
            self.size_kind = rng.choice(("int", "float", "mixed"))
        elif mix == "gmx":
            self.gmx_tokens = W.GMX_TOKENS
        elif mix == "gmx2":
            pass
        else:
            raise ValueError(mix)

    def _uni_place(self, rng, price):
        u = self.uni
        if price is None:
            price = 10 ** rng.uniform(-3, 5)
        from demeter.uniswap import UniV3Pool  # noqa  (spacing table)
        from demeter import TokenInfo

        pool = UniV3Pool(TokenInfo(u["names"][0], u["d0"]), TokenInfo(u["names"][1], u["d1"]), u["fee"],
                         TokenInfo(u["names"][0], u["d0"]) if u["token0_is_quote"] else TokenInfo(u["names"][1], u["d1"]))
        u["center"] = W.tick_for_price(price, u["d0"], u["d1"], u["token0_is_quote"])
        u["step"] = max(3, pool.tick_spacing * rng.choice([1, 2, 5]))
        u["liq_exp"] = rng.uniform(8, 28)
        u["vol_scale"] = 10 ** rng.uniform(-1, 5)

    # -------------------------------------------------------------------------- raw generation (may be repeated)
    def n_minutes(self, n):
        return n if self.mix != "deribit" else n * 60

    def gen_raw(self, rng, n):
        """raw frames of a history of n raw rows: {label: DataFrame}.  Everything random here is 'the data'."""
        mix = self.mix
        raw = {}
        if hasattr(self, "uni"):
            u = self.uni
            w = W.UniWorld(rng, n=n, d0=u["d0"], d1=u["d1"], token0_is_quote=u["token0_is_quote"], fee=u["fee"], start=self.start,
                           names=u["names"], path=rng.choice(["walk", "walk", "calm", "jump"]), liq_exp=u["liq_exp"],
                           vol_scale=u["vol_scale"], tick_dtype=u["tick_dtype"], step=u["step"], center=u["center"])
            raw["uni"] = w.raw
            self._uw = getattr(self, "_uw", w)
        if hasattr(self, "aave_tokens"):
            w = W.AaveWorld(rng, n=n, tokens=self.aave_tokens, start=self.start, index_kind=rng.choice(["slow", "slow", "jumpy"]),
                            all_flags=True, price_kind=rng.choice(["walk", "walk", "crash"]))
            for t in w.tokens:
                raw[f"aave:{t.name}"] = w.data[t.name]
            late = getattr(self, "aave_late", None)
            if late is not None:
                f = raw[f"aave:{late[0]}"]
                raw[f"aave:{late[0]}"] = f[f.index >= self.start + timedelta(minutes=late[1])]
            if mix == "aave":
                raw["prices"] = w.prices
            else:
                raw["prices"] = w.prices[["WBTC", "DAI"]]
            pl = getattr(self, "price_late", None)
            if pl is not None:
                px = rng.uniform(0.5, 50)
                col = []
                for i in range(len(raw["prices"].index)):
                    px *= math.exp(rng.gauss(0, 0.01))
                    col.append(float("nan") if i < pl[1] else W.D(f"{px:.8g}"))
                raw["prices"] = raw["prices"].assign(**{pl[0]: pd.Series(col, index=raw["prices"].index, dtype=object)})
            self._aw = getattr(self, "_aw", w)
        if mix == "squeeth":
            s = self.sq
            w = W.SqueethWorld(rng, n=n, start=self.start, kind=rng.choice(["calm", "calm", "crash", "spike", "wick"]), eth0=s["eth0"],
                               nf0=s["nf0"], premium=s["premium"], liq_exp=s["liq_exp"])
            raw["sq"] = w.data
            raw["squ"] = w.uni_raw
        if hasattr(self, "instruments"):
            if mix == "deribit":
                nh = n
            else:
                end = self.start + timedelta(minutes=n - 1)
                nh = int((end - self.hour0).total_seconds() // 3600) + 1 + rng.choice([0, 0, 1])
            raw["book"] = book_rows(rng, self, nh)
        if mix == "gmx":
            raw["gmx"] = W.GmxWorld(rng, n=n, start=self.start, tokens=self.gmx_tokens).data
        if mix == "gmx2":
            w = W.Gmx2World(rng, n=n, start=self.start)
            raw["gmx2"] = w.data
            self._g2 = getattr(self, "_g2", w)
        return raw


def book_rows(rng, spec, nh):
    """hourly order books for the spec's instruments (row loop of worlds.DeribitWorld with the structure held fixed)"""
    tick = Decimal("0.0001")
    under = spec.under0 * rng.uniform(0.97, 1.03)
    rows = []
    missing = set()
    if nh > 3 and rng.random() < 0.25:
        missing.add(rng.randrange(1, nh))
    for i in range(nh):
        h = spec.hour0 + timedelta(hours=i)
        under *= 2.718281828459045 ** rng.gauss(0, 0.012)
        if i in missing:
            continue
        for ins in spec.instruments:
            if rng.random() < 0.04 and i > 0:
                continue  # an instrument missing from one hour's book (the first hour is complete: the price frame starts there)
            K = ins["strike"]
            intrinsic = max(0.0, (under - K) / under) if ins["kind"] == "CALL" else max(0.0, (K - under) / under)
            mark = float(Decimal(str(intrinsic + rng.uniform(0.002, 0.06))).quantize(Decimal("0.000001")))
            asks, bids = [], []
            p = float(Decimal(str(mark)).quantize(tick, rounding="ROUND_CEILING"))
            for _ in range(rng.randint(0, 6)):
                p = round(p + 0.0001 * rng.randint(0 if not asks else 1, 6), 4)
                asks.append([p, W.DeribitWorld._size(rng, spec.size_kind)])
            p = float(Decimal(str(mark)).quantize(tick, rounding="ROUND_FLOOR"))
            for _ in range(rng.randint(0, 6)):
                p = round(p - 0.0001 * rng.randint(0 if not bids else 1, 6), 4)
                if p <= 0:
                    break
                bids.append([p, W.DeribitWorld._size(rng, spec.size_kind)])
            rows.append({
                "time": pd.Timestamp(h), "instrument_name": ins["name"], "state": "open" if rng.random() > 0.08 else "closed",
                "type": ins["kind"], "strike_price": K, "t": pd.Timedelta(ins["expiry"] - h), "expiry_time": pd.Timestamp(ins["expiry"]),
                "vega": 1.0, "theta": -1.0, "rho": 0.5, "gamma": round(rng.uniform(0.0001, 0.004), 5),
                "delta": round(rng.uniform(-1, 1), 5), "underlying_price": round(under, 2), "settlement_price": float("nan"),
                "mark_price": mark, "mark_iv": 50.0, "last_price": mark, "interest_rate": 0.0, "bid_iv": 45.0,
                "best_bid_price": bids[0][0] if bids else 0.0, "best_bid_amount": float(bids[0][1]) if bids else 0.0,
                "ask_iv": 55.0, "best_ask_price": asks[0][0] if asks else 0.0, "best_ask_amount": float(asks[0][1]) if asks else 0.0,
                "asks": asks, "bids": bids,
            })
    return pd.DataFrame(rows).set_index(["time", "instrument_name"]).sort_index()


def times_of(df):
    return df.index.get_level_values(0) if isinstance(df.index, pd.MultiIndex) else df.index


def raw_times(raw):
    s = set()
    for df in raw.values():
        s.update(times_of(df).unique().tolist())
    return sorted(s)


def splice(raw_a, raw_b, t_cut, t_end):
    """rows <= t_cut from a, rows in (t_cut, t_end] from b (raw level, before any preparation)"""
    out = {}
    for k, a in raw_a.items():
        b = raw_b[k]
        ta, tb = times_of(a), times_of(b)
        pa = a[ta <= t_cut]
        pb = b[(tb > t_cut) & (tb <= t_end)]
        out[k] = copy.deepcopy(pa) if len(pb) == 0 else copy.deepcopy(pd.concat([pa, pb]))
        if list(out[k].dtypes) != list(a.dtypes):
            raise RuntimeError(f"harness: dtypes changed by splicing {k}")
    return out


# ------------------------------------------------------------------------------------------------ inputs of a run
class Inputs:
    """prepared frames of one history: the objects that are handed to demeter (twice, for the run-twice monitor)"""

    def __init__(self, spec, raw):
        from demeter import MarketInfo, MarketTypeEnum, TokenInfo
        from demeter.uniswap import UniLpMarket, UniV3Pool

        self.spec = spec
        mix = spec.mix
        raw = {k: copy.deepcopy(v) for k, v in raw.items()}
        self.frames = {}  # label -> supplied frame object
        self.quote = None
        self.assets = {}
        self.pre_ops = []
        big = Decimal(10) ** 7
        if hasattr(spec, "uni"):
            u = spec.uni
            t0, t1 = TokenInfo(u["names"][0], u["d0"]), TokenInfo(u["names"][1], u["d1"])
            self.pool = UniV3Pool(t0, t1, u["fee"], t0 if u["token0_is_quote"] else t1)
            df = raw["uni"]
            tmp = UniLpMarket(MarketInfo("uni", MarketTypeEnum.uniswap_v3), self.pool)
            tmp.add_statistic_column(df)  # demeter's preparation of the raw frame (shift(1) lives here)
            tmp.data = df
            self.frames["uni.data"] = df
            self.uni_prices = tmp.get_price_from_data()  # (frame, quote token)
            self.assets[t0] = self.assets[t1] = big
        if hasattr(spec, "aave_tokens"):
            self.aave_tokens = [TokenInfo(nm, d) for nm, d in spec.aave_tokens]
            for t in self.aave_tokens:
                self.frames[f"aave.token:{t.name}"] = raw[f"aave:{t.name}"]
                self.assets[t] = big
        if mix in ("uni", "uni-int"):
            self.prices = self.uni_prices  # tuple: quote = the pool's quote token
            self.frames["prices"] = self.uni_prices[0]
        elif mix == "uni+aave":
            self.prices = pd.concat([self.uni_prices[0], raw["prices"]], axis=1)
            self.frames["prices"] = self.prices
        elif mix == "aave":
            self.prices = raw["prices"]
            self.frames["prices"] = self.prices
        elif mix == "squeeth":
            from demeter.squeeth import SqueethMarket

            self.weth, self.osqth = TokenInfo("weth", 18), TokenInfo("osqth", 18)
            self.pool = UniV3Pool(self.weth, self.osqth, 0.3, self.weth)
            df = raw["squ"]
            tmp = UniLpMarket(MarketInfo("squ", MarketTypeEnum.uniswap_v3), self.pool)
            tmp.add_statistic_column(df)
            self.frames["squ.data"] = df
            self.frames["sq.data"] = raw["sq"]
            sm = SqueethMarket(MarketInfo("squeeth", MarketTypeEnum.squeeth), tmp)
            sm.data = raw["sq"]
            self.prices = sm.get_price_from_data()
            self.frames["prices"] = self.prices
            self.assets[self.weth] = Decimal(5000)
            self.assets[self.osqth] = Decimal(300)
        elif mix in ("deribit", "deribit+uni", "uni+deribit"):
            from demeter.deribit import DeribitOptionMarket

            self.frames["book.data"] = raw["book"]
            tmp = DeribitOptionMarket(MarketInfo("deribit", MarketTypeEnum.deribit_option), DeribitOptionMarket.ETH)
            tmp.data = raw["book"]
            eth = tmp.get_price_from_data()  # minutely, padded to the end of the day
            self.eth_token = DeribitOptionMarket.ETH
            if mix == "deribit":
                self.prices = eth
            else:
                up = self.uni_prices[0]
                pr = up.reindex(eth.index)
                for c in up.columns:  # outside the pool's range: the pool's first value (never read by a bar)
                    pr[c] = pr[c].where(pr[c].notna(), up[c].iloc[0])
                pr["ETH"] = eth["ETH"]
                self.prices = pr
            self.frames["prices"] = self.prices
            self.assets[self.eth_token] = Decimal(100000)
        elif mix == "gmx":
            from demeter.gmx.helper import get_price_from_data as gmx_prices

            self.gmx_tokens = [TokenInfo(nm, d) for nm, d in spec.gmx_tokens]
            df = raw["gmx"]
            self.frames["gmx.data"] = df
            pr = gmx_prices(df)
            for t in self.gmx_tokens:
                if t.name not in pr.columns:
                    pr[t.name] = df[f"{t.name.lower()}_price"].apply(lambda r: r / Decimal(10 ** 30))
                self.assets[t] = Decimal(3000)
            self.prices = pr
            self.frames["prices"] = pr
        elif mix == "gmx2":
            self.frames["gmx2.data"] = raw["gmx2"]
            g2 = spec._g2
            self.g2_long, self.g2_short = g2.long, g2.short
            m2 = self._gmx2_market()
            self.prices = m2.get_price_from_data()
            self.frames["prices"] = self.prices
            self.assets[g2.long] = Decimal(3000)
            self.assets[g2.short] = Decimal(10) ** 7
        self.before = {k: frame_digest(v) for k, v in self.frames.items()}

    def _gmx2_market(self):
        from demeter import MarketInfo, MarketTypeEnum
        from demeter.gmx import GmxV2Market
        from demeter.gmx._typing2 import GmxV2Pool

        m = GmxV2Market(MarketInfo("gmx2", MarketTypeEnum.gmx_v2), GmxV2Pool(self.g2_long, self.g2_short, self.g2_long))
        m.data = self.frames["gmx2.data"]
        return m

    def make_markets(self):
        """new Market objects around the same supplied frame objects; returns [(kind, market, driver)] in attach order"""
        from demeter import MarketInfo, MarketTypeEnum

        spec, mix = self.spec, self.spec.mix
        out = []
        if mix in ("uni", "uni-int", "uni+aave", "deribit+uni", "uni+deribit"):
            from demeter.uniswap import UniLpMarket

            um = UniLpMarket(MarketInfo("uni", MarketTypeEnum.uniswap_v3), self.pool)
            um.data = self.frames["uni.data"]
            out.append(UniDriver("uni", um))
        if mix in ("aave", "uni+aave"):
            from demeter.aave import AaveV3Market

            am = AaveV3Market(MarketInfo("aave", MarketTypeEnum.aave_v3), spec._aw.risk_path, list(self.aave_tokens))
            for t in self.aave_tokens:
                am.set_token_data(t, self.frames[f"aave.token:{t.name}"])
            out.append(AaveDriver("aave", am, spec._aw, self.aave_tokens))
        if mix == "squeeth":
            from demeter.squeeth import SqueethMarket
            from demeter.uniswap import UniLpMarket

            um = UniLpMarket(MarketInfo("squ", MarketTypeEnum.uniswap_v3), self.pool)
            um.data = self.frames["squ.data"]
            sm = SqueethMarket(MarketInfo("squeeth", MarketTypeEnum.squeeth), um)
            sm.data = self.frames["sq.data"]
            out.append(UniDriver("squ", um, light=True))
            out.append(SqueethDriver("squeeth", sm, um))
        if mix in ("deribit", "deribit+uni", "uni+deribit"):
            from demeter.deribit import DeribitOptionMarket

            dm = DeribitOptionMarket(MarketInfo("deribit", MarketTypeEnum.deribit_option), DeribitOptionMarket.ETH)
            dm.data = self.frames["book.data"]
            d = DeribitDriver("deribit", dm)
            if mix == "deribit+uni":
                out.insert(0, d)
            else:
                out.append(d)
        if mix == "gmx":
            from demeter.gmx import GmxMarket

            gm = GmxMarket(MarketInfo("gmx", MarketTypeEnum.gmx_v1), tokens=list(self.gmx_tokens))
            gm.data = self.frames["gmx.data"]
            out.append(GmxDriver("gmx", gm, self.gmx_tokens))
        if mix == "gmx2":
            out.append(Gmx2Driver("gmx2", self._gmx2_market()))
        return out


# ------------------------------------------------------------------------------------------------ drivers
def fr(rng, lo=0.05, hi=0.6, dec=18):
    return Decimal(str(round(rng.uniform(lo, hi), 4)))


class Driver:
    kit = None

    def __init__(self, kind, m):
        self.kind, self.m, self.mi = kind, m, m.market_info
        self.mtype = MTYPE[kind]

    def held(self):
        return False

    def rule(self, rng, broker, snap):
        return None

    def queries(self, rng, broker, snap):
        """read-only helpers a strategy may consult in a hook: [(label, callable)].  Their results are folded into the
        seed of the decisions of that hook, so a helper that looks ahead shows up in actions / account rows, and one
        that writes into the supplied frames shows up in the frame digests."""
        return [("get_market_balance", self.m.get_market_balance)]

    def ops(self, rng, broker, snap, phase, script, density):
        """0..3 operations for this hook, all drawn from rng (which is seeded by what the hook was handed)"""
        n = {"before_bar": (0, 0, 1), "on_bar": (1, 1, 2), "after_bar": (0, 0, 1)}[phase][rng.randrange(3)]
        if density < 1 and rng.random() > density:
            n = max(0, n - 1)
        out = []
        if phase == "on_bar" and not self.held():
            n = max(n, 1)
        p_rule = 0.75 if script == "rules" else 0.25
        for _ in range(n):
            op = None
            try:
                if rng.random() < p_rule or not self.held():
                    op = self.rule(rng, broker, snap)
                if op is None and self.kit is not None:
                    op = self.kit.gen(rng, broker)
            except Exception as e:  # a generator looked at a state it cannot handle (e.g. empty book): no operation
                op = None
            if op is not None:
                out.append(op)
        return out


class UniDriver(Driver):
    def __init__(self, kind, m, light=False):
        super().__init__(kind, m)
        self.kit = G.UniKit(m)
        self.light = light

    def held(self):
        return any(p.liquidity > 0 for p in self.m.positions.values())

    def rule(self, rng, broker, snap):
        from demeter.uniswap.helper import base_unit_price_to_tick

        m = self.m
        row = snap.market_status[self.mi]
        sp = m.pool_info.tick_spacing
        cur = base_unit_price_to_tick(row["price"], m.token0.decimal, m.token1.decimal, m.pool_info.is_token0_quote)
        base = (cur // sp) * sp
        bb, bq = G.bal(broker, m.base_token), G.bal(broker, m.quote_token)
        positions = [k for k, p in m.positions.items() if p.liquidity > 0 and not p.transferred]
        c = rng.random()
        if not positions or c < 0.3:
            lo = max(base - sp * rng.randint(1, 30), -887272 + 2 * sp)
            hi = min(base + sp * rng.randint(1, 30), 887272 - 2 * sp)
            cap = Decimal("0.002") if self.light else Decimal("0.3")
            ab, aq = G.q(bb * fr(rng) * cap, m.base_token.decimal), G.q(bq * fr(rng) * cap, m.quote_token.decimal)
            return G.Op(self.mtype, "add_liquidity_by_tick", "rule", lambda: m.add_liquidity_by_tick(int(lo), int(hi), ab, aq))
        pos = rng.choice(positions)
        if c < 0.55:
            liq = int(m.positions[pos].liquidity * rng.uniform(0.1, 1.0))
            coll = rng.random() < 0.5
            return G.Op(self.mtype, "remove_liquidity", "rule", lambda: m.remove_liquidity(pos, liq, coll))
        if c < 0.7:
            return G.Op(self.mtype, "collect_fee", "rule", lambda: m.collect_fee(pos))
        if c < 0.85:
            a = G.q(bb * fr(rng, 0.001, 0.05), m.base_token.decimal)
            return G.Op(self.mtype, "sell", "rule", lambda: m.sell(a))
        price = row["price"]
        a = G.q(bq / price * fr(rng, 0.001, 0.05), m.base_token.decimal) if price else Decimal(0)
        return G.Op(self.mtype, "buy", "rule", lambda: m.buy(a))


    def queries(self, rng, broker, snap):
        from demeter.uniswap.helper import base_unit_price_to_tick

        m = self.m
        out = super().queries(rng, broker, snap)
        row = snap.market_status[self.mi]
        sp = m.pool_info.tick_spacing
        try:
            cur = base_unit_price_to_tick(row["price"], m.token0.decimal, m.token1.decimal, m.pool_info.is_token0_quote)
        except Exception:
            return out
        base = (cur // sp) * sp
        lo, hi = int(base - sp * rng.randint(0, 20)), int(base + sp * rng.randint(1, 20))
        val = Decimal(rng.choice([1, 100, 5000]))
        out.append(("estimate_amount", lambda: m.estimate_amount(val, lo, hi)))
        out.append(("tick_to_price", lambda: m.tick_to_price(lo)))
        out.append(("price_to_tick", lambda: m.price_to_tick(row["price"])))
        for k in list(m.positions.keys())[:2]:
            out.append(("get_position_status", lambda k=k: m.get_position_status(k)))
            out.append(("estimate_liquidity", lambda k=k: m.estimate_liquidity(val, k)))
            out.append(("get_position_amount", lambda k=k: m.get_position_amount(k)))
        return out


class AaveDriver(Driver):
    def __init__(self, kind, m, world, tokens):
        super().__init__(kind, m)
        stub = type("AaveStub", (), {})()
        stub.tokens, stub.risk = list(tokens), world.risk
        self.kit = G.AaveKit(m, stub)
        self.tokens = list(tokens)
        self.all_tokens = list(tokens)

    def held(self):
        return bool(self.m.supply_keys) or bool(self.m.borrow_keys)

    def _live(self, snap):
        """only reserves that have a record in the bar the hook was handed are touched"""
        if snap is None:
            return
        row = snap.market_status[self.mi]
        try:
            live = [t for t in self.all_tokens if not pd.isna(row[(t.name, "liquidity_index")])]
        except Exception:
            live = list(self.all_tokens)
        self.tokens = live or list(self.all_tokens)
        self.kit.w.tokens = list(self.tokens)

    def ops(self, rng, broker, snap, phase, script, density):
        self._live(snap)
        return super().ops(rng, broker, snap, phase, script, density)

    def rule(self, rng, broker, snap):
        m = self.m
        t = rng.choice(self.tokens)
        sk, bk = m.supply_keys, m.borrow_keys
        c = rng.random()
        if not sk or c < 0.3:
            a = G.q(G.bal(broker, t) * fr(rng, 0.01, 0.3), t.decimal)
            flag = m.get_supply(t).collateral if t in sk else True
            return G.Op("aave", "supply", "rule", lambda: m.supply(t, a, flag))
        if c < 0.6:
            f = fr(rng, 0.1, 0.98)
            return G.Op("aave", "borrow", "rule/max*f", lambda: m.borrow(t, m.get_max_borrow_amount(t) * f))
        if c < 0.75 and bk:
            t = rng.choice(bk)
            f = fr(rng, 0.1, 1.0)
            return G.Op("aave", "repay", "rule", lambda: m.repay(t, m.get_borrow(t).amount * f))
        t = rng.choice(sk)
        f = fr(rng, 0.1, 0.99)
        return G.Op("aave", "withdraw", "rule/max*f", lambda: m.withdraw(t, m.get_max_withdraw_amount(t) * f))


    def queries(self, rng, broker, snap):
        m = self.m
        self._live(snap)
        out = super().queries(rng, broker, snap)
        t = rng.choice(self.tokens)
        out += [("health_factor", lambda: m.health_factor), ("total_apy", lambda: m.total_apy), ("ltv", lambda: m.ltv),
                ("get_max_borrow_amount", lambda: m.get_max_borrow_amount(t)), ("supplies_value", lambda: dict(m.supplies_value))]
        for k in list(m.supply_keys)[:2]:
            out.append(("get_max_withdraw_amount", lambda k=k: m.get_max_withdraw_amount(k)))
        for k in list(m.borrow_keys)[:2]:
            out.append(("get_max_repay_amount", lambda k=k: m.get_max_repay_amount(k)))
        return out


class SqueethDriver(Driver):
    def __init__(self, kind, sm, um):
        super().__init__(kind, sm)
        self.um = um
        self.kit = G.SqueethKit(sm, um)
        from demeter import TokenInfo

        self.weth, self.osqth = TokenInfo("weth", 18), TokenInfo("osqth", 18)

    def held(self):
        return any(v.osqth_short_amount > 0 or v.collateral_amount > 0 for v in self.m.vault.values())

    def rule(self, rng, broker, snap):
        m = self.m
        vaults = list(m.vault.keys())
        c = rng.random()
        if not self.held() or c < 0.25:
            eth = G.q(G.bal(broker, self.weth) * fr(rng, 0.01, 0.1))
            rate = Decimal(rng.choice(["1.52", "1.6", "1.8", "2", "3"]))
            return G.Op("squeeth", "open_deposit_mint_by_collat_rate", f"rule/cr={rate}", lambda: m.open_deposit_mint_by_collat_rate(eth, rate))
        vk = rng.choice(vaults)
        v = m.vault[vk]
        if c < 0.5:
            # mint up to a collateral ratio that is decided by the TWAP the market reports now
            tgt = Decimal(rng.choice(["1.51", "1.55", "1.7", "2.2"]))
            want = m.collateral_amount_to_osqth(v.collateral_amount, tgt) - v.osqth_short_amount
            if want > 0:
                want = G.q(want * fr(rng, 0.5, 1.0))
                return G.Op("squeeth", "open_deposit_mint", f"rule/mint-to-cr={tgt}", lambda: m.open_deposit_mint(Decimal(0), want, vk))
        if c < 0.7:
            burn = G.q(min(v.osqth_short_amount, G.bal(broker, self.osqth)) * fr(rng, 0.05, 0.5))
            wd = G.q(v.collateral_amount * fr(rng, 0.0, 0.1))
            return G.Op("squeeth", "burn_and_withdraw", "rule", lambda: m.burn_and_withdraw(vk, burn, wd))
        if c < 0.8:
            eth = G.q(G.bal(broker, self.weth) * fr(rng, 0.001, 0.02))
            return G.Op("squeeth", "deposit", "rule", lambda: m.deposit(vk, eth))
        free = [k for k, p in self.um.positions.items() if not p.transferred and p.liquidity > 0]
        if free and v.uni_nft_id is None and c < 0.9:
            pos = rng.choice(free)
            return G.Op("squeeth", "deposit_uni_position", "rule", lambda: m.deposit_uni_position(vk, pos))
        if v.uni_nft_id is not None:
            pos = v.uni_nft_id
            return G.Op("squeeth", "withdraw_uni_position", "rule", lambda: m.withdraw_uni_position(vk, pos))
        return None


    def queries(self, rng, broker, snap):
        m = self.m
        out = super().queries(rng, broker, snap)
        out += [("get_twap_price/weth", lambda: m.get_twap_price(self.weth)), ("get_twap_price/osqth", lambda: m.get_twap_price(self.osqth)),
                ("get_index", m.get_index), ("get_denormalized_mark", m.get_denormalized_mark), ("get_norm_factor", m.get_norm_factor),
                ("collateral_amount_to_osqth", lambda: m.collateral_amount_to_osqth(Decimal(3), Decimal("1.7")))]
        for vk in list(m.vault.keys())[:2]:
            out.append(("get_collat_ratio_and_liq_price", lambda vk=vk: m.get_collat_ratio_and_liq_price(vk)))
            out.append(("get_vault_status", lambda vk=vk: m.get_vault_status(vk)))
        return out


class DeribitDriver(Driver):
    def __init__(self, kind, m):
        super().__init__(kind, m)
        self.kit = G.DeribitKit(m, None)

    def held(self):
        return bool(self.m.positions)

    def rule(self, rng, broker, snap):
        m = self.m
        book = snap.market_status[self.mi]
        if not isinstance(book, pd.DataFrame) or len(book.index) == 0:
            return None
        held = sorted(m.positions.keys())
        if held and rng.random() < 0.35:
            name = rng.choice(held)
            have = m.positions[name].amount
            amt = max(Decimal(1), (have * fr(rng, 0.2, 1.0)).quantize(Decimal(1)))
            return G.Op("deribit", "sell", "rule", lambda: m.sell(name, amt))
        # choose by what the snapshot shows: open instruments with asks, ranked by mark price
        cands = [(float(r["mark_price"]), n) for n, r in book.iterrows() if r["state"] == "open" and isinstance(r["asks"], list) and len(r["asks"]) > 0]
        if not cands:
            return None
        cands.sort()
        mark, name = cands[min(len(cands) - 1, int(rng.random() ** 1.5 * len(cands)))]
        top = book.loc[name, "asks"][0][1]
        amt = Decimal(max(1, min(int(top), rng.randint(1, 6))))
        return G.Op("deribit", "buy", "rule", lambda: m.buy(name, amt))


    def queries(self, rng, broker, snap):
        m = self.m
        out = super().queries(rng, broker, snap)
        book = snap.market_status[self.mi]
        if not isinstance(book, pd.DataFrame) or len(book.index) == 0:
            return out
        names = sorted(str(n) for n in book.index)
        for name in rng.sample(names, min(2, len(names))):
            amt = Decimal(rng.choice([1, 2, 5, 20]))
            side = rng.choice(["buy", "sell"])
            out.append((f"estimate_cost/{side}", lambda name=name, amt=amt, side=side: m.estimate_cost(name, amt, side)))
        out.append(("get_trade_fee", lambda: m.get_trade_fee(Decimal(3), Decimal("0.2"))))
        return out


class GmxDriver(Driver):
    def __init__(self, kind, m, tokens):
        super().__init__(kind, m)
        stub = type("GmxStub", (), {})()
        stub.tokens = list(tokens)
        self.kit = G.GmxKit(m, stub)
        self.tokens = list(tokens)

    def held(self):
        return self.m.glp_amount > 0

    def rule(self, rng, broker, snap):
        m = self.m
        t = rng.choice(self.tokens)
        if not self.held() or rng.random() < 0.5:
            a = G.q(G.bal(broker, t) * fr(rng, 0.01, 0.3), t.decimal)
            return G.Op("gmx", "buy_glp", "rule", lambda: m.buy_glp(t, a))
        a = G.q(m.glp_amount * fr(rng, 0.05, 0.7))
        return G.Op("gmx", "sell_glp", "rule", lambda: m.sell_glp(t, a))


    def queries(self, rng, broker, snap):
        m = self.m
        out = super().queries(rng, broker, snap)
        t = rng.choice(self.tokens)
        a = Decimal(rng.choice([1, 50, 3000]))
        out += [("get_redemption_amount", lambda: m.get_redemption_amount(t, a)), ("get_buy_usdg_fee_point", lambda: m.get_buy_usdg_fee_point(t, a)),
                ("get_sell_usdg_fee_point", lambda: m.get_sell_usdg_fee_point(t, a)), ("get_target_amount", lambda: m.get_target_amount(t))]
        return out


class Gmx2Driver(Driver):
    def __init__(self, kind, m):
        super().__init__(kind, m)
        self.kit = G.Gmx2Kit(m, None)

    def held(self):
        return self.m.amount > 0

    def rule(self, rng, broker, snap):
        m = self.m
        if not self.held() or rng.random() < 0.5:
            la = G.q(G.bal(broker, m.long_token) * fr(rng, 0.0, 0.2), m.long_token.decimal)
            sa = G.q(G.bal(broker, m.short_token) * fr(rng, 0.0, 0.2), m.short_token.decimal)
            return G.Op("gmx2", "deposit", "rule", lambda: m.deposit(la, sa))
        a = float(m.amount) * rng.uniform(0.05, 0.7)
        return G.Op("gmx2", "withdraw", "rule", lambda: m.withdraw(a))


# ------------------------------------------------------------------------------------------------ recorder
class Recorder:
    """observer of the ScriptStrategy: digests what each hook is handed, then acts on it"""

    def __init__(self, drivers, spec):
        self.drivers = drivers
        self.spec = spec
        self.bars = {}
        self.accepted = 0
        self.notified = 0
        self.queries = 0

    def _phase(self, phase, strat, snap):
        ts = snap.timestamp
        flat = snap_flat(snap, [d.mi for d in self.drivers])
        rec = self.bars.get(ts)
        if rec is None:
            rec = self.bars[ts] = {"before_bar": None, "on_bar": None, "after_bar": None, "ops": [], "held": (), "calls": []}
        rec["calls"].append(phase)
        rec[phase] = flat
        wallet = ",".join(f"{k.name}={v.balance}" for k, v in strat.broker.assets.items())
        key = sha("|".join(f"{k}={v}" for k, v in flat.items()) + "#" + wallet)
        # read-only helpers first; what they answer takes part in every decision of this hook
        qrng = random.Random(f"{self.spec.script_seed}|q|{phase}|{key}")
        answers = []
        for drv in self.drivers:
            try:
                qs = drv.queries(qrng, strat.broker, snap)
            except Exception:  # noqa: the generator met a state it cannot handle
                qs = []
            for label, fn in qs:
                res = Dr.call_op(fn)
                self.queries += 1
                answers.append(f"{drv.kind}.{label}=" + (canon(res.ret)[:200] if res.ok else type(res.exc).__name__))
        rec["queries"] = rec.get("queries", 0) + len(answers)
        key = sha(key + "?" + "|".join(answers))
        rng = random.Random(f"{self.spec.script_seed}|{phase}|{key}")
        for drv in self.drivers:
            for op in drv.ops(rng, strat.broker, snap, phase, self.spec.script, self.spec.density):
                res = Dr.call_op(op.fn)
                self.accepted += 1 if res.ok else 0
                rec["ops"].append((phase, drv.mtype, op.label, op.cls, "ok" if res.ok else f"rejected@{res.site}",
                                   canon(res.ret)[:160] if res.ok else f"{type(res.exc).__name__}"))
        if phase == "after_bar":
            rec["held"] = tuple(sorted({d.mtype for d in self.drivers if d.held()}))

    def before_bar(self, strat, snap):
        self._phase("before_bar", strat, snap)

    def on_bar(self, strat, snap):
        self._phase("on_bar", strat, snap)

    def after_bar(self, strat, snap):
        self._phase("after_bar", strat, snap)

    def notify(self, strat, action):
        self.notified += 1


class Result:
    pass


def _blame(exc):
    for fs in reversed(traceback.extract_tb(exc.__traceback__)):
        fn = fs.filename.replace("\\", "/")
        if "/vmon/" in fn:
            return "harness"
        if "/demeter/" in fn:
            return "demeter"
    return "harness"


def execute(inp):
    """one backtest through the real Actuator on the supplied frames; fresh Actuator, broker and markets"""
    spec = inp.spec
    r = Result()
    r.error = None
    r.bars, r.accepted, r.mtypes, r.rows, r.actions, r.n_bars, r.notified = {}, 0, {}, {}, [], 0, 0
    held, pre, act, rec = {}, {}, None, None
    try:
        drivers = inp.make_markets()
        r.mtypes = {d.kind: d.mtype for d in drivers}
        rec = Recorder(drivers, spec)
        strat = Dr.make_script_strategy(observer=rec)
        act = Dr.build_actuator([d.m for d in drivers], inp.prices, None, inp.assets, strat, spec.interval)
        for d in drivers:
            if d.mtype == "deribit":
                d.m.deposit(Decimal(50000))
        # the frames the run starts from, as objects
        held["actuator.token_prices"] = act._token_prices
        for d in drivers:
            held[f"{d.kind}.market.data"] = d.m.data
        pre = {k: frame_digest(v) for k, v in held.items()}
        act.run(False)
    except Exception as e:  # noqa
        if _blame(e) == "harness":
            raise
        r.error = e
    r.post_internal = {k: frame_digest(v) for k, v in held.items()}
    r.pre_internal = pre
    r.after = {k: frame_digest(v) for k, v in inp.frames.items()}
    if rec is None or act is None:
        return r
    r.bars = rec.bars
    r.accepted = rec.accepted
    df = act._account_status_df if r.error is None else None
    r.rows = {}
    if df is not None and len(df.index):
        cols = [".".join(str(x) for x in c if str(x) != "") if isinstance(c, tuple) else str(c) for c in df.columns.tolist()]
        r.cols = cols
        for ts, vals in zip(df.index.tolist(), df.values.tolist()):
            r.rows[ts] = {c: canon(v) for c, v in zip(cols, vals)}
    r.actions = []
    for a in act.actions:
        r.actions.append((a.timestamp, type(a).__name__, {k: canon(v) for k, v in vars(a).items()}))
    r.n_bars = len(r.rows)
    r.notified = rec.notified
    return r


# ------------------------------------------------------------------------------------------------ comparisons
FRAME_MARKET = {"uni": "uniswap", "squ": "uniswap", "sq": "squeeth", "squeeth": "squeeth", "book": "deribit", "deribit": "deribit",
                "aave": "aave", "gmx": "gmx", "gmx2": "gmx2"}


def gen_field(key):
    """strip instance parts (instrument, position, token) of a digest key: the mechanism, not the value"""
    key = key.split("@")[0]
    if key.startswith("("):  # aave column ('WETH', 'liquidity_index')
        key = key.strip("()").split(",")[-1].strip().strip("'")
    return key


def site_of(kind_map, key):
    """(market, site) of a snapshot field / account column"""
    head, _, rest = key.partition(".")
    if head in kind_map and rest:
        return kind_map[head], kind_map[head] + "." + gen_field(rest)
    if head == "prices":
        return "actuator", "prices"
    if head == "price":
        return "actuator", "account-price-column"
    if head == "tokens":
        return "account", "wallet"
    return "account" if head == "net_value" else "actuator", gen_field(key)


def compare_runs(mon, spec, ra, rb, bars, upto, operation, info):
    """exact comparison of two runs on `bars` (bar timestamps, ascending) and of the actions with timestamp <= upto.
    Only the earliest difference is reported (later ones are its consequences: the script reacts to what it sees).
    Returns 1 if a difference was found."""
    ivc = "1min" if spec.interval == "1min" else "resampled"
    opn = f"{operation}/{ivc}"

    def report(mkt, clause, site, detail):
        mon.violation(mkt, opn, clause, site, f"[{spec.mix} {spec.interval}] {detail}", info)
        return 1

    for ts in bars:
        ba, bb = ra.bars.get(ts), rb.bars.get(ts)
        if ba is None or bb is None:
            mon.ev()
            return report("actuator", "bar-missing", "strategy-hooks", f"bar {ts}: hooks called in one run only ({ba is not None}/{bb is not None})")
        for ph in PHASES3:
            mon.ev()
            fa, fb = ba[ph], bb[ph]
            if fa is None or fb is None:
                if (fa is None) != (fb is None):
                    return report("actuator", "snapshot-differs", f"{ph}:not-called", f"bar {ts}: {ph} called in one run only")
                continue
            if fa != fb:
                k, va, vb = first_diff(fa, fb)
                mk, st = site_of(ra.mtypes, k)
                if "@" in k or k.endswith("__frame__"):
                    st = f"{mk}.book"  # a cell / the row set of the order-book frame
                return report(mk, "snapshot-differs", f"{ph}:{st}", f"bar {ts} {ph}: snapshot field {k}: {va[:120]} vs {vb[:120]}")
        if ba["calls"] != bb["calls"]:
            return report("actuator", "snapshot-differs", "hook-order", f"bar {ts}: hooks {ba['calls']} vs {bb['calls']}")
        mon.ev()
        wa, wb = ra.rows.get(ts), rb.rows.get(ts)
        if wa is None or wb is None:
            return report("actuator", "account-row-differs", "row-missing", f"bar {ts}: account row present {wa is not None}/{wb is not None}")
        if wa != wb:
            k, va, vb = first_diff(wa, wb)
            mk, st = site_of(ra.mtypes, k)
            od = next((f"first differing operation: {x} vs {y}" for x, y in zip(ba["ops"], bb["ops"]) if x != y), "same operation log")
            return report(mk, "account-row-differs", st, f"bar {ts}: account column {k}: {va[:100]} vs {vb[:100]}; {od}")
    # actions
    mon.ev()
    aa = [a for a in ra.actions if a[0] is not None and a[0] <= upto]
    ab = [a for a in rb.actions if a[0] is not None and a[0] <= upto]
    if aa != ab:
        what, site, mk = f"{len(aa)} vs {len(ab)} actions", "count", "actuator"
        for x, y in zip(aa, ab):
            if x != y:
                mtxt = x[2].get("market", "")
                mk = next((v for k2, v in ra.mtypes.items() if f"name=str:'{k2}'" in mtxt), "actuator")
                if x[0] != y[0] or x[1] != y[1]:
                    what, site = f"{x[0]} {x[1]} vs {y[0]} {y[1]}", "sequence"
                else:
                    fd = first_diff(x[2], y[2])
                    what, site = f"{x[0]} {x[1]}.{fd[0]}: {fd[1][:100]} vs {fd[2][:100]}", f"{x[1]}.{fd[0]}"
                break
        return report(mk, "actions-differ", site, f"recorded actions up to {upto}: {what}")
    return 0


def check_frames(mon, spec, inp, r, info, which):
    """deep digests of every supplied frame (and of the frames the run started from) before vs after"""
    for label, before in inp.before.items():
        mon.ev()
        after = r.after[label]
        if after != before:
            k, va, vb = first_diff(before, after)
            head = label.split(".")[0].split(":")[0]
            mk = FRAME_MARKET.get(head, "actuator")
            mon.violation(mk, f"run/{'1min' if spec.interval == '1min' else 'resampled'}", "input-frame-changed",
                          f"{label.split(':')[0]}:{gen_field(k)}",
                          f"[{spec.mix} {spec.interval}] supplied frame {label} changed across {which}: {k}: {va} -> {vb}", info)
    for label, before in r.pre_internal.items():
        mon.ev()
        after = r.post_internal[label]
        if after != before:
            k, va, vb = first_diff(before, after)
            head = label.split(".")[0]
            mon.violation(FRAME_MARKET.get(head, "actuator"), f"run/{'1min' if spec.interval == '1min' else 'resampled'}", "input-frame-changed",
                          f"{label}:{gen_field(k)}",
                          f"[{spec.mix} {spec.interval}] frame {label} (object held when run() was entered) changed across {which}: {k}: {va} -> {vb}", info)


def market_of_site(site):
    for pre, mk in (("gmx/market2", "gmx2"), ("gmx/gmx_v2", "gmx2"), ("gmx/", "gmx"), ("uniswap/", "uniswap"), ("aave/", "aave"),
                    ("squeeth/", "squeeth"), ("deribit/", "deribit")):
        if site.startswith(pre):
            return mk
    return "actuator"


def report_error(mon, spec, r, which, info):
    e = r.error
    mk = market_of_site(Dr.reject_site(e))
    mon.violation(mk, f"run/{'1min' if spec.interval == '1min' else 'resampled'}", "raises", f"{type(e).__name__}@{Dr.reject_site(e)}",
                  f"[{spec.mix} {spec.interval}] Actuator.run raised on {which}: {e!r}\n" + "".join(traceback.format_exception(e))[-1200:], info)


# ------------------------------------------------------------------------------------------------ one case
def bar_is_shared(ts, ivd, t_cut, next_raw):
    """every raw row owned by the bar [ts, ts+ivd) lies in the shared prefix"""
    if ts > t_cut:
        return False
    return next_raw is None or ts + ivd <= next_raw


def one_case(mon, rng, c, mix, interval):
    spec = Spec(rng, mix, interval)
    ivd = iv_delta(interval)
    info = {"case": c, "mix": mix, "interval": interval, "script": spec.script, "n_raw": spec.n, "start": str(spec.start)}
    m = IV_MIN[interval]
    extra = rng.randint(1, 2 * m + 3) if mix != "deribit" else rng.randint(1, 3)
    rng_a, rng_b = random.Random(rng.getrandbits(64)), random.Random(rng.getrandbits(64))
    raw_a = spec.gen_raw(rng_a, spec.n)
    raw_b = spec.gen_raw(rng_b, spec.n + extra)
    try:
        inp = Inputs(spec, raw_a)
    except Exception as e:  # demeter's preparation code raised on the generated history
        if _blame(e) == "harness":
            raise
        mon.violation(market_of_site(Dr.reject_site(e)), "prepare", "raises", f"{type(e).__name__}@{Dr.reject_site(e)}",
                      f"[{mix} {interval}] preparing H raised {e!r}\n{traceback.format_exc()[-1000:]}", info)
        return
    r1 = execute(inp)
    mon.hit(f"runs/{mix}")
    mon.hit(f"interval/{interval}")
    mon.cls(f"case/{mix}/{interval}/{spec.script}")
    check_frames(mon, spec, inp, r1, info, "the first run")
    if r1.error is not None:
        report_error(mon, spec, r1, "history H", info)
        mon.cls(f"run-raised/{mix}/{interval}")
        return
    mon.hit("bars", r1.n_bars)
    n_ops = sum(len(b["ops"]) for b in r1.bars.values())
    mon.hit("operations", n_ops)
    mon.hit("operations-accepted", r1.accepted)
    mon.hit("actions", len(r1.actions))
    if r1.notified != len(r1.actions):
        pass  # C05's subject
    # ---- run twice on the same frame objects
    r2 = execute(inp)
    check_frames(mon, spec, inp, r2, info, "the second run")
    if r2.error is not None:
        report_error(mon, spec, r2, "the second run on the same inputs", info)
    else:
        bars_all = sorted(set(r1.bars) | set(r2.bars))
        last = max(bars_all) if bars_all else spec.start
        v2 = compare_runs(mon, spec, r1, r2, bars_all, last + timedelta(days=3), "rerun-same-inputs", info)
        mon.cls(f"rerun/{'identical' if v2 == 0 else 'DIFFERS'}/{mix}")
        mon.hit("rerun-bars", len(bars_all))
        mon.hit(f"rerun/{mix}")
        if r1.n_bars != r2.n_bars:
            mon.violation("actuator", "rerun-same-inputs", "account-row-differs", "row-count", f"[{mix} {interval}] {r1.n_bars} vs {r2.n_bars} bars", info)
        if r1.accepted > 0:
            mon.nt(f"rerun/{mix}/{interval}/{spec.script}")
    # ---- prefix pairs
    bars = sorted(r1.rows.keys())
    held_any = [ts for ts in bars if r1.bars.get(ts, {}).get("held")]
    times_a = raw_times(raw_a)
    times_b = raw_times(raw_b)
    end_a, end_b = times_a[-1], times_b[-1]
    cuts = choose_cuts(rng, spec, bars, times_a, ivd, held_any)
    for kclass, t_cut in cuts:
        fclass = rng.choice(("regen", "regen", "regen-shorter", "regen-longer", "truncated"))
        if fclass == "regen":
            t_end = end_a
        elif fclass == "regen-longer":
            t_end = end_b
        elif fclass == "truncated":
            t_end = t_cut
        else:
            later = [t for t in times_a if t > t_cut]
            t_end = later[rng.randrange(len(later))] if len(later) > 1 else t_cut
            if t_end == end_a and len(later) > 1:
                t_end = later[-2]
        raw_h2 = splice(raw_a, raw_b, t_cut, t_end)
        if "uni" in raw_h2 and "book" in raw_h2 and len(raw_h2["uni"].index) <= len(times_of(raw_h2["book"]).unique()) + 1:
            # fewer pool minutes than book hours: Actuator.get_test_range would take the hourly book as the bar grid and the
            # pool has no row there (a degenerate history, not this property's subject)
            mon.cls("pair/degenerate-history(skipped)")
            continue
        t2 = raw_times(raw_h2)
        later_a = [t for t in times_a if t > t_cut]
        later_2 = [t for t in t2 if t > t_cut]
        nxt = min(later_a[:1] + later_2[:1]) if (later_a or later_2) else None
        shared = [ts for ts in bars if bar_is_shared(ts, ivd, t_cut, nxt)]
        differs = any(frame_digest(raw_h2[k][times_of(raw_h2[k]) > t_cut]) != frame_digest(raw_a[k][times_of(raw_a[k]) > t_cut]) for k in raw_a)
        info2 = dict(info, cut=str(t_cut), cut_class=kclass, future=fclass, shared_bars=len(shared))
        try:
            inp2 = Inputs(spec, raw_h2)
        except Exception as e:  # preparation code of demeter raised on the spliced history
            if _blame(e) == "harness":
                raise
            mon.violation("actuator", "prepare", "raises", f"{type(e).__name__}@{Dr.reject_site(e)}",
                          f"[{mix} {interval}] preparing H' (cut {t_cut}, {fclass}) raised {e!r}\n{traceback.format_exc()[-1000:]}", info2)
            continue
        rp = execute(inp2)
        check_frames(mon, spec, inp2, rp, info2, f"the run on H' ({fclass})")
        mon.hit("pairs")
        mon.hit(f"pairs/{mix}")
        mon.hit(f"pairs/{interval}")
        mon.cls(f"pair/{kclass}/{fclass}")
        if rp.error is not None:
            report_error(mon, spec, rp, f"H' = H[..{t_cut}] + {fclass} future", info2)
            continue
        if not differs:
            mon.cls("pair/future-identical(skipped)")
            continue
        mon.hit("pairs/future-differs")
        # a history that ends at the cut has no bars after its last raw row (upsampled hourly books)
        last2 = max(rp.bars) if rp.bars else None
        shared = [ts for ts in shared if last2 is not None and ts <= last2]
        if not shared:
            mon.cls("pair/no-shared-bar")
            continue
        v = compare_runs(mon, spec, r1, rp, shared, shared[-1], "prefix-vs-regenerated-future", info2)
        mon.cls(f"prefix/{'identical' if v == 0 else 'DIFFERS'}/{mix}/{interval}")
        mon.hit("shared-bars", len(shared))
        mon.hit(f"shared-bars/{mix}", len(shared))
        heldk = r1.bars.get(shared[-1], {}).get("held", ())
        closed_bars = 0
        if "deribit" in mix:
            closed_bars = sum(1 for ts in shared if ts.minute != 0)
            mon.hit("deribit-non-hour-bars-compared", closed_bars)
            hours_crossed = len({ts.replace(minute=0) for ts in shared})
            mon.hit("deribit-book-hours-in-prefix", hours_crossed)
        if heldk:
            mon.hit("pairs/position-open-at-k")
            mon.hit(f"pairs/position-open-at-k/{mix}")
            mon.nt(f"{mix}/{interval}/{kclass}/{fclass}/{spec.script}/{'+'.join(heldk)}")
            if "squeeth" in heldk:
                mon.hit("pairs/squeeth-vault-open-at-k")
            if c % 5 == mon.shard.get("shard", 0) % 5 and not mon.samples:  # one per shard: a different (mix, interval) each
                mon.sample({
                    "mix": mix, "interval": interval, "script": spec.script, "raw_rows": spec.n, "cut": str(t_cut),
                    "cut_class": kclass, "future": fclass, "bars_in_H": len(bars), "bars_in_H'": rp.n_bars,
                    "shared_bars_compared": len(shared), "holdings_at_k": list(heldk),
                    "actions_in_prefix": len([a for a in r1.actions if a[0] <= shared[-1]]),
                    "ops_in_prefix": sum(len(r1.bars[ts]["ops"]) for ts in shared), "identical": v == 0,
                })
        else:
            mon.cls("pair/no-position-at-k")


def choose_cuts(rng, spec, bars, times_a, ivd, held_any):
    """[(class, raw timestamp of the last shared raw row)]"""
    m = IV_MIN[spec.interval]
    if not bars:
        return []
    last_raw = times_a[-1]

    def end_of(ts):
        if spec.mix == "deribit" and m < 60:
            return ts
        return min(ts + ivd - MIN1, last_raw)

    out = []
    kinds = ["mid", "mid", "held", "first", "last-but-one"]
    if m > 1 and spec.mix != "deribit":
        kinds += ["mid-bin", "mid-bin"]
    if spec.mix in ("deribit+uni", "uni+deribit"):
        kinds += ["hour-edge", "hour-edge", "hour-edge"]
    npairs = 3 if len(bars) > 3 else 2
    rng.shuffle(kinds)
    for kc in kinds:
        if len(out) >= npairs:
            break
        t = None
        if kc == "first":
            t = end_of(bars[0])
        elif kc == "last-but-one" and len(bars) >= 2:
            t = end_of(bars[-2])
        elif kc == "mid" and len(bars) >= 3:
            t = end_of(bars[rng.randrange(1, len(bars) - 1)])
        elif kc == "held" and held_any:
            cand = [ts for ts in held_any if ts != bars[-1]]
            if cand:
                t = end_of(rng.choice(cand))
        elif kc == "mid-bin" and len(bars) >= 2:
            j = rng.randrange(0, len(bars) - 1)
            t = bars[j] + timedelta(minutes=rng.randrange(0, m - 1))
            t = max(t, times_a[0])
        elif kc == "hour-edge":
            hrs = sorted({ts.replace(minute=0, second=0) + timedelta(hours=1) for ts in bars})
            hrs = [h for h in hrs if bars[0] < h <= bars[-1]]
            if hrs:
                h = rng.choice(hrs)
                t = h - MIN1 if rng.random() < 0.5 else h + timedelta(minutes=rng.choice([0, 0, m - 1, m]))
        if t is None or t >= last_raw or t < times_a[0]:
            continue
        if any(t == x[1] for x in out):
            continue
        out.append((kc, t))
    return out


def combo_of(c, shard, seed):
    return COMBOS[(c * NSHARDS + shard + seed * 7) % len(COMBOS)]


def run(spec, mon):
    sh = spec.get("shard", 0)
    for c in range(spec["cases"]):
        rng = mon.case_rng(c)
        if not mon.want(c):
            continue
        mix, interval = combo_of(c, sh, mon.seed)
        try:
            one_case(mon, rng, c, mix, interval)
        except Exception as e:  # noqa
            if _blame(e) == "harness":
                raise
            mon.violation("actuator", "setup", "raises", f"{type(e).__name__}@{Dr.reject_site(e)}",
                          f"[{mix} {interval}] case {c}: {e!r}\n{traceback.format_exc()[-1500:]}", {"case": c, "mix": mix, "interval": interval})


def floors(merged, tier):
    out = []
    r = merged["reach"]
    k = 1 if tier == "quick" else 10
    need = {"pairs": 150 * k, "pairs/future-differs": 150 * k, "pairs/position-open-at-k": 150 * k, "shared-bars": 1000 * k,
            "rerun-bars": 800 * k, "operations-accepted": 1300 * k, "actions": 1500 * k,
            "deribit-non-hour-bars-compared": 250 * k, "pairs/squeeth-vault-open-at-k": 15 * k}
    for mix in MIXES:
        need[f"pairs/{mix}"] = 15 * k
        need[f"pairs/position-open-at-k/{mix}"] = 10 * k
        need[f"rerun/{mix}"] = 5 * k
    for iv in IV_MIN:
        need[f"pairs/{iv}"] = 40 * k
    for name, n in need.items():
        if r.get(name, 0) < n:
            out.append(f"{name} reached {r.get(name, 0)} times, floor {n}")
    return out
