"""C03 — frozen-market operations never create value, negative holdings or over-redemption.

Invariant at quiescent points: the markets of a scene are held at one bar (market data and prices fixed) and driven with
random operation sequences whose arguments are hostile (zero, exactly the holding, a hair over/under, x10, x1e6,
negative, unknown keys).  Around EVERY operation, accepted or rejected, the reported total net value and the state
projection are taken and four clauses are checked:
  A  net value does not rise by more than wallet dust (1e-5 of every wallet balance the operation touched);
  B  uniswap add/remove/collect and aave supply/withdraw/borrow/repay conserve net value up to that dust;
  C  uniswap/squeeth pool swaps at the pool price lose exactly the reported fee;
  D  no wallet balance, liquidity, pending fee, supply, debt, vault amount, option amount/cash, GLP/GM amount is
     negative afterwards;
  E  an accepted pay-out is no larger than the holding it draws on (per-operation rules)."""
from decimal import Decimal

from .. import drive as Dr
from .. import scenes as S

ID = "C03"
META = {
    "level": "exploration",
    "rule": "a case = one frozen-market scene (market mix, decimals, wallet, one valuation basis) driven by a random operation "
    "sequence with hostile argument classes; every operation (accepted or rejected) is one evaluation of clauses A-E. "
    "Non-trivial = an operation that changed the state or was rejected with a non-zero request; distinct by (market, "
    "operation, argument class, accepted/rejected).",
    "assumptions": [
        "net value is the one reported by Broker.get_account_status at the frozen bar's prices (C01 decides that this "
        "figure is an honest valuation)",
        "dust = 1e-5 * sum over the wallet tokens whose balance changed of max(|before|,|after|) * price, as the statement says",
        "arithmetic allowance on top of dust: 1e-24 relative to the gross value in play (Decimal prec 35), 1e-9 relative "
        "for GMX v2 (float arithmetic), and 2e-4 quote units when an Aave market is present (its reported supply and "
        "borrow totals are each quantised to 1e-4)",
        "one valuation basis: wallet prices are the markets' own prices (squeeth scenes use premium 1 and a flat history so "
        "TWAP, index and pool price coincide); order books satisfy bids <= mark <= asks; swaps with a caller-chosen price "
        "are not generated (both from the statement)",
        "float TWAP/index arithmetic in squeeth scenes: 1e-9 relative allowance (moving an LP position between the pool's "
        "Decimal valuation and the vault's float index valuation changes the figure by float rounding)",
        "squeeth deposit_uni_position / withdraw_uni_position move an LP position between two valuation bases (pool price "
        "vs. index price, which differ by up to a tick): the net value may move by that relative gap, measured per case",
        "Broker.subtract_from_balance is an account-funding primitive (counterpart of add_to_balance, which raises net value "
        "by design); only non-negativity is asserted for it",
        "bar changes between operations are allowed (they are not operations); every comparison is around one operation at "
        "one fixed bar",
    ],
}
NSHARDS = 16
EPS_REL = Decimal("1e-24")
AAVE_QUANTUM = Decimal("2e-4")
CONSERVING = {
    ("uniswap", "add_liquidity_by_tick"), ("uniswap", "add_liquidity"), ("uniswap", "remove_liquidity"),
    ("uniswap", "collect_fee"), ("uniswap", "remove_all_liquidity"),
    ("aave", "supply"), ("aave", "withdraw"), ("aave", "borrow"), ("aave", "repay"), ("aave", "repay_with_collateral"),
}
FEE_SWAPS = {("uniswap", "buy"), ("uniswap", "sell"), ("uniswap", "swap"), ("squeeth", "buy_squeeth"), ("squeeth", "sell_squeeth"),
             ("broker", "swap_by_from"), ("broker", "swap_by_to")}


def plan(tier, seed):
    n = 30 if tier == "quick" else 800
    return [{"shard": i, "cases": n} for i in range(NSHARDS)] + [{"shard": NSHARDS, "cases": 0, "suite": True}]


def run_suite_shard(mon):
    """the repository's own test suite (real-data workloads) under the non-negative monitor of vmon/suitemon.py (clause D)"""
    from .. import suiterun

    events, info = suiterun.run_suite()
    mon.note("suite", {"rc": info["rc"], "wall_s": info["wall"], "tail": info["tail"][-160:]})
    mon.hit("suite-tests-passed", sum(1 for e in events if e.get("mon") == "test" and e.get("outcome") == "passed"))
    for e in events:
        if e.get("mon") != "non-negative":
            continue
        mon.case_id = {"suite_test": e.get("test")}
        mon.ev()
        mon.hit("suite-operations")
        mon.cls(f"suite-accepted/{e['market']}/{e['op']}")
        if e.get("changed"):
            mon.nt(f"suite/{e['market']}/{e['op']}")
        if not e["ok"]:
            fam = sorted({site_market(p) + "/" + field_family(p) for p in e["paths"]})
            mon.violation(e["market"], e["op"], "negative-holding", fam[0],
                          f"repository test {e.get('test')}: after {e['market']}.{e['op']} negative fields {e['paths']}", {"suite_test": e.get("test")})


def run(spec, mon):
    if spec.get("suite"):
        if mon.only_case is None or isinstance(mon.only_case, dict):
            run_suite_shard(mon)
        return
    for c in range(spec["cases"]):
        rng = mon.case_rng(c)
        if not mon.want(c):
            continue
        mix = rng.choice(S.MIXES)
        try:
            sc = S.build(rng, mix, n=rng.choice([6, 12]), consistent=True)
        except Exception:
            import traceback

            mon.violation("harness", "build", "scene-build-failed", mix, traceback.format_exc()[-1200:])
            continue
        one_case(mon, rng, sc, c)


# ------------------------------------------------------------------------------------------- helpers
def negatives(proj):
    """paths of negative numeric fields in a projection (the visible book and the action log are skipped)."""
    out = []

    def walk(x, path):
        if isinstance(x, dict):
            for k, v in x.items():
                if k in ("book", "actions"):
                    continue
                walk(v, f"{path}/{k}")
        elif isinstance(x, (tuple, list)):
            for i, v in enumerate(x):
                walk(v, f"{path}[{i}]")
        elif isinstance(x, bool) or x is None or isinstance(x, str):
            return
        elif isinstance(x, (int, float, Decimal)):
            if x < 0:
                out.append((path, x))

    walk(proj, "")
    return out


def wallet_of(proj):
    return proj.get("wallet", {})


def price_of(prices, name):
    try:
        return Decimal(str(prices[name]))
    except Exception:
        return None


def touched_dust(pre, post, prices):
    """(dust, gross): dust = 1e-5 * sum of touched wallet balances valued; gross = value of everything that moved."""
    w0, w1 = wallet_of(pre), wallet_of(post)
    dust = Decimal(0)
    gross = Decimal(0)
    for t in set(w0) | set(w1):
        a, b = w0.get(t, Decimal(0)), w1.get(t, Decimal(0))
        if a != b:
            p = price_of(prices, t)
            if p is None:
                continue
            dust += max(abs(a), abs(b)) * abs(p) * Decimal("1e-5")
            gross += max(abs(a), abs(b)) * abs(p)
    return dust, gross


def one_case(mon, rng, sc, c):
    fz = sc.fz
    has_aave = any(k.mtype == "aave" for k in sc.kits)
    has_gmx2 = any(k.mtype == "gmx2" for k in sc.kits)
    has_squeeth = any(k.mtype == "squeeth" for k in sc.kits)
    steps = rng.randint(15, 60)
    trace = []
    for step in range(steps):
        if rng.random() < 0.08:
            sc.move(rng)
        try:
            op = sc.gen(rng)
        except Exception as e:
            mon.cls(f"gen-error/{type(e).__name__}")
            continue
        funding = op.market == "broker" and op.label == "subtract_from_balance"
        g2 = gmx2_pool_state(fz) if op.market == "gmx2" else None
        try:
            pre = Dr.project(fz.broker, fz.actions)
            nv0 = Decimal(fz.net_value())
            pre_detail = detail_state(fz)
        except Exception as e:
            mon.violation("harness", "valuation", "raises-before-op", type(e).__name__, f"{type(e).__name__}: {e}; trace {trace[-4:]}")
            return
        res = Dr.call_op(op.fn)
        trace.append(f"{op.market}.{op.label}[{op.cls}]{'+' if res.ok else '-'}")
        try:
            post = Dr.project(fz.broker, fz.actions)
            nv1 = Decimal(fz.net_value())
        except Exception as e:
            mon.violation(op.market, op.label, "valuation-raises-after-op", type(e).__name__,
                          f"{type(e).__name__}: {str(e)[:200]} after {trace[-1]} (scene {sc.info})", {"scene": sc.info, "trace": trace[-12:]})
            return
        mon.ev()
        changed = post != pre
        outcome = "accepted" if res.ok else "rejected"
        mon.cls(f"{outcome}/{op.market}/{op.label}")
        if changed or (not res.ok and "zero" not in op.cls):
            mon.nt(f"{op.market}/{op.label}/{op.cls}/{outcome}")
        dust, gross = touched_dust(pre, post, fz.prices)
        eps = EPS_REL * (abs(nv0) + abs(nv1) + gross)
        if has_gmx2:
            eps += Decimal("1e-9") * (abs(nv0) + abs(nv1) + gross)
        if has_aave:
            eps += AAVE_QUANTUM
        if has_squeeth:
            eps += Decimal("1e-9") * (abs(nv0) + abs(nv1) + gross)
        lent_touched = False
        if has_squeeth:
            # a uniswap operation on a range whose position is lent to a vault grows / shrinks the vault's collateral: tokens
            # move between the wallet (pool price) and the vault's LP valuation (index price), the same revaluation
            for mk in pre:
                if isinstance(pre.get(mk), dict) and isinstance(post.get(mk), dict):
                    for k in set(pre[mk]) | set(post[mk]):
                        a, b = pre[mk].get(k), post[mk].get(k)
                        if a != b and any(isinstance(x, tuple) and len(x) == 4 and x[3] is True for x in (a, b)):
                            lent_touched = True
        if op.kind == "revalue" or lent_touched:
            eps += revalue_gap(fz) * (abs(nv0) + abs(nv1))
        d = nv1 - nv0
        ctx = lambda: (f"{op.market}.{op.label}[{op.cls}] {outcome}"
                       + (f" ({type(res.exc).__name__}: {str(res.exc)[:80]})" if not res.ok else "")
                       + f": net value {nv0} -> {nv1} (delta {d:.6E}), dust {dust:.3E}, eps {eps:.3E}; state diff {Dr.diff_proj(pre, post)[:4]}; "
                       f"scene {sc.info}; trace tail {trace[-5:]}")
        data = {"scene": sc.info, "trace": trace[-15:]}
        # ---- A: no value creation
        if funding:
            pass  # account funding primitive (the counterpart of add_to_balance), not a market operation: only clause D applies
        elif d > dust + eps:
            site = outcome + "/" + arg_family(op.cls)
            if op.market == "gmx2" and op.label == "deposit" and res.ok:
                site = gmx2_deposit_site(g2, pre, post, fz)
            mon.violation(op.market, op.label, "net-value-increase", site, ctx(), data)
        # ---- B: conservation
        elif (op.market, op.label) in CONSERVING and res.ok and abs(d) > dust + eps:
            mon.violation(op.market, op.label, "not-conserved", arg_family(op.cls), ctx(), data)
        # ---- C: swaps lose exactly the reported fee
        if (op.market, op.label) in FEE_SWAPS and res.ok and changed:
            fee_val = swap_fee_value(op, res.ret, fz)
            if fee_val is not None:
                mon.hit("swap-fee-checked")
                if abs(d + fee_val) > dust + eps + Decimal("1e-20") * abs(fee_val):
                    mon.violation(op.market, op.label, "swap-loss-differs-from-fee", arg_family(op.cls),
                                  f"reported fee value {fee_val}, but " + ctx(), data)
        # ---- D: nothing negative
        for path, val in negatives(post):
            if not any(path == p for p, _ in negatives(pre)):
                mon.violation(op.market, op.label, "negative-holding", site_market(path) + "/" + field_family(path),
                              f"{path} = {val} after " + ctx(), data)
        # ---- E: pay-out no larger than the holding
        if res.ok and changed:
            over = over_redemption(op, pre, post, pre_detail, fz)
            if over:
                mon.violation(op.market, op.label, "over-redemption", over[0], over[1] + "; " + ctx(), data)
        mon.sample({"scene": sc.info, "op": f"{op.market}.{op.label}", "arg_class": op.cls, "outcome": outcome,
                    "net_value_delta": str(d), "dust": str(dust)}, cls=f"{op.market}/{op.label}/{outcome}")


def gmx2_pool_state(fz):
    try:
        m = [m for m in fz.markets if m.market_info.type.name == "gmx_v2"][0]
        d = m.market_status.data
        return {"long_usd": float(d["longAmount"]) * float(d["longPrice"]), "short_usd": float(d["shortAmount"]) * float(d["shortPrice"]),
                "impact_pool": float(d["impactPoolAmount"]), "long": m.long_token.name, "short": m.short_token.name,
                "lp": float(d["longPrice"]), "sp": float(d["shortPrice"])}
    except Exception:
        return None


def gmx2_deposit_site(g2, pre, post, fz):
    """mechanism of a value-raising GM deposit, classified from the pool row and the wallet delta only: did the deposit
    move the pool's long/short USD balance towards parity, and is there an impact pool to pay a positive impact from?"""
    if g2 is None:
        return "accepted/unclassified"
    wd = wallet_delta(pre, post)
    dl = -float(wd.get(g2["long"], 0)) * g2["lp"]
    ds = -float(wd.get(g2["short"], 0)) * g2["sp"]
    before = abs(g2["long_usd"] - g2["short_usd"])
    after = abs(g2["long_usd"] + dl - g2["short_usd"] - ds)
    a = "balance-improving-deposit" if after < before else "balance-worsening-deposit"
    b = "impact-pool-funded" if g2["impact_pool"] > 0 else "impact-pool-empty"
    return a + "/" + b


def revalue_gap(fz):
    """relative gap between the two prices an LP position's oSQTH is valued at: the pool price while the uniswap market
    owns it, the index price (norm factor x TWAP ETH / 1e4) while a vault holds it.  Pool prices sit on the tick grid, so
    the two can differ by up to one tick (1e-4) even in a scene built on one basis."""
    try:
        sm = [m for m in fz.markets if m.market_info.type.name == "squeeth"][0]
        um = [m for m in fz.markets if m.market_info.type.name == "uniswap_v3"][0]
        from demeter.squeeth import SqueethMarket
        from demeter import TokenInfo

        idx = Decimal(sm.get_norm_factor()) * Decimal(sm.get_twap_price(TokenInfo("weth", 18))) / Decimal(10000)
        pool = Decimal(um.market_status.data.price)
        return abs(idx / pool - 1) + Decimal("1e-9")
    except Exception:
        return Decimal("2e-4")


def site_market(path):
    mk = path.split("/")[1]
    return "uni" if mk.startswith("uni") else mk


def arg_family(cls):
    return cls.split("/")[0]


def field_family(path):
    """names the kind of holding that went negative (never the key of the position: keys carry random values)."""
    import re

    parts = path.split("/")
    if parts[1] == "wallet":
        return "balance"
    idx = re.search(r"\[(\d+)\]$", path)
    i = int(idx.group(1)) if idx else None
    mk = parts[1]
    if mk.startswith("uni"):
        return {0: "liquidity", 1: "pending0", 2: "pending1"}.get(i, "position")
    if mk == "aave":
        return parts[2] if len(parts) > 2 else "position"
    if mk == "squeeth":
        return {0: "collateral", 1: "short"}.get(i, "vault")
    if mk == "deribit":
        if len(parts) > 2 and parts[2] == "cash":
            return "cash"
        return {0: "amount", 1: "avg_buy_price", 2: "buy_amount", 3: "avg_sell_price", 4: "sell_amount"}.get(i, "position")
    return parts[2] if len(parts) > 2 else "holding"


def swap_fee_value(op, ret, fz):
    """value in quote terms of the fee the swap reported, or None when it cannot be identified."""
    try:
        if op.market == "broker":
            # the wallet's own swap reports its fee in the action record, in units of the token paid
            a = fz.actions[-1]
            if type(a).__name__ != "BrokerSwapAction":
                return None
            return Decimal(a.fee) * Decimal(str(fz.prices[a.from_token.name]))
        if op.market == "uniswap":
            um = [m for m in fz.markets if m.market_info.type.name == "uniswap_v3"][0]
        else:
            um = [m for m in fz.markets if m.market_info.type.name == "uniswap_v3"][0]
        fee = Decimal(ret[0])
        if op.label in ("buy", "buy_squeeth"):
            tok = um.quote_token
        elif op.label in ("sell", "sell_squeeth"):
            tok = um.base_token
        else:
            return None  # swap(): the fee token depends on the direction; covered through buy/sell
        return fee * Decimal(str(fz.prices[tok.name]))
    except Exception:
        return None


def detail_state(fz):
    """holdings, in the units they pay out in, that clause E compares pay-outs with."""
    out = {}
    for m in fz.markets:
        t = m.market_info.type.name
        try:
            if t == "aave_v3":
                out["aave_supply"] = {k.name: Decimal(m.get_supply(k).amount) for k in m.supply_keys}
                out["aave_debt"] = {k.name: Decimal(m.get_borrow(k).amount) for k in m.borrow_keys}
            elif t == "uniswap_v3":
                pend = {}
                for k, p in m.positions.items():
                    pend[str(k)] = (Decimal(p.pending_amount0), Decimal(p.pending_amount1), int(p.liquidity))
                out.setdefault("uni", {})[m.market_info.name] = pend
            elif t == "squeeth":
                out["vault"] = {int(v.id): (Decimal(v.collateral_amount), Decimal(v.osqth_short_amount)) for v in m.vault.values()}
            elif t == "deribit_option":
                out["options"] = {k: Decimal(p.amount) for k, p in m.positions.items()}
                out["cash"] = Decimal(m.balance)
            elif t == "gmx_v1":
                out["glp"] = Decimal(m.glp_amount)
            elif t == "gmx_v2":
                out["gm"] = float(m.amount)
        except Exception:
            pass
    return out


def wallet_delta(pre, post):
    w0, w1 = wallet_of(pre), wallet_of(post)
    return {t: w1.get(t, Decimal(0)) - w0.get(t, Decimal(0)) for t in set(w0) | set(w1)}


def over_redemption(op, pre, post, det, fz):
    """(site, text) when an accepted operation paid out more than the holding it draws on; None otherwise."""
    wd = wallet_delta(pre, post)
    tol = Decimal("1e-18")
    if op.market == "aave" and op.label == "withdraw":
        sup0 = det.get("aave_supply", {})
        for t, dlt in wd.items():
            if dlt > 0 and dlt > sup0.get(t, Decimal(0)) * (1 + Decimal("1e-30")) + tol:
                return ("withdraw>supplied", f"wallet {t} +{dlt} but supplied {sup0.get(t, 0)}")
    if op.market == "aave" and op.label == "borrow":
        return None
    if op.market == "uniswap" and op.label == "collect_fee":
        for name, pend in det.get("uni", {}).items():
            tot0 = sum((v[0] for v in pend.values()), Decimal(0))
            tot1 = sum((v[1] for v in pend.values()), Decimal(0))
            um = fz.broker.markets[[k for k in fz.broker.markets.keys() if k.name == name][0]]
            d0, d1 = wd.get(um.token0.name, Decimal(0)), wd.get(um.token1.name, Decimal(0))
            if d0 > tot0 + tol or d1 > tot1 + tol:
                return ("collect>pending", f"collected ({d0},{d1}) but pending totals were ({tot0},{tot1})")
    if op.market == "squeeth" and op.label == "burn_and_withdraw":
        v0 = det.get("vault", {})
        tot = sum((c for c, s in v0.values()), Decimal(0))
        got = wd.get("weth", Decimal(0))
        if got > tot + tol:
            return ("withdraw>collateral", f"wallet weth +{got} but all vaults held {tot}")
    if op.market == "deribit" and op.label == "sell":
        name = op.info.get("instrument")
        held = det.get("options", {}).get(name, Decimal(0))
        p1 = post.get("deribit", {}).get("positions", {}).get(name)
        after = p1[0] if p1 else Decimal(0)
        # sold amount = what left the position; a sale can not make the position grow either
        if held - after > held + tol:
            return ("sell>held", f"{name}: held {held}, after {after}")
    if op.market == "deribit" and op.label == "withdraw":
        got = sum((v for v in wd.values() if v > 0), Decimal(0))
        if got > det.get("cash", Decimal(0)) + tol:
            return ("withdraw>cash", f"wallet +{got} but market cash was {det.get('cash')}")
    if op.market == "gmx" and op.label == "sell_glp":
        held = det.get("glp", Decimal(0))
        after = post.get("gmx", {}).get("glp", Decimal(0))
        if held - after > held + tol:
            return ("sell>held", f"GLP held {held}, after {after}")
    if op.market == "gmx2" and op.label == "withdraw":
        held = det.get("gm", 0.0)
        after = post.get("gmx2", {}).get("gm", 0.0)
        if held - after > held * (1 + 1e-12) + 1e-18:
            return ("withdraw>held", f"GM held {held}, after {after}")
    return None


def floors(merged, tier):
    out = []
    acc, rej = {}, {}
    for k, v in merged["classes"].items():
        parts = k.split("/")
        if parts[0] == "accepted":
            acc[parts[1]] = acc.get(parts[1], 0) + v
        elif parts[0] == "rejected":
            rej[parts[1]] = rej.get(parts[1], 0) + v
    for mk in ("uniswap", "aave", "squeeth", "deribit", "gmx", "gmx2", "broker"):
        if acc.get(mk, 0) < 5:
            out.append(f"fewer than 5 accepted operations on market {mk}")
        if mk != "broker" and rej.get(mk, 0) < 5:
            out.append(f"fewer than 5 rejected operations on market {mk}")
    # every operation the unchanged tree accepts by the dozen must have been accepted at all: an operation that is now
    # always refused would leave its clauses (conservation, swap fee, payout <= holding) without a single observation
    k = 1 if tier == "quick" else 10
    for op in ("aave/borrow", "aave/change_collateral", "aave/repay", "aave/supply", "aave/withdraw", "broker/subtract_from_balance",
               "broker/swap_by_from", "broker/swap_by_to", "deribit/buy", "deribit/deposit", "deribit/withdraw", "gmx/buy_glp",
               "gmx/sell_glp", "gmx2/deposit", "gmx2/withdraw", "squeeth/burn_and_withdraw", "squeeth/buy_squeeth", "squeeth/deposit",
               "squeeth/open_deposit_mint", "squeeth/sell_squeeth", "uniswap/add_liquidity", "uniswap/add_liquidity_by_tick",
               "uniswap/add_liquidity_by_value", "uniswap/buy", "uniswap/collect_fee", "uniswap/even_rebalance",
               "uniswap/remove_all_liquidity", "uniswap/remove_liquidity", "uniswap/sell", "uniswap/swap"):
        if merged["classes"].get(f"accepted/{op}", 0) < 4 * k:
            out.append(f"operation {op} accepted only {merged['classes'].get(f'accepted/{op}', 0)} times (< {4 * k})")
    if merged["reach"].get("suite-tests-passed", 0) < 100:
        out.append(f"the repository's test suite under monitors passed only {merged['reach'].get('suite-tests-passed', 0)} tests (expected about 154)")
    if merged["reach"].get("swap-fee-checked", 0) < 5:
        out.append("fewer than 5 swaps whose loss was compared with the reported fee")
    return out
