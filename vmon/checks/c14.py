"""C14 — Squeeth vaults: 150 % collateral rule, TWAP pricing, liquidation amounts.

Every case is one backtest through the real Actuator (real timestamps, so the TWAP window is live) over a generated
ETH / norm-factor / premium path with the oSQTH/WETH pool next to the squeeth market.  A data-dependent script
opens vaults, mints, deposits, burns, withdraws ETH and LP positions at amounts aimed at chosen collateral ratios
(far below, 1.5(1 +- 1e-6 .. 1e-8), inside the band, far above; 0.5 ETH dust edge).  Monitors:

 * accept/reject frontier of every mint / ETH withdrawal / LP withdrawal against the reference rule (three-valued),
   and the invariant on the *actual* vault after every accepted one;
 * exact movement of oSQTH and ETH between wallet and vault for every accepted operation; non-negative vaults;
 * get_twap_price and get_collat_ratio_and_liq_price against the reference geometric mean / ratio at every bar;
 * SqueethMarket.update is bracketed (instance wrapper): pre-state -> liquidated iff unsafe; ReduceDebtAction and
   LiquidationAction replayed clause by clause (stage 2 starts from the *recorded* stage-1 result so that one defect
   does not cascade); final state = records; wallet only receives the oSQTH excess.

After a rejected operation nothing is assumed: the state is re-read (C04 owns "a rejection changes nothing")."""
import math
from datetime import timedelta
from decimal import Decimal
from fractions import Fraction

from .. import drive as Dr
from .. import opsgen as G
from .. import worlds as W
from ..oracles import squeeth as O

ID = "C14"
META = {
    "level": "exploration",
    "rule": "a case = one Actuator run (1-min or 5-min bars) over a generated ETH/norm-factor/premium path with a "
    "data-dependent operation script on up to 5 vaults (with and without LP collateral). One evaluation = one oracle "
    "comparison (frontier verdict, post-state invariant, a moved amount, a TWAP/ratio read, one vault at one bar "
    "end, one liquidation stage). Non-trivial = an operation on a vault with debt (or creating debt), a bar end of a "
    "vault within 2 % of the 1.5x line, any liquidation stage, a TWAP read on a short/full window; distinct by "
    "(operation, LP yes/no, target-ratio class, verdict, frontier class, path kind, interval, window rows) resp. "
    "(liquidation stage kind, LP yes/no, path kind, interval).",
    "assumptions": [
        "frontier decisions are three-valued with a 1e-9 relative band (float TWAP); inside the band either outcome is accepted",
        "pending LP fees may or may not count as LP collateral: a verdict is demanded only when both readings agree",
        "the 0.5 ETH comparison is exact for vaults without LP collateral, banded (1e-9) with LP collateral",
        "amounts that involve a TWAP (liquidation payment, bounty) are compared at 1e-9 relative; pure Decimal amounts at 1e-30 relative + 1e-27 absolute (Decimal prec 35)",
        "the 2 % bounty may value the redeemed oSQTH at the TWAP oSQTH price or at the index price (the statement says only '2% bounty')",
        "LP amounts (ETH, oSQTH, pending fees) are read from the real UniLpMarket (C07/C08 own them); redeemed amounts are compared at 1e-12 relative",
        "a burn above the debt or a withdrawal above the collateral is only checked for conservation (what left the vault reached the wallet and is at most the request)",
        "acceptance of a pure burn / pure deposit is not constrained (the statement names mint, collateral withdrawal, LP withdrawal)",
        "the wallet is kept far from empty, so wallet-side rejections and Asset.sub's dust snap do not occur",
        "an exact tie collateral == payment in the cap rule is not generated",
        "when 2 % of the redeemed LP value exceeds the vault's ETH (own + redeemed), '2% bounty' and 'never negative' conflict: a bounty "
        "stopped at the vault's collateral is accepted; the full bounty is accepted by the amounts clause and caught by the non-negativity clause",
        "after a vault amount has gone negative (reported once, at the step that made it negative) the rest of that case is not evaluated",
    ],
}
NSHARDS = 16
KINDS = ("calm", "up", "spike", "wick", "moon", "down", "premdrift", "flatstep", "flatlp")
F = O.F
Q18 = Decimal(1).scaleb(-18)
AMT_REL = Fraction(1, 10**30)
LP_REL = Fraction(1, 10**12)


def plan(tier, seed):
    n = 36 if tier == "quick" else 1000
    return [{"shard": i, "cases": n} for i in range(NSHARDS)]


def run(spec, mon):
    for c in range(spec["cases"]):
        rng = mon.case_rng(c)
        if not mon.want(c):
            continue
        try:
            Case(mon, rng, c).run()
        except Exception as e:  # harness or code crashed in an unexpected place
            import traceback

            mon.violation("squeeth", "sequence", "unexpected-exception", Dr.reject_site(e), traceback.format_exc()[-1800:])


def floors(merged, tier):
    out = []
    r = merged["reach"]
    need = {
        "op-accepted": 100, "op-rejected": 50, "frontier-must-accept": 30, "frontier-must-reject": 30,
        "bar-end-safe": 300, "liquidation": 20, "liq-half": 3, "liq-full-dust": 1, "liq-full-capped": 1,
        "reduce-debt": 3, "twap-read": 300, "twap-short-window": 30, "lp-vault-op": 10, "ratio-read": 100,
        "withdraw_lp-decided": 3,
    }
    for k, v in need.items():
        if r.get(k, 0) < v:
            out.append(f"reach floor not met: {k} = {r.get(k, 0)} < {v}")
    return out


# ------------------------------------------------------------------------------------------------ world
class World14(W.SqueethWorld):
    """Own path kinds on top of worlds.SqueethWorld (markets()/prices() are inherited)."""

    def __init__(self, rng, n, kind, start, prem0):
        import pandas as pd

        self.kind = kind
        self.index = [start + timedelta(minutes=i) for i in range(n)]
        eth = rng.uniform(800, 4000)
        nf = rng.uniform(0.2, 0.9)
        prem = prem0
        jump_at = rng.randint(3, max(4, n - 10))
        jump_x = rng.choice([1.3, 1.6, 2.2, 3.0])
        drift = rng.choice([-0.012, -0.006, 0.006, 0.012])
        rows, ticks = [], []
        for i in range(n):
            if kind == "calm":
                eth *= math.exp(rng.gauss(0, 0.0008))
            elif kind == "up":
                eth *= math.exp(rng.gauss(0.003, 0.003))
            elif kind == "down":
                eth *= math.exp(rng.gauss(-0.003, 0.003))
            elif kind == "spike":
                eth *= math.exp(rng.gauss(0, 0.0008)) * rng.choice([1.0] * 12 + [1.12, 1.25, 0.85])
            elif kind == "moon":
                eth *= math.exp(rng.gauss(0, 0.0008)) * (jump_x if i == jump_at else 1.0)
            elif kind == "premdrift":
                eth *= math.exp(rng.gauss(0.0006, 0.001))
                prem *= math.exp(drift)
            if kind == "flatstep":
                # ETH and the premium stand still (identical TWAP bar after bar); the normalisation factor is a step
                # function (one or two jumps): a vault that one liquidation does not cure has to be looked at again in
                # bars whose market data repeat the previous bar's
                if i == jump_at or (i == jump_at + 4 and jump_x < 2):
                    nf *= jump_x
            elif kind == "flatlp":
                # ETH and the normalisation factor stand still; only the pool price (premium) moves, i.e. only the
                # composition of LP collateral changes
                prem *= math.exp(rng.gauss(0.004, 0.02))
            else:
                nf *= 1 - rng.uniform(0, 2e-6)
                if rng.random() < 0.03:
                    nf *= 1 - rng.uniform(0, 2e-4)
                prem *= math.exp(rng.gauss(0, 0.0015))
            e = eth
            if kind == "wick" and i % 11 == 7:
                e = eth * 1.35
            osqth_eth = e * nf / 10000 * prem
            rows.append({"norm_factor": W.D(f"{nf:.15g}"), "WETH": W.D(f"{e:.10g}"), "OSQTH": W.D(f"{osqth_eth:.12g}")})
            ticks.append(int(math.floor(math.log(1 / osqth_eth) / W.LOG_1P0001)))
        self.data = pd.DataFrame(rows, index=pd.DatetimeIndex(self.index))
        self.data.index.name = "block_timestamp"
        self.ticks = ticks
        liq = [10 ** rng.uniform(18, 24)] * n
        vols = [(rng.uniform(0, 50) * 1e18, rng.uniform(0, 500) * 1e18) for _ in range(n)]
        self.uni_raw = W.uni_raw(rng, self.index, ticks, ticks[0], liq, vols, "float")


# ------------------------------------------------------------------------------------------------ state
class VS:
    __slots__ = ("coll", "short", "pos", "lp")

    def __init__(self, coll, short, pos, lp):
        self.coll, self.short, self.pos, self.lp = coll, short, pos, lp

    def key(self):
        return (self.coll, self.short, self.pos)


RATIOS = [
    ("0.5", Fraction(1, 2), 1), ("1.0", Fraction(1), 1), ("1.4", Fraction(7, 5), 2), ("1.49", Fraction(149, 100), 2),
    ("1.5-1e-6", Fraction(3, 2) * (1 - Fraction(1, 10**6)), 4), ("1.5-1e-8", Fraction(3, 2) * (1 - Fraction(1, 10**8)), 3),
    ("1.5~band", Fraction(3, 2) * (1 + Fraction(1, 10**11)), 1),
    ("1.5+1e-8", Fraction(3, 2) * (1 + Fraction(1, 10**8)), 3), ("1.5+1e-6", Fraction(3, 2) * (1 + Fraction(1, 10**6)), 5),
    ("1.5+1e-4", Fraction(3, 2) * (1 + Fraction(1, 10**4)), 4), ("1.52", Fraction(152, 100), 4), ("1.6", Fraction(16, 10), 3),
    ("1.8", Fraction(18, 10), 2), ("2", Fraction(2), 2), ("3", Fraction(3), 1), ("10", Fraction(10), 1),
]
DEPOSITS = ["0.3", "0.4999995", "0.5", "0.5000005", "0.6", "0.75", "1", "2.5", "7", "20", "55.5"]


def q18(x: Fraction) -> Decimal:
    """Fraction -> Decimal with 18 places (truncated toward zero)"""
    n = x.numerator * 10**18 // x.denominator if x >= 0 else -((-x.numerator) * 10**18 // x.denominator)
    return Decimal(n).scaleb(-18)


class Case:
    def __init__(self, mon, rng, c):
        self.mon, self.rng, self.c = mon, rng, c
        self.kind = rng.choice(KINDS)
        self.step = rng.choice([1, 1, 1, 5])
        bars = rng.choice([14, 24, 40])
        self.n = bars * self.step
        prem0 = rng.choice([rng.uniform(0.85, 1.0), rng.uniform(1.0, 1.25), rng.uniform(1.0, 1.25), rng.uniform(1.25, 1.6)])
        start = W.T0 + timedelta(minutes=5 * rng.randint(0, 5000))
        self.w = World14(rng, self.n, self.kind, start, prem0)
        self.um, self.sm = self.w.markets()
        self.weth, self.osqth = self.um.pool_info.token0, self.um.pool_info.token1
        idx = self.w.index
        rows = range(0, self.n, self.step)
        self.tab = {
            "WETH": O.TwapTable([(idx[i], self.w.data["WETH"].iloc[i]) for i in rows]),
            "OSQTH": O.TwapTable([(idx[i], self.w.data["OSQTH"].iloc[i]) for i in rows]),
        }
        self.nf = {idx[i]: F(self.w.data["norm_factor"].iloc[i]) for i in rows}
        self.t = None
        self.bar = -1
        self.actions = []
        self.used_ranges = set()
        self.free_pos = []  # LP positions created and not (yet) deposited
        self.tag = f"{self.kind}/{self.step}m"
        self.trace = []
        self.p_op = rng.choice([0.35, 0.6, 0.9])
        self.liq_seen = []
        self.poisoned = False  # a vault went negative (reported once): the rest of the case is outside the generators' domain

    # ------------------------------------------------------------------ plumbing
    def run(self):
        mon = self.mon
        st = Dr.make_script_strategy({("*", "on_bar"): [self.on_bar], ("*", "after_bar"): [self.after_bar]}, self)
        big = Decimal(10) ** 6
        # one wallet in four is funded with WETH only: oSQTH gets its wallet entry when it is first minted
        assets = {self.weth: big} if self.rng.random() < 0.25 else {self.weth: big, self.osqth: big}
        if self.osqth not in assets:
            mon.hit("wallets-without-osqth-entry")
        act = Dr.build_actuator([self.um, self.sm], self.w.prices(), None, assets, st, f"{self.step}min")
        self.broker = act.broker
        cb = self.sm._record_action_callback

        def record(a):
            self.actions.append(a)
            cb(a)

        self.sm._record_action_callback = record
        self.orig_update = self.sm.update
        self.sm.update = self.update_wrapper
        try:
            act.run(False)
        except Exception as e:
            import traceback

            mon.violation("squeeth", "actuator-run", "raises", Dr.reject_site(e), traceback.format_exc()[-1500:], {"case": self.c})
        mon.sample({"kind": self.kind, "interval_min": self.step, "bars": self.n // self.step, "trace": self.trace[:14],
                    "liquidations": self.liq_seen[:4]}, cls=self.tag if not self.liq_seen else self.tag + "/liq")

    def before_bar(self, strategy, snap):  # observer hook of ScriptStrategy
        self.t = snap.timestamp
        self.bar = snap.row_id

    def twap(self, name):
        return self.tab[name].twap(self.t)

    def read(self):
        vaults = {}
        for vk, v in self.sm.vault.items():
            pos = v.uni_nft_id
            lp = None
            if pos is not None:
                lp = self.lp_amounts(pos)
            vaults[vk.id] = VS(F(v.collateral_amount), F(v.osqth_short_amount), pos, lp)
        wallet = (F(G.bal(self.broker, self.weth)), F(G.bal(self.broker, self.osqth)))  # a token never credited has no entry
        return vaults, wallet

    def lp_amounts(self, pos):
        a0, a1 = self.um.get_position_amount(pos)
        p = self.um.positions.get(pos) if hasattr(self.um.positions, "get") else None
        if p is None:
            return (F(a0), F(a1), Fraction(0), Fraction(0))
        return (F(a0), F(a1), F(p.pending_amount0), F(p.pending_amount1))

    def bounds(self, coll, lp):
        """(low, high) effective collateral in ETH under the two readings of pending fees"""
        if lp is None:
            return coll, coll
        nf, tw = self.nf[self.t], self.twap("WETH")
        return coll + O.lp_value(lp[0], lp[1], nf, tw), coll + O.lp_value(lp[0] + lp[2], lp[1] + lp[3], nf, tw)

    def verdicts(self, coll, short, lp):
        """(safe, not_dust) three-valued for a (hypothetical) vault"""
        if short == 0:
            return O.YES, O.YES
        debt = O.debt_value(short, self.nf[self.t], self.twap("WETH"))
        lo, hi = self.bounds(coll, lp)
        band = O.BAND if lp is not None else 0
        return (O.agree(O.is_safe(lo, debt), O.is_safe(hi, debt)),
                O.agree(O.not_dust(lo, debt, band), O.not_dust(hi, debt, band)))

    def ratio_class(self, coll, short, lp):
        if short == 0:
            return "nodebt"
        debt = O.debt_value(short, self.nf[self.t], self.twap("WETH"))
        lo, _ = self.bounds(coll, lp)
        r = lo / debt
        for lim, name in ((Fraction(1), "<1"), (Fraction(147, 100), "<1.47"), (Fraction(3, 2), "1.47-1.5"),
                          (Fraction(153, 100), "1.5-1.53"), (Fraction(2), "<2")):
            if r < lim:
                return name
        return ">=2"

    # ------------------------------------------------------------------ per-bar reads
    def after_bar(self, strategy, snap):
        mon = self.mon
        if self.poisoned:
            return
        rows = self.tab["WETH"].rows_in_window(self.t)
        for name, tok in (("WETH", self.weth), ("OSQTH", self.osqth)):
            want = self.twap(name)
            r = Dr.call_op(self.sm.get_twap_price, tok)
            mon.ev()
            mon.hit("twap-read")
            if not r.ok:
                mon.violation("squeeth", "get_twap_price", "raises", r.site, repr(r.exc))
                continue
            got = F(r.ret)
            if not O.close(got, want, O.BAND):
                mon.violation(
                    "squeeth", "get_twap_price", "geometric-mean-over-7min-window", name,
                    f"{name} at {self.t} ({self.tag}, {rows} rows in window): reported {float(got)!r}, geometric mean of "
                    f"the rows in (t-7min, t] is {float(want)!r} (rel diff {float(abs(got - want) / want):.3e})",
                    {"case": self.c, "bar": self.bar},
                )
        full = 7 if self.step == 1 else 2
        if rows < full:
            mon.hit("twap-short-window")
        mon.nt(f"twap/{self.tag}/rows{rows}")
        mon.cls(f"twap/rows{rows}/{self.step}m")
        self.check_ratio_views("bar")
        self.check_nonneg("bar-end")
        if self.rng.random() < 0.15:
            self.on_bar(strategy, snap, phase="after_bar")

    def check_ratio_views(self, where):
        mon = self.mon
        vaults, _ = self.read()
        nf, tw = self.nf[self.t], self.twap("WETH")
        from demeter.squeeth import VaultKey

        for vid, vs in vaults.items():
            if vs.short == 0:
                continue
            r = Dr.call_op(self.sm.get_collat_ratio_and_liq_price, VaultKey(vid))
            mon.ev()
            mon.hit("ratio-read")
            if not r.ok:
                mon.violation("squeeth", "get_collat_ratio_and_liq_price", "raises", r.site, repr(r.exc))
                continue
            got = F(r.ret[0])
            debt = O.debt_value(vs.short, nf, tw)
            lo, hi = self.bounds(vs.coll, vs.lp)
            if not (lo / debt * (1 - O.BAND) - Fraction(1, 10**27) <= got <= hi / debt * (1 + O.BAND) + Fraction(1, 10**27)):
                mon.violation(
                    "squeeth", "get_collat_ratio_and_liq_price", "ratio-vs-rule", "lp" if vs.pos is not None else "eth-only",
                    f"vault {vid} at {self.t} ({self.tag}): reported ratio {float(got)!r}, collateral/debt value by the rule "
                    f"{float(lo / debt)!r}..{float(hi / debt)!r}", {"case": self.c, "bar": self.bar},
                )

    def check_nonneg(self, where):
        vaults, wallet = self.read()
        for vid, vs in vaults.items():
            self.mon.ev()
            for nm, val in (("collateral", vs.coll), ("short", vs.short)):
                if val < 0:
                    self.poisoned = True
                    self.mon.violation("squeeth", where, "negative-vault-amount", nm,
                                       f"vault {vid} {nm} = {float(val)!r} at {self.t} ({self.tag})", {"case": self.c, "bar": self.bar})

    # ------------------------------------------------------------------ operations
    def on_bar(self, strategy, snap, phase="on_bar"):
        rng = self.rng
        if self.poisoned:
            return
        early = self.bar < 7
        if rng.random() > (0.9 if early and self.bar % 2 == 0 else self.p_op):
            return
        for _ in range(rng.choice([1, 1, 2, 3])):
            if not self.poisoned:
                self.one_op(phase)

    def pick_ratio(self):
        tot = sum(x[2] for x in RATIOS)
        r = self.rng.uniform(0, tot)
        for name, val, wgt in RATIOS:
            r -= wgt
            if r <= 0:
                return name, val
        return RATIOS[-1][0], RATIOS[-1][1]

    def new_lp(self):
        """create an LP position in the oSQTH/WETH pool; returns PositionInfo or None"""
        rng = self.rng
        # a position that came back from a vault (or was never lent) is, some of the time, resized and offered again: the
        # collateral it brings is what it holds now, in the same bar and at the same pool price as before
        back = [k for k, p in self.um.positions.items() if not p.transferred and int(p.liquidity) > 0]
        if back and rng.random() < 0.4:
            pos = rng.choice(back)
            liq = int(self.um.positions[pos].liquidity)
            if rng.random() < 0.7:
                r = Dr.call_op(self.um.remove_liquidity, pos, max(1, liq * rng.choice([30, 60, 90, 99]) // 100), True)
            else:
                r = Dr.call_op(self.um.add_liquidity_by_tick, pos.lower_tick, pos.upper_tick,
                               Decimal(rng.choice(["5", "60"])), Decimal(rng.choice(["1", "12"])))
            if r.ok and pos in self.um.positions and int(self.um.positions[pos].liquidity) > 0:
                self.mon.hit("resized-lp-offered-again")
                return pos, "resized"
        t = int(self.um.market_status.data.closeTick)
        base = (t // 60) * 60
        cls = rng.choice(["wide", "wide", "narrow", "above", "below"])
        if cls == "wide":
            lo, hi = base - 60 * rng.randint(8, 100), base + 60 * rng.randint(8, 100)
        elif cls == "narrow":
            lo, hi = base - 60 * rng.randint(1, 4), base + 60 * rng.randint(2, 5)
        elif cls == "above":
            lo = base + 60 * rng.randint(2, 30)
            hi = lo + 60 * rng.randint(1, 40)
        else:
            hi = base - 60 * rng.randint(2, 30)
            lo = hi - 60 * rng.randint(1, 40)
        if (lo, hi) in self.used_ranges:
            return None, cls
        self.used_ranges.add((lo, hi))
        osq = Decimal(rng.choice(["3", "25", "140"])) * Decimal(str(round(rng.uniform(0.5, 1.5), 6)))
        eth = Decimal(rng.choice(["0.4", "2", "9", "30"])) * Decimal(str(round(rng.uniform(0.5, 1.5), 6)))
        r = Dr.call_op(self.um.add_liquidity_by_tick, lo, hi, osq, eth)
        if not r.ok or int(r.ret[3]) <= 0:
            return None, cls
        return r.ret[0], cls

    def one_op(self, phase):
        from demeter.squeeth import VaultKey

        rng, mon, sm = self.rng, self.mon, self.sm
        pre_v, pre_w = self.read()
        ids = sorted(pre_v)
        with_debt = [i for i in ids if pre_v[i].short > 0]
        menu = []
        if len(ids) < 5:
            menu += ["open"] * 4 + ["open_lp"] * 3 + ["open_by_rate"]
        if ids:
            menu += ["mint"] * 4 + ["deposit", "withdraw", "withdraw", "withdraw", "burn", "burn_withdraw", "withdraw_direct",
                                    "deposit_lp", "deposit_lp"]
        if any(pre_v[i].pos is not None for i in ids):
            menu += ["withdraw_lp"] * 5
        if with_debt and rng.random() < 0.06:
            # the liquidation entry point called directly on a vault that is at least 1.5x collateralised: only a vault below 1.5x
            # may be liquidated, whoever asks
            vid = rng.choice(with_debt)
            v = pre_v[vid]
            safe_v, _ = self.verdicts(v.coll, v.short, v.lp)
            if safe_v == O.YES:
                n_act = len(self.actions)
                res = Dr.call_op(sm.liquidate, VaultKey(vid))
                post_v, post_w = self.read()
                mon.ev()
                mon.hit("liquidate-called-on-safe-vault")
                changed = post_w != pre_w or {i: x.key() for i, x in post_v.items()} != {i: x.key() for i, x in pre_v.items()}
                if res.ok or changed or len(self.actions) != n_act:
                    mon.violation(
                        "squeeth", "liquidate", "safe-vault-liquidated", "direct-call" + ("/lp" if v.lp is not None else "/eth-only"),
                        f"liquidate(vault {vid}) at {self.t} bar {self.bar} ({self.tag}) on a vault the rule calls safe (collateral "
                        f"{float(v.coll)!r} ETH, short {float(v.short)!r}): {'accepted, returned ' + repr(res.ret) if res.ok else repr(res.exc)}; "
                        f"vaults {'changed' if changed else 'unchanged'}, {len(self.actions) - n_act} new action records",
                        {"case": self.c, "bar": self.bar, "trace": self.trace[-4:]})
                    if changed:
                        self.poisoned = True
                return
        kind = rng.choice(menu)
        vid = None
        if kind not in ("open", "open_lp", "open_by_rate"):
            pool = with_debt if (with_debt and rng.random() < 0.8) else ids
            if kind == "withdraw_lp":
                pool = [i for i in ids if pre_v[i].pos is not None]
            if kind == "deposit_lp":
                pool = [i for i in ids if pre_v[i].pos is None] or ids
            vid = rng.choice(pool)
        vs = pre_v[vid] if vid is not None else VS(Fraction(0), Fraction(0), None, None)
        nf, tw = self.nf[self.t], self.twap("WETH")
        unit_debt = nf * tw / O.INDEX_SCALE  # ETH value of one oSQTH of debt
        rname, rval = self.pick_ratio()

        dep = mint = burn = wd = Decimal(0)
        new_pos = None
        lp_cls = "-"
        constrained = True  # does the statement constrain the acceptance of this request?
        call = None
        post = VS(vs.coll, vs.short, vs.pos, vs.lp)
        over = False

        if kind in ("open", "open_lp", "mint", "open_by_rate"):
            if kind != "mint":
                dep = Decimal(rng.choice(DEPOSITS))
                if rng.random() < 0.3:
                    dep = (dep * Decimal(str(round(rng.uniform(0.8, 1.6), 6)))).quantize(Q18)
            elif rng.random() < 0.3:
                dep = Decimal(rng.choice(DEPOSITS))
            if kind == "open_lp" or (kind == "mint" and vs.pos is None and rng.random() < 0.15):
                new_pos, lp_cls = self.new_lp()
                if new_pos is None and kind == "open_lp":
                    return
                if kind == "open_lp" and rng.random() < 0.4:
                    dep = Decimal(0)
                pre_v, pre_w = self.read()  # the LP purchase moved the wallet
            post.coll = vs.coll + F(dep)
            if new_pos is not None:
                post.pos, post.lp = new_pos, self.lp_amounts(new_pos)
            lo, hi = self.bounds(post.coll, post.lp)
            if kind == "open_by_rate":
                rate = q18(rval)
                call = lambda: sm.open_deposit_mint_by_collat_rate(dep, rate, None)  # noqa: E731
                mint_pred = F(dep) / F(rate) / unit_debt
                post.short = vs.short + mint_pred
                # the amount is computed by the code from its own float TWAP: the verdict is only demanded outside the band
            else:
                target_short = lo / (rval * unit_debt)
                m = target_short - vs.short
                if m <= 0 or rng.random() < 0.08:
                    m = Fraction(0) if rng.random() < 0.5 else Fraction(rng.randint(1, 10**6), 10**7) * max(target_short, Fraction(1, 100))
                mint = q18(m)
                post.short = vs.short + F(mint)
                key = VaultKey(vid) if vid is not None else None
                call = lambda: sm.open_deposit_mint(dep, mint, key, new_pos)  # noqa: E731
                if mint == 0:
                    constrained = False  # a pure deposit
            if dep == 0 and mint == 0 and new_pos is None and kind != "open_by_rate":
                return
        elif kind == "deposit":
            dep = Decimal(rng.choice(DEPOSITS))
            post.coll = vs.coll + F(dep)
            constrained = False
            call = lambda: sm.deposit(VaultKey(vid), dep)  # noqa: E731
        elif kind == "deposit_lp":
            if vs.pos is not None:
                return
            new_pos, lp_cls = self.new_lp()
            if new_pos is None:
                return
            pre_v, pre_w = self.read()
            post.pos, post.lp = new_pos, self.lp_amounts(new_pos)
            constrained = False
            call = lambda: sm.deposit_uni_position(VaultKey(vid), new_pos)  # noqa: E731
        elif kind in ("withdraw", "withdraw_direct", "burn", "burn_withdraw"):
            lo, hi = self.bounds(vs.coll, vs.lp)
            if kind in ("burn", "burn_withdraw"):
                b = vs.short * Fraction(rng.choice([1, 10, 50, 100, 100, 130]), 100)
                burn = q18(b)
                if burn == 0:
                    burn = Decimal(rng.choice(["0.5", "3"]))
            eff_burn = min(F(burn), vs.short)
            if F(burn) > vs.short:
                over = True
            post.short = vs.short - eff_burn
            if kind != "burn":
                debt_after = post.short * unit_debt
                w = lo - rval * debt_after
                mode = rng.random()
                if post.short == 0 or w <= 0 or w > vs.coll or mode < 0.15:
                    w = vs.coll * Fraction(rng.choice([5, 30, 70, 100, 100, 120]), 100)
                wd = q18(w)
                if kind == "withdraw_direct" and rng.random() < 0.3:
                    wd = None
                eff_w = vs.coll if wd is None else min(F(wd), vs.coll)
                if wd is not None and F(wd) > vs.coll:
                    over = True
                post.coll = vs.coll - eff_w
                if wd is not None and wd == 0:
                    return
            else:
                constrained = False  # a pure burn
            if kind == "withdraw_direct":
                call = lambda: sm._withdraw_collateral(VaultKey(vid), wd)  # noqa: E731
            else:
                call = lambda: sm.burn_and_withdraw(VaultKey(vid), burn, wd)  # noqa: E731
        elif kind == "withdraw_lp":
            post.pos, post.lp = None, None
            call = lambda: sm.withdraw_uni_position(VaultKey(vid), vs.pos)  # noqa: E731

        has_lp = post.lp is not None or vs.lp is not None
        safe_v, dust_v = self.verdicts(post.coll, post.short, post.lp)
        expect = O.both(safe_v, dust_v)
        # an operation that needs (nearly) more WETH / oSQTH than the wallet holds may be refused for that, and the wallet's
        # dust rule (Asset.sub: a remainder under 1e-5 of the balance is dropped) may round what it moves: no verdict on
        # acceptance, no exact-move check (C03/C04 own wallet shortage)
        need_weth = F(dep) if dep else Fraction(0)
        need_osq = min(F(burn), vs.short) if burn else Fraction(0)
        wallet_bound = need_weth > pre_w[0] * (1 - Fraction(1, 10**4)) or need_osq > pre_w[1] * (1 - Fraction(1, 10**4))
        if wallet_bound:
            expect = O.EITHER
            mon.hit("wallet-bound-ops")
        if kind == "open_by_rate":
            # amount chosen by the code: demand a verdict only when it is far from both lines
            far = self.verdicts(post.coll, post.short * (1 + Fraction(1, 10**6)), post.lp), self.verdicts(post.coll, post.short * (1 - Fraction(1, 10**6)), post.lp)
            if O.both(*far[0]) != expect or O.both(*far[1]) != expect:
                expect = O.EITHER
        n_act = len(self.actions)
        res = Dr.call_op(call)
        post_v, post_w = self.read()
        new_ids = [i for i in post_v if i not in pre_v]
        lpflag = "lp" if has_lp else "eth-only"
        debtflag = "debt" if (vs.short > 0 or post.short > 0) else "nodebt"
        verdict = "accepted" if res.ok else "rejected"
        rcls = self.ratio_class(post.coll, post.short, post.lp) if debtflag == "debt" else "nodebt"
        rows = self.tab["WETH"].rows_in_window(self.t)
        mon.ev()
        mon.cls(f"op/{kind}/{verdict}/{expect if constrained else 'free'}")
        mon.hit("op-accepted" if res.ok else "op-rejected")
        if has_lp:
            mon.hit("lp-vault-op")
        if constrained and expect == O.YES:
            mon.hit("frontier-must-accept")
        if constrained and expect == O.NO:
            mon.hit("frontier-must-reject")
        if constrained and kind == "withdraw_lp" and expect != O.EITHER:
            mon.hit("withdraw_lp-decided")
        if debtflag == "debt":
            mon.nt(f"{kind}/{lpflag}/{lp_cls}/{rname if kind not in ('deposit', 'deposit_lp', 'burn', 'withdraw_lp') else '-'}/{verdict}/"
                   f"{expect}/{rcls}/{self.tag}/w{rows}/{'over' if over else ''}/{phase[0]}")
        self.trace.append((self.bar, phase, kind, vid, str(dep), str(mint), str(burn), str(wd), lp_cls, rname, verdict, expect))
        detail_head = (f"{kind} on vault {vid if vid is not None else 'new'} at {self.t} bar {self.bar} ({self.tag}, {rows} rows in TWAP window): "
                       f"deposit {dep} mint {mint} burn {burn} withdraw {wd} lp {new_pos if new_pos is not None else vs.pos}; ")

        if not res.ok:
            if constrained and expect == O.YES:
                lo, hi = self.bounds(post.coll, post.lp)
                debt = post.short * unit_debt
                mon.violation(
                    "squeeth", kind, "rejected-although-rule-holds", f"{lpflag}:{res.site}",
                    detail_head + f"afterwards collateral {float(lo)!r} ETH vs debt value {float(debt)!r} ETH "
                    f"(ratio {float(lo / debt) if debt else 'inf'!r}) and >= 0.5 ETH, yet rejected: {res.exc!r}",
                    {"case": self.c, "bar": self.bar, "trace": self.trace[-4:]},
                )
            elif res.site and not isinstance(res.exc, (RuntimeError, AssertionError)):
                mon.violation("squeeth", kind, "raises", f"{type(res.exc).__name__}:{res.site}", detail_head + repr(res.exc))
            # a refused request moves no oSQTH and no ETH (C04 owns atomicity in general; the amounts are this property's)
            # (not for withdraw_direct: that drives the private _withdraw_collateral, whose callers wrap it in a transaction)
            mon.ev()
            if kind != "withdraw_direct" and (post_w != pre_w or {i: v.key() for i, v in post_v.items()} != {i: v.key() for i, v in pre_v.items()}):
                mon.violation(
                    "squeeth", kind, "moved-amount-on-refused-request", f"{lpflag}:{res.site}",
                    detail_head + f"refused ({res.exc!r}) but wallet (WETH, oSQTH) went {tuple(float(x) for x in pre_w)} -> "
                    f"{tuple(float(x) for x in post_w)}, vaults {sorted(pre_v)} -> {sorted(post_v)}",
                    {"case": self.c, "bar": self.bar, "trace": self.trace[-4:]},
                )
            return  # state re-read at the next operation

        # ---- accepted
        tgt = vid if vid is not None else (new_ids[0] if len(new_ids) == 1 else None)
        if vid is None and len(new_ids) != 1:
            mon.violation("squeeth", kind, "new-vault-count", "", detail_head + f"{len(new_ids)} vaults appeared")
            return
        act = post_v[tgt]
        if constrained:
            mon.ev()
            if expect == O.NO:
                clause = "accepted-below-1.5x" if safe_v == O.NO else "accepted-under-0.5-eth"
                lo, hi = self.bounds(post.coll, post.lp)
                debt = post.short * unit_debt
                mon.violation(
                    "squeeth", kind, clause, lpflag,
                    detail_head + f"accepted although afterwards collateral {float(hi)!r} ETH vs debt value {float(debt)!r} ETH "
                    f"(ratio {float(hi / debt) if debt else 'inf'!r}; TWAP ETH {float(tw)!r}, nf {float(nf)!r})",
                    {"case": self.c, "bar": self.bar, "trace": self.trace[-4:]},
                )
            # the invariant on the state actually reached
            a_safe, a_dust = self.verdicts(act.coll, act.short, act.lp)
            mon.ev()
            if expect != O.NO and (a_safe == O.NO or a_dust == O.NO):
                lo, hi = self.bounds(act.coll, act.lp)
                debt = act.short * unit_debt
                mon.violation(
                    "squeeth", kind, "state-after-accept-below-1.5x" if a_safe == O.NO else "state-after-accept-under-0.5-eth", lpflag,
                    detail_head + f"vault after the accepted call: collateral {float(hi)!r} ETH, debt value {float(debt)!r} ETH",
                    {"case": self.c, "bar": self.bar},
                )
        # ---- exact moves
        d_coll, d_short = act.coll - vs.coll, act.short - vs.short
        d_weth, d_osq = post_w[0] - pre_w[0], post_w[1] - pre_w[1]
        if kind == "open_by_rate":
            minted = F(res.ret[1])
            stated = {"coll": F(dep), "short": minted}
            mon.ev()
            if not O.close(minted, post.short - vs.short, Fraction(1, 10**8)):
                mon.violation("squeeth", kind, "mint-amount-for-rate", "", detail_head + f"minted {float(minted)!r}, deposit/rate at the index price gives {float(post.short - vs.short)!r}")
        else:
            stated = {"coll": F(dep) - (vs.coll if wd is None else F(wd)) if kind != "withdraw_lp" else Fraction(0),
                      "short": F(mint) - F(burn)}
        checks = [("vault-collateral", d_coll, stated["coll"]), ("vault-short", d_short, stated["short"]),
                  ("wallet-weth", d_weth, -stated["coll"]), ("wallet-osqth", d_osq, stated["short"])]
        for nm, got, want in checks:
            mon.ev()
            if over or wallet_bound:
                continue
            if not O.close(got, want, AMT_REL):
                mon.violation(
                    "squeeth", kind, "moved-amount", nm,
                    detail_head + f"{nm} moved by {float(got)!r}, stated {float(want)!r} (diff {float(got - want):.3e})",
                    {"case": self.c, "bar": self.bar},
                )
        if over and not wallet_bound:
            mon.ev()
            ok = (O.close(d_coll, -d_weth, AMT_REL) and O.close(d_short, d_osq, AMT_REL)
                  and -d_coll <= (F(wd) if wd is not None else vs.coll) + Fraction(1, 10**27) and -d_short <= F(burn) + Fraction(1, 10**27))
            if not ok:
                mon.violation("squeeth", kind, "over-request-conservation", "",
                              detail_head + f"vault moved ({float(d_coll)!r} ETH, {float(d_short)!r} oSQTH), wallet ({float(d_weth)!r}, {float(d_osq)!r})")
        # LP bookkeeping
        mon.ev()
        want_pos = post.pos
        if act.pos != want_pos:
            mon.violation("squeeth", kind, "vault-lp-field", "", detail_head + f"vault LP is {act.pos}, expected {want_pos}")
        for p, flag in ((new_pos, True), (vs.pos if kind == "withdraw_lp" else None, False)):
            if p is not None and p in self.um.positions and bool(self.um.positions[p].transferred) != flag:
                mon.violation("squeeth", kind, "lp-transfer-flag", "", detail_head + f"position {p} transferred={self.um.positions[p].transferred}")
        # other vaults untouched
        for i, o in pre_v.items():
            if i != tgt and post_v.get(i) is not None and post_v[i].key() != o.key():
                mon.violation("squeeth", kind, "other-vault-changed", "", detail_head + f"vault {i} changed too")
        for i, v in post_v.items():
            if v.coll < 0 or v.short < 0:
                self.poisoned = True
                mon.violation("squeeth", kind, "negative-vault-amount", "collateral" if v.coll < 0 else "short",
                              detail_head + f"vault {i}: collateral {float(v.coll)!r}, short {float(v.short)!r}")
        if act.short > 0:
            self.check_ratio_views("op")

    # ------------------------------------------------------------------ bar end
    def update_wrapper(self):
        mon = self.mon
        if self.poisoned:
            return self.orig_update()
        pre_v, pre_w = self.read()
        n_act = len(self.actions)
        exc = None
        try:
            self.orig_update()
        except Exception as e:  # noqa
            exc = e
        post_v, post_w = self.read()
        new = self.actions[n_act:]
        if exc is not None:
            mon.violation("squeeth", "update", "raises", f"{type(exc).__name__}:{Dr.reject_site(exc)}",
                          f"update() at {self.t} ({self.tag}) raised {exc!r}; vaults before: "
                          f"{ {i: (float(v.coll), float(v.short), str(v.pos)) for i, v in pre_v.items()} }", {"case": self.c, "bar": self.bar})
            return
        nf, tw_e, tw_o = self.nf[self.t], self.twap("WETH"), self.twap("OSQTH")
        exp_osq = Fraction(0)
        for vid, vs in pre_v.items():
            ps = post_v.get(vid)
            mon.ev()
            if ps is None:
                mon.violation("squeeth", "update", "vault-disappeared", "", f"vault {vid} at {self.t}")
                continue
            debt = O.debt_value(vs.short, nf, tw_e)
            lo, hi = self.bounds(vs.coll, vs.lp)
            safe = O.agree(O.is_safe(lo, debt), O.is_safe(hi, debt))
            recs = [a for a in new if getattr(a, "vault_id", None) == vid]
            rd = [a for a in recs if type(a).__name__ == "ReduceDebtAction"]
            lq = [a for a in recs if type(a).__name__ == "LiquidationAction"]
            changed = ps.key() != vs.key()
            lpflag = "lp" if vs.pos is not None else "eth-only"
            head = (f"vault {vid} at bar end {self.t} bar {self.bar} ({self.tag}): before collateral {float(vs.coll)!r} ETH"
                    f"{' + LP ' + str(tuple(float(x) for x in vs.lp)) if vs.lp else ''}, short {float(vs.short)!r}, effective collateral "
                    f"{float(lo)!r}, debt value {float(debt)!r} (ratio {float(lo / debt) if debt else 'inf'!r}); after collateral "
                    f"{float(ps.coll)!r}, short {float(ps.short)!r}, LP {ps.pos}; ")
            data = {"case": self.c, "bar": self.bar}
            if safe == O.YES:
                mon.hit("bar-end-safe")
                if changed or recs:
                    mon.violation("squeeth", "update", "liquidated-although-safe", lpflag, head + f"records {[type(a).__name__ for a in recs]}", data)
                elif vs.short > 0:
                    rc = self.ratio_class(vs.coll, vs.short, vs.lp)
                    mon.cls(f"bar/safe/{rc}")
                    if rc == "1.5-1.53":
                        mon.nt(f"bar/safe-near/{lpflag}/{self.tag}")
                continue
            if safe == O.EITHER:
                mon.cls("bar/in-band")
                if not changed and not recs:
                    continue
            elif not changed and not recs:
                mon.violation("squeeth", "update", "unsafe-not-liquidated", lpflag, head, data)
                continue
            mon.hit("liquidation")
            cur_coll, cur_short, bounty = vs.coll, vs.short, Fraction(0)
            stage_kind = []
            # ---------------- stage 1: LP redeemed
            if vs.pos is not None:
                mon.ev()
                mon.hit("reduce-debt")
                if len(rd) != 1:
                    mon.violation("squeeth", "update", "reduce-debt-record-count", str(len(rd)), head, data)
                    continue
                a = rd[0]
                eth_r, osq_r = vs.lp[0] + vs.lp[2], vs.lp[1] + vs.lp[3]
                got = {"withdrawn_eth": F(a.withdrawn_eth_amount), "withdrawn_osqth": F(a.withdrawn_osqth_amount), "burn": F(a.burn_amount),
                       "excess": F(a.excess), "bounty": F(a.bounty), "short_after": F(a.short_amount_after), "collateral_after": F(a.collateral_after)}

                def model(e, o):
                    outs = []
                    for P in (tw_o, nf * tw_e / O.INDEX_SCALE):
                        c1, s1, b, x, bo = O.reduce_debt(vs.coll, vs.short, e, o, P)
                        outs.append({"withdrawn_eth": e, "withdrawn_osqth": o, "burn": b, "excess": x, "bounty": bo, "short_after": s1, "collateral_after": c1})
                        if c1 < 0:  # 2 % bounty > what the vault holds: the bounty may stop at the vault's collateral
                            outs.append({"withdrawn_eth": e, "withdrawn_osqth": o, "burn": b, "excess": x, "bounty": bo + c1, "short_after": s1, "collateral_after": Fraction(0)})
                    return outs

                def mism(m):
                    bad = []
                    for k, v in m.items():
                        rel = O.BAND if k in ("bounty", "collateral_after") else LP_REL
                        if not O.close(got[k], v, rel, Fraction(1, 10**15)):
                            bad.append(k)
                    return bad

                bad = min((mism(m) for m in model(eth_r, osq_r)), key=len)
                if bad:
                    swapped = min((mism(m) for m in model(osq_r, eth_r)), key=len)
                    if not swapped:
                        mon.violation(
                            "squeeth", "update", "reduce-debt:lp-eth-and-osqth-amounts-swapped", "_redeem_uni_token",
                            head + f"the LP held {float(eth_r)!r} ETH and {float(osq_r)!r} oSQTH; the record says withdrawn_eth "
                            f"{float(got['withdrawn_eth'])!r}, withdrawn_osqth {float(got['withdrawn_osqth'])!r}, burn {float(got['burn'])!r}, "
                            f"collateral_after {float(got['collateral_after'])!r}: the oSQTH amount was credited as ETH collateral and the "
                            f"ETH amount burned as debt", data)
                    else:
                        mon.violation("squeeth", "update", "reduce-debt-amounts", ",".join(bad),
                                      head + f"LP held {float(eth_r)!r} ETH, {float(osq_r)!r} oSQTH; record {({k: float(v) for k, v in got.items()})}", data)
                exp_osq += got["excess"]
                cur_coll, cur_short, bounty = got["collateral_after"], got["short_after"], got["bounty"]
                stage_kind.append("reduce-excess" if got["excess"] > 0 else "reduce")
                debt1 = O.debt_value(cur_short, nf, tw_e)
                safe1 = O.is_safe(cur_coll, debt1)
                mon.ev()
                if safe1 == O.YES and lq:
                    mon.violation("squeeth", "update", "liquidated-although-safe-after-lp-redemption", "", head, data)
                    continue
                if safe1 == O.NO and not lq:
                    mon.violation("squeeth", "update", "unsafe-after-lp-redemption-not-liquidated", "", head, data)
                    continue
                if not lq:
                    stage_kind.append("safe")
            elif rd:
                mon.violation("squeeth", "update", "reduce-debt-without-lp", "", head, data)
                continue
            # ---------------- stage 2
            if lq or vs.pos is None:
                mon.ev()
                if len(lq) != 1:
                    mon.violation("squeeth", "update", "liquidation-record-count", str(len(lq)), head, data)
                    continue
                a = lq[0]
                start = cur_coll + bounty
                burn, pay = F(a.liquidate_amount), F(a.collateral_to_pay)
                cands = O.liquidation_candidates(start, cur_short, tw_o)
                hit = [k for k, cb, cp in cands if O.close(burn, cb, AMT_REL) and O.close(pay, cp, O.BAND)]
                if not hit:
                    k, cb, cp = cands[0]
                    field = "burn" if not O.close(burn, cb, AMT_REL) else "payment"
                    mon.violation(
                        "squeeth", "update", "liquidation-amounts", f"{k}:{field}",
                        head + f"from collateral {float(start)!r}, short {float(cur_short)!r}, TWAP oSQTH {float(tw_o)!r}: burned "
                        f"{float(burn)!r}, paid {float(pay)!r}; rule gives {[(k, float(b), float(p)) for k, b, p in cands]}", data)
                else:
                    stage_kind.append(hit[0])
                    mon.hit("liq-" + hit[0])
                mon.ev()
                if not (O.close(F(a.short_amount_after), cur_short - burn, AMT_REL) and O.close(F(a.collateral_after), start - pay, AMT_REL)):
                    mon.violation("squeeth", "update", "liquidation-record-after-values", "",
                                  head + f"record after-values ({float(F(a.collateral_after))!r}, {float(F(a.short_amount_after))!r}) != start - moved "
                                  f"({float(start - pay)!r}, {float(cur_short - burn)!r})", data)
                cur_coll, cur_short = F(a.collateral_after), F(a.short_amount_after)
            # ---------------- final state = what the records say
            mon.ev()
            if not (O.close(ps.coll, cur_coll, AMT_REL) and O.close(ps.short, cur_short, AMT_REL)):
                mon.violation("squeeth", "update", "final-state-vs-records", "",
                              head + f"records end at collateral {float(cur_coll)!r}, short {float(cur_short)!r}", data)
            if vs.pos is not None and ps.pos is not None:
                mon.violation("squeeth", "update", "lp-still-in-vault-after-redemption", "", head, data)
            if ps.coll < 0 or ps.short < 0:
                self.poisoned = True
                mon.violation("squeeth", "update", "negative-vault-amount", ("collateral" if ps.coll < 0 else "short") + ":after-" + "+".join(stage_kind), head, data)
            sk = "+".join(stage_kind)
            mon.cls(f"liq/{sk}")
            mon.nt(f"liq/{sk}/{lpflag}/{self.tag}/{self.ratio_class(vs.coll, vs.short, vs.lp)}/v{min(len(pre_v), 3)}")
            self.liq_seen.append({"bar": self.bar, "vault": vid, "stages": sk, "before": [str(float(vs.coll)), str(float(vs.short)), str(vs.pos)],
                                  "after": [str(float(ps.coll)), str(float(ps.short))]})
        # wallet: only the oSQTH excess of redeemed LPs arrives
        mon.ev()
        if not O.close(post_w[0], pre_w[0], AMT_REL):
            mon.violation("squeeth", "update", "wallet-changed", "weth", f"bar end {self.t}: WETH wallet moved by {float(post_w[0] - pre_w[0])!r}")
        if not O.close(post_w[1] - pre_w[1], exp_osq, AMT_REL):
            mon.violation("squeeth", "update", "wallet-changed", "osqth",
                          f"bar end {self.t}: oSQTH wallet moved by {float(post_w[1] - pre_w[1])!r}, excess of redeemed LPs {float(exp_osq)!r}")
