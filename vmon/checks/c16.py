"""C16 — options settle once at expiry with intrinsic payoff net of the delivery fee.

Offline checker (vmon/oracles/deribit_settle.py) over a per-bar event log (cash, positions, operation attempts,
recorded actions) of the real DeribitOptionMarket driven through the real Actuator: next to a minutely / 5-minutely
Uniswap co-market, and alone (bars = book hours, explicit 1 h, explicit 4 h).  Positions are created by real buys
on open bars; buys and sells are attempted on every bar."""
import traceback
from datetime import timedelta
from decimal import Decimal
from fractions import Fraction

import pandas as pd

from .. import drive as Dr
from .. import worlds as W
from ..oracles import deribit_settle as O

ID = "C16"
META = {
    "level": "exploration",
    "rule": "a case = one backtest through Actuator.run over a generated hourly book (2-6 calls/puts, strikes placed "
    "around the underlying of their settlement bar: deep ITM, ITM, payoff~fee, exactly ATM, OTM; expiries on the hour, "
    "between hours, before the first bar, after the last, in a missing hour; instruments delisted before/at/after expiry) "
    "with buys/sells attempted in before_bar/on_bar/after_bar of every bar. Evaluations = clause comparisons of the log "
    "checker (carry-over between bars, every held position across update(), cash across update(), record counts, payoff "
    "band, every trade attempt on a closed bar). Non-trivial = a settlement (position removed by update()); distinct by "
    "(token, run mode, kind, moneyness class, fee branch, underlying source, expiry-vs-grid class, positions settled in "
    "that bar).",
    "assumptions": [
        "'open bar' for settlement = bar on the hour grid; an on-hour bar whose book has no rows at all may settle or not (either accepted)",
        "'open' for trades = on the hour grid and the book has rows for that hour",
        "underlying = the instrument's own book row at the settlement bar; instrument absent from that book: the price frame, "
        "and the fee may be anything in [0, min(0.015% x contracts, 12.5% x payoff)] (no mark to value the option)",
        "option value = contracts x mark price of the settlement bar's book",
        "rounding to the token's fee step (ETH 1e-6, BTC 1e-8) of mark, payoff and fee is allowed: half a step each, "
        "plus 1e-12 per contract for the double division in the code",
        "strikes are integers (declared type); the price frame equals the book's first underlying on the hour",
        "explicit 4 h interval: starts on a 4 h boundary, instruments are listed without holes, bin-start hours are never missing "
        "(otherwise resample().first() invents NaN rows / later rows; not this property's subject)",
        "the effect of accepted buys/sells on cash and positions is taken as observed (C15's subject)",
        "a Deliver record whose income is exactly 0 (payoff equal to the fee) counts as 'pays nothing'; the statement speaks of the "
        "payout, not of the record",
        "a generated book without a single row (every hour missing) is no market: the world is drawn again",
    ],
}
NSHARDS = 16
T0 = W.T0
MODES = ("co1", "co5", "alone", "alone1h", "alone4h")
# one block of the per-shard schedule: cost-balanced (a co1 run is ~10x an alone run)
BLOCK = ("co1", "alone", "alone1h", "alone4h", "co5", "alone", "alone1h", "alone4h", "co5", "alone", "alone4h", "alone1h")
MONEY = ("deep-itm", "extreme-itm", "itm", "thin-flat", "thin-flat", "thin-cap", "thin-cap", "atm", "otm", "otm-near", "deep-otm")
PHASES3 = ("before_bar", "on_bar", "after_bar")


def plan(tier, seed):
    n = 160 if tier == "quick" else 1560
    return [{"shard": i, "cases": n} for i in range(NSHARDS)]


# ------------------------------------------------------------------------------------------------ world
def _r(x, nd=4):
    return float(f"{x:.{nd}f}")


class EmptyBook(Exception):
    """the draw produced a book without a single row (outside the domain: a market needs data); drawn again."""


class World:
    """Raw hourly book + price frame.  rows[(datetime, name)] = (underlying float, mark float) as written to the book."""

    def __init__(self, rng, mode):
        self.mode = mode
        self.token = token = rng.choice(("ETH", "ETH", "BTC"))
        step_h = 4 if mode == "alone4h" else 1
        self.interval_hours = step_h
        if mode == "co1":
            H = rng.randint(3, 6)
        elif mode == "co5":
            H = rng.randint(4, 12)
        elif mode == "alone4h":
            H = rng.choice([12, 13, 16, 24, 30, 48])
        else:
            H = rng.randint(4, 30)
        h0 = rng.choice([0, 0, 4, 8, 20]) if mode == "alone4h" else rng.choice([0, 0, 3, 7, 13, 22])
        start = T0 + timedelta(hours=h0)
        self.hours = hours = [start + timedelta(hours=i) for i in range(H)]
        # whole hours missing from the book
        missing = set()
        if rng.random() < 0.35:
            cands = [i for i in range(H) if not (mode == "alone4h" and i % 4 == 0)]
            if mode in ("alone", "alone1h"):
                cands = [i for i in cands if 0 < i]
            for i in rng.sample(cands, min(len(cands), rng.choice([1, 1, 2, 3]))):
                missing.add(i)
            if mode.startswith("co") and rng.random() < 0.3:
                missing.add(0)  # the book starts later than the co-market
        self.missing = missing
        bar_hours = [i for i in range(H) if i % step_h == 0]
        # underlying path per hour
        u = rng.uniform(1200, 4500) if token == "ETH" else rng.uniform(18000, 90000)
        vol = rng.choice([0.002, 0.01, 0.03])
        U = []
        for _ in range(H):
            u *= 2.718281828 ** rng.gauss(0, vol)
            U.append(_r(u, rng.choice([2, 2, 4])))
        self.per_instr = rng.random() < 0.5
        n_ins = rng.randint(2, 6)
        specs = []
        for j in range(n_ins):
            kind = rng.choice(("CALL", "PUT"))
            ec = rng.choice(("on-hour", "on-hour", "on-hour", "between", "between", "first-bar", "before", "last-bar", "after",
                             "missing-hour"))
            if ec == "missing-hour" and not missing:
                ec = "on-hour"
            if ec == "on-hour":
                exp = start + timedelta(hours=rng.randint(1, H - 1))
            elif ec == "between":
                exp = start + timedelta(hours=rng.randint(0, max(0, H - 2)), minutes=rng.choice([1, 30, 30, 59]))
            elif ec == "first-bar":
                exp = start
            elif ec == "before":
                exp = start - rng.choice([timedelta(minutes=1), timedelta(minutes=30), timedelta(hours=1), timedelta(hours=9)])
            elif ec == "last-bar":
                exp = hours[-1]
            elif ec == "after":
                exp = hours[-1] + rng.choice([timedelta(minutes=1), timedelta(hours=1), timedelta(hours=31)])
            else:
                exp = hours[rng.choice(sorted(missing))]
            # hour at which the rule settles it (design only): first bar hour >= expiry
            si = None
            for i in bar_hours:
                if hours[i] >= exp and not (i in missing and mode != "alone1h" and not mode.startswith("co")):
                    si = i
                    break
            # listing: index of the last hour with a row
            if si is None:
                last = H - 1
                listing = "through"
            else:
                listing = rng.choice(("through", "through", "linger", "vanish-at-settle", "vanish-at-settle", "vanish-early"))
                if listing == "through":
                    last = H - 1
                elif listing == "linger":
                    last = min(H - 1, si + rng.randint(0, 2) * step_h)
                elif listing == "vanish-at-settle":
                    last = si - 1
                else:
                    last = si - 1 - rng.randint(1, 2)
                if last < 0:  # never listed: cannot be bought; keep it listed instead
                    last, listing = H - 1, "through"
            specs.append({"kind": kind, "expiry": exp, "si": si, "last": last, "listing": listing, "eclass": ec,
                          "money": rng.choice(MONEY)})
        # instruments that fall back to the price frame get the anchor of their hour first
        order = sorted(range(n_ins), key=lambda j: (0 if specs[j]["si"] is not None and specs[j]["last"] < specs[j]["si"] else 1, j))
        anchored = set()
        names = set()
        self.instruments = {}
        own_S = {}
        for j in order:
            sp = specs[j]
            sign = 1 if sp["kind"] == "CALL" else -1  # S - K = sign * d
            si = sp["si"] if sp["si"] is not None else rng.randrange(H)
            Sref = U[si]
            mark_design = None
            mny = sp["money"]
            if mny == "deep-itm":
                d = Sref * rng.uniform(0.05, 0.3)
            elif mny == "extreme-itm":
                # a put whose strike is a multiple of the underlying pays more than one coin per contract ((K-S)/S > 1);
                # a call can at most approach one coin (strike near zero)
                d = Sref * (rng.uniform(1.0, 3.0) if sp["kind"] == "PUT" else rng.uniform(0.5, 0.99))
            elif mny == "itm":
                d = Sref * rng.uniform(0.002, 0.05)
            elif mny == "thin-flat":
                d = Sref * 0.00015 * rng.choice([0.5, 0.9, 0.99, 1.0, 1.01, 1.1, 1.5, 2.0, rng.uniform(0.3, 3)])
                mark_design = rng.choice([0.002, 0.0013, 0.01, 0.05])
            elif mny == "thin-cap":
                mark_design = rng.choice([0.0001, 0.0004, 0.001, 0.00043217, 0.0000005, 0.0000014])
                d = Sref * 0.125 * mark_design * rng.choice([0.5, 0.9, 1.0, 1.1, 1.5, 2.0, 4.0, rng.uniform(0.3, 3)])
            elif mny == "atm":
                d = 0.0
            elif mny == "otm-near":
                d = -Sref * rng.uniform(0.000001, 0.0005)
            elif mny == "otm":
                d = -Sref * rng.uniform(0.0005, 0.05)
            else:
                d = -Sref * rng.uniform(0.05, 0.3)
            K = max(1, int(round(Sref - sign * d)))
            while True:
                name = f"{token}-{sp['expiry'].strftime('%d%b%y').upper()}-{K}-{'C' if sp['kind'] == 'CALL' else 'P'}"
                if name not in names:
                    break
                K += 1
            names.add(name)
            S_design = _r(K + sign * d, 4)
            if S_design <= 0:
                S_design = float(K)
            if sp["si"] is not None and sp["si"] not in anchored:
                anchored.add(sp["si"])
                U[sp["si"]] = S_design
            elif sp["si"] is not None and self.per_instr:
                own_S[(name, sp["si"])] = S_design
            sp["name"] = name
            sp["strike"] = K
            sp["mark_design"] = mark_design
            self.instruments[name] = {"kind": sp["kind"], "strike": K, "expiry": sp["expiry"], "listing": sp["listing"],
                                      "eclass": sp["eclass"], "design": mny}
        self.U = U
        # rows
        self.rows = {}
        recs = []
        tv = {sp["name"]: rng.uniform(0.002, 0.05) for sp in specs}
        float_sizes = rng.random() < 0.3
        for i, h in enumerate(hours):
            if i in missing:
                continue
            for sp in specs:
                if i > sp["last"]:
                    continue
                name, K = sp["name"], sp["strike"]
                S = own_S.get((name, i), U[i])
                if self.per_instr and (name, i) not in own_S and sp["si"] != i:
                    S = _r(U[i] * (1 + rng.uniform(-0.002, 0.002)), 2)
                intrinsic = max(0.0, (S - K) / S) if sp["kind"] == "CALL" else max(0.0, (K - S) / S)
                if sp["si"] is not None and i >= sp["si"]:
                    if sp["mark_design"] is not None:
                        mark = sp["mark_design"]
                    else:
                        mark = intrinsic + rng.choice([0.0, 0.0003, 0.002, 0.01])
                        mark = max(mark, 0.0001)
                else:
                    mark = intrinsic + tv[name] * rng.uniform(0.5, 1.0)
                mark = _r(mark, rng.choice([4, 6, 6, 8]))
                if mark <= 0:
                    mark = 0.0001
                base = float(Decimal(str(mark)).quantize(Decimal("0.0001"), rounding="ROUND_CEILING"))
                asks, bids = [], []
                p = base
                for _ in range(rng.randint(1, 5)):
                    p = round(p + 0.0001 * rng.randint(0 if not asks else 1, 5), 4)
                    asks.append([p, self._size(rng, float_sizes)])
                p = float(Decimal(str(mark)).quantize(Decimal("0.0001"), rounding="ROUND_FLOOR"))
                for _ in range(rng.randint(0, 4)):
                    p = round(p - 0.0001 * rng.randint(0 if not bids else 1, 5), 4)
                    if p <= 0:
                        break
                    bids.append([p, self._size(rng, float_sizes)])
                state = "open" if rng.random() < 0.93 else "closed"
                self.rows[(h, name)] = (S, mark)
                recs.append({
                    "time": pd.Timestamp(h), "instrument_name": name, "state": state, "type": sp["kind"],
                    "strike_price": K, "t": pd.Timedelta(sp["expiry"] - h), "expiry_time": pd.Timestamp(sp["expiry"]),
                    "vega": 1.0, "theta": -1.0, "rho": 0.5, "gamma": round(rng.uniform(0.0001, 0.004), 5),
                    "delta": round(rng.uniform(-1, 1), 5), "underlying_price": S,
                    # the option's own daily settlement price (in coins, about the size of its mark; no part in the delivery rule):
                    # filled for instruments older than a day, i.e. for some of them
                    "settlement_price": round(mark * 0.97, 6) if (int(K) // 50) % 3 == 0 else float("nan"),
                    "mark_price": mark, "mark_iv": 50.0, "last_price": mark, "interest_rate": 0.0, "bid_iv": 45.0,
                    "best_bid_price": bids[0][0] if bids else 0.0, "best_bid_amount": bids[0][1] if bids else 0.0,
                    "ask_iv": 55.0, "best_ask_price": asks[0][0], "best_ask_amount": asks[0][1],
                    "asks": asks, "bids": bids,
                })
        if not recs:  # every hour missing / nothing listed in the hours that are left: no book at all, not a market
            raise EmptyBook()
        self.data = pd.DataFrame(recs).set_index(["time", "instrument_name"]).sort_index()
        self.book_hours = {h for (h, _n) in self.rows}
        # co-market range and price frame
        if mode.startswith("co"):
            m0 = rng.choice([0, 0, 0, 1, 17, 59]) if mode == "co1" else rng.choice([0, 0, 5, 35, 17])
            self.co_start = start + timedelta(minutes=m0)
            co_end = hours[-1] + timedelta(minutes=rng.choice([0, 0, 1, 30, 59]))
            self.co_n = int((co_end - self.co_start).total_seconds() // 60) + 1
            idx = [start + timedelta(minutes=k) for k in range(H * 60)]
            eth = []
            for k, t in enumerate(idx):
                i = k // 60
                if k % 60 == 0:
                    eth.append(Decimal(repr(U[i])))
                else:
                    eth.append(Decimal(f"{U[i] * (1 + rng.uniform(-0.004, 0.004)):.4f}"))
            self.prices = pd.DataFrame({token: eth, "USDC": [Decimal(1)] * len(idx), "WETH": [Decimal(2500)] * len(idx)},
                                       index=pd.DatetimeIndex(idx))
        else:
            self.prices = pd.DataFrame({token: [Decimal(repr(x)) for x in U]}, index=pd.DatetimeIndex(hours))
        self.frame = {h: Fraction(repr(U[i])) for i, h in enumerate(hours)}

    @staticmethod
    def _size(rng, as_float):
        s = rng.choice([rng.randint(5, 60), rng.randint(60, 900), rng.randint(1, 5)])
        return float(s) if as_float else s

    def market(self):
        import copy

        from demeter import MarketInfo, MarketTypeEnum
        from demeter.deribit import DeribitOptionMarket

        tok = DeribitOptionMarket.ETH if self.token == "ETH" else DeribitOptionMarket.BTC
        m = DeribitOptionMarket(MarketInfo("deribit", MarketTypeEnum.deribit_option), tok)
        m.data = copy.deepcopy(self.data)
        return m, tok

    def listed(self, ts):
        h = ts.replace(minute=0, second=0, microsecond=0)
        return [n for n in self.instruments if (h, n) in self.rows]


# ------------------------------------------------------------------------------------------------ recorder
def read_state(m):
    return {"cash": Fraction(m.balance), "pos": {k: Fraction(p.amount) for k, p in m.positions.items()}}


class Recorder:
    """Observer of the ScriptStrategy: records the states around every phase and attempts trades on every bar."""

    def __init__(self, world, rng, mi):
        self.w, self.rng, self.mi = world, rng, mi
        self.bars = []
        self.cur = None
        self.step = Decimal(1) if world.token == "ETH" else Decimal("0.1")

    def _m(self, strat):
        return strat.broker.markets[self.mi]

    def before_bar(self, strat, snap):
        m = self._m(strat)
        ts = snap.timestamp
        is_open = O.on_hour(ts) and ts in self.w.book_hours
        self.cur = {"ts": ts, "has_book": ts in self.w.book_hours, "B0": read_state(m), "ops": [], "open": is_open,
                    "phase_for_closed": self.rng.choice(PHASES3), "row": snap.row_id}
        self._ops("before_bar", m, ts)

    def on_bar(self, strat, snap):
        m = self._m(strat)
        self._ops("on_bar", m, snap.timestamp)
        self.cur["S1"] = read_state(m)

    def after_bar(self, strat, snap):
        m = self._m(strat)
        self.cur["S2"] = read_state(m)
        self._ops("after_bar", m, snap.timestamp)
        self.cur["E"] = read_state(m)
        self.bars.append(self.cur)
        self.cur = None

    def _ops(self, phase, m, ts):
        rng = self.rng
        if self.cur["open"]:
            k = rng.choice([0, 1, 1, 2, 3]) if phase != "after_bar" else rng.choice([0, 0, 1])
        else:
            k = 1 if phase == self.cur["phase_for_closed"] else 0
        for _ in range(k):
            held = sorted(m.positions.keys())
            r = rng.random()
            if held and r < 0.35:
                name = rng.choice(held)
                have = m.positions[name].amount
                amt = rng.choice([have, have, self.step, max(self.step, (have / 2).quantize(self.step)), have + self.step])
                op, fn = "sell", m.sell
            elif r < 0.93 or not self.cur["open"]:
                listed = self.w.listed(ts)
                pool = listed if (listed and rng.random() < 0.9) else sorted(self.w.instruments)
                # prefer what is about to expire
                pool = sorted(pool, key=lambda n: self.w.instruments[n]["expiry"])
                name = pool[min(len(pool) - 1, int(rng.random() ** 2 * len(pool)))]
                amt = self.step * rng.choice([1, 1, 2, 3, 5, 10, 17, 40])
                op, fn = "buy", m.buy
            else:
                name = ""
                amt = Decimal(rng.choice([1, 5, 50]))
                op, fn = rng.choice((("deposit", m.deposit), ("withdraw", m.withdraw)))
            before = read_state(m)
            res = Dr.call_op(fn, name, amt) if op in ("buy", "sell") else Dr.call_op(fn, amt)
            self.cur["ops"].append({"phase": phase, "op": op, "name": name, "amount": str(amt), "ok": res.ok, "site": res.site,
                                    "before": before, "after": read_state(m)})


ACT_TYPES = {"DeliverAction": "deliver", "ExpiredAction": "expired", "BuyAction": "buy", "SellAction": "sell"}


def convert_actions(actions, mi):
    out = []
    for a in actions:
        if getattr(a, "market", None) != mi:
            continue
        t = ACT_TYPES.get(type(a).__name__, "other")
        rec = {"type": t, "ts": a.timestamp, "name": getattr(a, "instrument_name", "")}
        if t in ("deliver", "expired", "buy", "sell"):
            rec["amount"] = Fraction(a.amount)
        if t == "deliver":
            rec["income"] = Fraction(a.income_amount)
            rec["fee"] = Fraction(a.fee)
            rec["gross"] = Fraction(a.deriver_amount)
        out.append(rec)
    return out


def _blame(exc):
    """'demeter' if the innermost project frame of the traceback is under demeter/, 'harness' if it is ours."""
    for fs in reversed(traceback.extract_tb(exc.__traceback__)):
        fn = fs.filename.replace("\\", "/")
        if "/demeter/" in fn:
            return "demeter"
        if "/vmon/" in fn:
            return "harness"
    return "harness"


# ------------------------------------------------------------------------------------------------ one case
def one_case(mon, rng, c, mode):
    while True:
        try:
            w = World(rng, mode)
            break
        except EmptyBook:
            mon.cls("world-redrawn(empty book)")
    dm, tok = w.market()
    mi = dm.market_info
    rec = Recorder(w, rng, mi)
    strat = Dr.make_script_strategy(observer=rec)
    assets = {tok: Decimal(100000)}
    markets = [dm]
    interval = "1min"
    if mode.startswith("co"):
        uw = W.UniWorld(rng, n=w.co_n, start=w.co_start, names=("USDC", "WETH"), price=2500, d0=6, d1=18,
                        token0_is_quote=rng.random() < 0.5, path="calm", liq_exp=20, vol_scale=10)
        um = uw.market("uni")
        markets = [dm, um] if rng.random() < 0.5 else [um, dm]
        assets[uw.t0] = Decimal(1000)
        interval = "1min" if mode == "co1" else "5min"
    elif mode == "alone1h":
        interval = "1h"
    elif mode == "alone4h":
        interval = "4h"
    act = Dr.build_actuator(markets, w.prices, None, assets, strat, interval)
    dm.deposit(Decimal(rng.choice([50000, 2000, 300])))
    initial = read_state(dm)
    crashed = None
    try:
        act.run(False)
    except Exception as e:  # noqa
        if _blame(e) == "harness":
            raise
        crashed = e
    bars = rec.bars
    if crashed is not None:
        ts = rec.cur["ts"] if rec.cur is not None else (bars[-1]["ts"] if bars else None)
        held = {}
        try:
            held = {k: str(p.amount) for k, p in dm.positions.items()}
        except Exception:  # noqa
            pass
        mon.violation("deribit", "run", "raises", f"{type(crashed).__name__}@{Dr.reject_site(crashed)}",
                      f"mode {mode}, bar {ts}: {crashed!r}; held {held}\n" + "".join(traceback.format_exception(crashed))[-1200:],
                      {"case": c, "mode": mode})
    # quotes for positions that are due at a bar
    for b in bars:
        ts = b["ts"]
        q = {}
        for name in b["S1"]["pos"]:
            if w.instruments[name]["expiry"] <= ts and (ts, name) in w.rows:
                S, mark = w.rows[(ts, name)]
                q[name] = (Fraction(S), Fraction(mark))
        b["quotes"] = q
        h = ts.replace(minute=0, second=0, microsecond=0)
        b["frame"] = w.frame.get(h) if O.on_hour(ts) else None
        if O.on_hour(ts) and b["frame"] is None:  # bar before the first book hour cannot happen by construction
            b["frame"] = Fraction(1)
    all_actions = convert_actions(act.actions, mi)
    by_ts = {}
    for a in all_actions:
        by_ts.setdefault(a["ts"], []).append(a)
    for b in bars:
        b["actions"] = by_ts.get(b["ts"], [])
    log = {"token": w.token, "interval_hours": w.interval_hours,
           "instruments": {n: {"kind": i["kind"], "strike": i["strike"], "expiry": i["expiry"]} for n, i in w.instruments.items()},
           "initial": initial, "bars": bars, "final_actions": all_actions if crashed is None else None}
    V, events, st = O.check_run(log)
    mon.ev(st["ev"])
    mon.hit("bars", st["bars"])
    mon.hit("closed_trade_attempts", st["closed_trade_attempts"])
    mon.hit("open_trades_accepted", st["open_trades_accepted"])
    mon.hit("settle_bars", st["settle_bars"])
    mon.hit("settlements", len(events))
    mon.hit("gap_bars_with_expired_position", st["gap_bars_with_expired"])
    mon.hit("closed_bars_with_expired_position", st["closed_bars_with_expired_position"])
    mon.hit("unexpired_position_kept_across_update", st["kept_unexpired_checks"])
    mon.hit(f"runs/{mode}")
    mon.cls(f"run/{mode}/{w.token}")
    if st["alive_at_end"]:
        mon.cls("position-alive-at-end(expiry after the last open bar)", st["alive_at_end"])
    for v in V:
        mon.violation("deribit", v["operation"], v["clause"], v["site"],
                      f"[{mode} {w.token} case {c}] " + v["detail"], v["data"])
    for e in events:
        band = e["band"]
        nb = "1" if e["n_in_bar"] == 1 else ("2" if e["n_in_bar"] == 2 else "3+")
        mon.nt(f"{w.token}/{mode}/{e['kind']}/{band['money']}/{band['branch']}/{e['source']}/{e['expiry_class']}/{nb}")
        mon.cls(f"settle/{band['money']}/{band['branch']}")
        mon.cls(f"expiry/{e['expiry_class']}")
        mon.cls(f"underlying/{e['source']}")
        mon.cls(f"deliver/{band['deliver']}/{'paid' if e['delivered'] else 'nothing'}")
        mon.cls(f"bar/{e['where']}")
        mon.hit(f"money/{band['money']}")
        mon.hit(f"source/{e['source']}")
        mon.sample(
            {"mode": mode, "token": w.token, "bar": e["ts"], "instrument": e["name"], "contracts": e["amount"],
             "expiry": e["expiry"], "underlying": float(e["underlying"]), "mark": None if e["mark"] is None else float(e["mark"]),
             "underlying_source": e["source"], "rule_gross": float(band["gross"]), "rule_fee": float(band["fee"]),
             "rule_net": float(band["net"]), "allowed": [float(band["lo"]), float(band["hi"])],
             "observed_income": float(e["income"]), "deliver": band["deliver"], "expiry_class": e["expiry_class"]},
            cls=f"{band['money']}/{e['source']}",
        )


def run(spec, mon):
    for c in range(spec["cases"]):
        rng = mon.case_rng(c)
        if not mon.want(c):
            continue
        one_case(mon, rng, c, BLOCK[c % len(BLOCK)])


def floors(merged, tier):
    out = []
    r = merged["reach"]
    k = 1 if tier == "quick" else 10
    need = {
        "settlements": 300 * k, "closed_trade_attempts": 3000 * k, "open_trades_accepted": 1000 * k,
        "unexpired_position_kept_across_update": 1000 * k, "closed_bars_with_expired_position": 50 * k,
        "money/thin": 20 * k, "money/atm": 5 * k, "money/otm": 20 * k, "money/itm": 20 * k, "money/deep-itm": 20 * k,
        "source/price-frame": 30 * k, "source/book": 100 * k,
    }
    for m in MODES:
        need[f"runs/{m}"] = 10 * k
    for name, n in need.items():
        if r.get(name, 0) < n:
            out.append(f"{name} reached {r.get(name, 0)} times, floor {n}")
    return out
