"""C06 — tick <-> sqrt price conversions agree with Uniswap v3 TickMath.

Forward direction (tick -> sqrtPriceX96): all 1,774,545 ticks in both tiers (band, strict monotonicity, boundary
values).  Reverse direction (sqrtPriceX96 -> tick): floor by definition, the real forward values serve as
tick boundaries; quick = 4 probes on a seed-chosen 1/3 of the ticks plus all special ticks, thorough = every tick.
Helper round trips and nearest_usable_tick over decimals/orientations/spacings."""
from decimal import Decimal
from fractions import Fraction

from ..oracles import tickmath as O

ID = "C06"
META = {
    "level": "exploration",
    "rule": "forward: every tick of [-887272, 887272] is one evaluation per clause (band, monotone, boundary); "
    "reverse: probes x in {ratio(t), ratio(t)+1, midpoint, ratio(t+1)-1} must map to t; helpers: (tick, decimals "
    "pair, orientation) round trips and closed-form comparison; nearest_usable_tick: (tick, spacing). Every tick is "
    "non-trivial; distinct_nontrivial counts distinct (clause, tick-bucket-of-1024, decimals/orientation/spacing) keys.",
    "assumptions": [
        "reference = Decimal arithmetic at 90 digits (running product re-anchored from an exact power every 4096 ticks)",
        "sqrt_price_x96_to_tick is not probed at x >= MAX_SQRT_RATIO (outside the protocol's domain)",
        "a tie in nearest_usable_tick may go either way",
    ],
    "exhaustive": True,
    "exhaustive_domain": "tick -> sqrtPriceX96 direction: all 1,774,545 ticks (band, monotonicity, boundary values)",
}
NSHARDS = 16
DEC = (6, 8, 18)
SPACINGS = (1, 10, 60, 200)
# the statement bounds the price helpers only by "mutually inverse to within one tick" (1e-4 relative); the
# closed-form comparison guards orientation/decimals and uses a tolerance far below a tick but above the float
# error of 10 ** (d0 - d1) for negative exponents (3.6e-17)
CLOSED_TOL = Fraction(1, 10**9)


def plan(tier, seed):
    n = O.MAX_TICK - O.MIN_TICK + 1
    step = -(-n // NSHARDS)
    out = []
    for i in range(NSHARDS):
        lo = O.MIN_TICK + i * step
        hi = min(O.MAX_TICK + 1, lo + step)
        out.append({"shard": i, "lo": lo, "hi": hi})
    return out


def _special(t):
    a = abs(t)
    return bin(a).count("1") <= 2 or a < 64 or a > O.MAX_TICK - 64


def run(spec, mon):
    from demeter.uniswap.liquitidy_math import get_sqrt_ratio_at_tick
    from demeter.uniswap import helper as H

    tier = spec["tier"]
    lo, hi = spec["lo"], spec["hi"]
    only = spec.get("only_case")
    rng = mon.rng
    stride = 1 if tier == "thorough" else 3
    offset = mon.seed % stride
    worst = Decimal(0)

    # ---------------- forward + reverse, one pass
    prev_s = get_sqrt_ratio_at_tick(lo - 1) if lo > O.MIN_TICK else None
    prev_w = H.tick_to_sqrt_price_x96(lo - 1) if lo > O.MIN_TICK else None
    s_next_cache = None
    for t, r in O.walk(lo, hi):
        if only is not None and only[1] != t:
            # replay of one tick: still need prev_s
            prev_s = get_sqrt_ratio_at_tick(t)
            prev_w = H.tick_to_sqrt_price_x96(t)
            continue
        mon.case_id = ["tick", t]
        try:
            s = get_sqrt_ratio_at_tick(t)
        except Exception as e:  # noqa
            mon.violation("uniswap", "get_sqrt_ratio_at_tick", "raises", type(e).__name__, f"tick {t}: {e!r}")
            prev_s = None
            continue
        bucket = t // 1024
        # band
        ok, ratio = O.band_ok(t, s, r)
        mon.ev()
        if ratio > worst:
            worst = ratio
        if not ok:
            mon.violation(
                "uniswap", "get_sqrt_ratio_at_tick", "error-band", "pos" if t > 0 else "nonpos",
                f"tick {t}: got {s}, reference {r * O.D_Q96:.6f}, err/bound {ratio:.6f}", {"tick": t, "got": s},
            )
        mon.nt(f"band/{bucket}")
        # strictly increasing
        if prev_s is not None:
            mon.ev()
            if not s > prev_s:
                mon.violation(
                    "uniswap", "get_sqrt_ratio_at_tick", "strictly-increasing", "",
                    f"ratio({t})={s} <= ratio({t - 1})={prev_s}", {"tick": t},
                )
        prev_s = s
        # the public wrapper (helper.tick_to_sqrt_price_x96) is the same conversion: same band, order and boundary values
        mon.ev()
        try:
            w = H.tick_to_sqrt_price_x96(t)
        except Exception as e:  # noqa
            mon.violation("uniswap", "tick_to_sqrt_price_x96", "raises", type(e).__name__, f"tick {t}: {e!r}")
            w = s
        if w != s:
            okw, ratio_w = O.band_ok(t, w, r)
            want_b = O.MIN_SQRT_RATIO if t == O.MIN_TICK else (O.MAX_SQRT_RATIO if t == O.MAX_TICK else None)
            if not okw:
                mon.violation("uniswap", "tick_to_sqrt_price_x96", "error-band", "pos" if t > 0 else "nonpos",
                              f"tick {t}: wrapper gives {w}, reference {r * O.D_Q96:.6f}, err/bound {ratio_w:.6f}", {"tick": t, "got": w})
            elif want_b is not None and w != want_b:
                mon.violation("uniswap", "tick_to_sqrt_price_x96", "boundary-value", str(t), f"got {w}, want {want_b}")
            elif prev_w is not None and not w > prev_w:
                mon.violation("uniswap", "tick_to_sqrt_price_x96", "strictly-increasing", "", f"wrapper({t})={w} <= wrapper({t - 1})={prev_w}")
        prev_w = w
        # boundary values
        if t == O.MIN_TICK or t == O.MAX_TICK:
            mon.ev()
            want = O.MIN_SQRT_RATIO if t == O.MIN_TICK else O.MAX_SQRT_RATIO
            mon.cls("boundary-value-checked")
            if s != want:
                mon.violation("uniswap", "get_sqrt_ratio_at_tick", "boundary-value", str(t), f"got {s}, want {want}")
        # reverse: floor by definition
        if t < O.MAX_TICK and ((t - offset) % stride == 0 or _special(t) or only is not None):
            s_next = get_sqrt_ratio_at_tick(t + 1)
            if s_next > s:
                probes = {s, s + 1, (s + s_next) // 2, s_next - 1}
                for x in sorted(probes):
                    if not (s <= x < s_next):
                        continue
                    mon.ev()
                    try:
                        got = H.sqrt_price_x96_to_tick(x)
                    except Exception as e:  # noqa
                        mon.violation("uniswap", "sqrt_price_x96_to_tick", "raises", type(e).__name__, f"x={x}: {e!r}")
                        continue
                    if got != t:
                        kind = "on-boundary" if x == s else ("boundary+1" if x == s + 1 else "inside")
                        sign = "neg" if t < 0 else ("zero" if t == 0 else "pos")
                        mon.violation(
                            "uniswap", "sqrt_price_x96_to_tick", "floor", f"{sign}/{kind}",
                            f"x={x} in [ratio({t}), ratio({t + 1})) mapped to {got}", {"x": x, "tick": t, "got": got},
                        )
                mon.nt(f"floor/{bucket}")
                mon.cls("reverse-ticks-probed")
        if t == O.MAX_TICK:
            # the top of the range: the greatest tick whose sqrt price does not exceed MAX_SQRT_RATIO is MAX_TICK itself
            mon.ev()
            try:
                got = H.sqrt_price_x96_to_tick(s)
            except Exception as e:  # noqa
                got = f"raised {e!r}"
            mon.cls("reverse-top-tick-probed")
            if got != t:
                mon.violation("uniswap", "sqrt_price_x96_to_tick", "floor", "pos/on-boundary/top", f"x=ratio({t})={s} mapped to {got}", {"x": s, "tick": t})
    mon.note(f"worst_err_over_bound_shard{spec['shard']}", str(worst)[:12])
    if only is not None and only[0] == "tick":
        return

    # ---------------- helpers: tick <-> base-unit price, sqrt <-> base-unit price
    n_help = 1500 if tier == "quick" else 120000
    for j in range(n_help):
        crng = mon.case_rng(("h", j))
        kind = crng.random()
        if kind < 0.15:
            t = crng.choice([O.MIN_TICK, O.MAX_TICK, 0, 1, -1, lo, hi - 1]) + crng.randint(-3, 3)
        elif kind < 0.5:
            t = crng.randint(-400000, 400000)
        else:
            t = crng.randint(lo, hi - 1)
        t = max(O.MIN_TICK, min(O.MAX_TICK, t))
        d0, d1 = crng.choice(DEC), crng.choice(DEC)
        q0 = crng.random() < 0.5
        if not mon.want(["helper", j]):
            continue
        try:
            _check_helpers(mon, H, get_sqrt_ratio_at_tick, t, d0, d1, q0)
        except Exception as e:  # noqa  a helper of the code under test raised on a valid tick / price
            import traceback

            mon.violation("uniswap", "price-helpers", "raises", type(e).__name__, f"tick {t} decimals ({d0},{d1}) token0_is_quote={q0}: " + traceback.format_exc()[-600:])

    # ---------------- nearest_usable_tick
    n_near = 2000 if tier == "quick" else 100000
    for j in range(n_near):
        crng = mon.case_rng(("n", j))
        sp = crng.choice(SPACINGS)
        k = crng.random()
        if k < 0.2:
            t = crng.choice([O.MIN_TICK, O.MAX_TICK]) + crng.randint(-2 * sp, 2 * sp)
            t = max(O.MIN_TICK, min(O.MAX_TICK, t))
        elif k < 0.5:
            m = crng.randint(O.MIN_TICK // sp + 1, O.MAX_TICK // sp - 1) * sp
            t = m + crng.choice([0, sp // 2, -(sp // 2), sp // 2 + 1, 1, -1])
        else:
            t = crng.randint(O.MIN_TICK, O.MAX_TICK)
        t = max(O.MIN_TICK, min(O.MAX_TICK, t))
        if not mon.want(["near", j]):
            continue
        mon.ev()
        # the tick arrives as whatever the caller computed it in: int, numpy integer (a data-frame cell), float (a tick
        # column after gap filling), Decimal (price arithmetic)
        kind = crng.choice(["int", "int", "int", "numpy", "float", "decimal"])
        arg = t
        if kind != "int":
            import numpy as np
            from decimal import Decimal as _D

            arg = {"numpy": np.int64, "float": float, "decimal": _D}[kind](t)
        try:
            got = H.nearest_usable_tick(arg, sp)
        except Exception as e:  # noqa
            mon.violation("uniswap", "nearest_usable_tick", "raises", f"{type(e).__name__}/{kind}", f"{arg!r},{sp}: {e!r}")
            continue
        mon.cls(f"near-arg/{kind}")
        want = O.nearest_usable(t, sp)
        edge = "end" if (t < O.MIN_TICK + 2 * sp or t > O.MAX_TICK - 2 * sp) else "mid"
        if got not in want:
            clause = (
                "not-multiple" if got % sp else ("out-of-range" if not O.MIN_TICK <= got <= O.MAX_TICK else "not-nearest")
            )
            mon.violation(
                "uniswap", "nearest_usable_tick", clause, f"spacing{sp}/{edge}", f"tick {t} spacing {sp}: got {got}, want one of {sorted(want)}",
                {"tick": t, "spacing": sp, "got": got},
            )
        mon.nt(f"near/{sp}/{edge}/{(t % sp) * 4 // sp}")
        mon.sample({"nearest_usable_tick": [t, sp], "got": got, "acceptable": sorted(want)}, cls=f"near{sp}{edge}")


def _check_helpers(mon, H, ratio_at, t, d0, d1, q0):
    s = ratio_at(t)
    ori = "q0" if q0 else "q1"
    # closed form of tick -> price given the integer ratio (1e-30 relative)
    mon.ev()
    try:
        p = H.tick_to_base_unit_price(t, d0, d1, q0)
    except Exception as e:  # noqa
        mon.violation("uniswap", "tick_to_base_unit_price", "raises", type(e).__name__, f"{t},{d0},{d1},{q0}: {e!r}")
        return
    want = O.price_from_sqrt_x96(s, d0, d1, q0)
    rel = abs(Fraction(p) - want) / want
    if rel > CLOSED_TOL:
        mon.violation(
            "uniswap", "tick_to_base_unit_price", "closed-form", ori,
            f"tick {t} dec ({d0},{d1}) token0_quote={q0}: got {p}, want {float(want):.12e}, rel {float(rel):.3e}",
        )
    # sqrt -> price
    mon.ev()
    p2 = H.sqrt_price_x96_to_base_unit_price(s, d0, d1, q0)
    rel = abs(Fraction(p2) - want) / want
    if rel > CLOSED_TOL:
        mon.violation(
            "uniswap", "sqrt_price_x96_to_base_unit_price", "closed-form", ori,
            f"s={s} dec ({d0},{d1}) token0_quote={q0}: got {p2}, rel {float(rel):.3e}",
        )
    # price -> tick round trip, within one tick
    mon.ev()
    try:
        t2 = H.base_unit_price_to_tick(p, d0, d1, q0)
    except Exception as e:  # noqa
        mon.violation("uniswap", "base_unit_price_to_tick", "raises", type(e).__name__, f"{p},{d0},{d1},{q0}: {e!r}")
        return
    if abs(t2 - t) > 1:
        mon.violation(
            "uniswap", "base_unit_price_to_tick", "round-trip", ori,
            f"tick {t} -> price {p} -> tick {t2} (dec {d0},{d1}, token0_quote={q0})",
        )
    # price -> sqrt round trip, within one tick of the original ratio
    mon.ev()
    s2 = H.base_unit_price_to_sqrt_price_x96(p, d0, d1, q0)
    lo_s = ratio_at(t - 1) if t > O.MIN_TICK else s - 1
    hi_s = ratio_at(t + 1) if t < O.MAX_TICK else s + 1
    if not (lo_s <= s2 <= hi_s):
        mon.violation(
            "uniswap", "base_unit_price_to_sqrt_price_x96", "round-trip", ori,
            f"tick {t}: ratio {s} -> price {p} -> ratio {s2}, outside [{lo_s},{hi_s}]",
        )
    # the market's own wrappers (UniLpMarket.tick_to_price / price_to_tick) for a pool of these tokens
    m, sp = _market(d0, d1, q0)
    mon.ev()
    try:
        pm = m.tick_to_price(t)
        rel = abs(Fraction(pm) - want) / want
        if rel > CLOSED_TOL:
            mon.violation("uniswap", "UniLpMarket.tick_to_price", "closed-form", ori,
                          f"tick {t} dec ({d0},{d1}) token0_quote={q0}: got {pm}, want {float(want):.12e}, rel {float(rel):.3e}")
        t3 = m.price_to_tick(p)
        # price -> tick (within one tick of t) -> nearest multiple of the spacing inside the valid range
        cands = set()
        for tt in (t - 1, t, t + 1):
            if O.MIN_TICK <= tt <= O.MAX_TICK:
                cands |= set(O.nearest_usable(tt, sp))
        if t3 not in cands:
            mon.violation("uniswap", "UniLpMarket.price_to_tick", "round-trip", f"{ori}/spacing{sp}",
                          f"tick {t} -> price {p} -> usable tick {t3}, expected one of {sorted(cands)} (dec {d0},{d1}, token0_quote={q0})")
    except Exception as e:  # noqa
        mon.violation("uniswap", "UniLpMarket.tick_to_price/price_to_tick", "raises", type(e).__name__, f"{t},{d0},{d1},{q0}: {e!r}")
    mon.nt(f"helper/{d0}/{d1}/{ori}/{t // 65536}")
    mon.sample({"tick": t, "decimals": [d0, d1], "token0_is_quote": q0, "price": str(p), "tick_back": t2}, cls=f"h{d0}{d1}{ori}")


_MARKETS = {}


def _market(d0, d1, q0):
    """a data-less UniLpMarket over tokens of these decimals (only its conversion wrappers are called)"""
    key = (d0, d1, q0)
    if key not in _MARKETS:
        from demeter import MarketInfo, TokenInfo
        from demeter.uniswap import UniLpMarket, UniV3Pool

        fee = (0.05, 0.3, 1, 0.01)[len(_MARKETS) % 4]
        pool = UniV3Pool(TokenInfo("TKA", d0), TokenInfo("TKB", d1), fee, TokenInfo("TKA", d0) if q0 else TokenInfo("TKB", d1))
        m = UniLpMarket(MarketInfo("c06"), pool)
        _MARKETS[key] = (m, int(pool.tick_spacing))
    return _MARKETS[key]


def floors(merged, tier):
    out = []
    if merged["evaluations"] < 1774545:
        out.append("forward direction did not cover all ticks")
    if merged["classes"].get("boundary-value-checked", 0) < 2:
        out.append("boundary values not reached")
    if merged["classes"].get("reverse-ticks-probed", 0) < 100000:
        out.append("too few reverse probes")
    return out
