"""C15 — option orders fill best-first at displayed sizes; cash, fee, position exact.

Reference model: vmon/oracles/deribit_book.py, a sequential matching engine in Fractions fed with the same order
stream as the real DeribitOptionMarket held frozen at one bar (drive.Frozen).  After every order (accepted or
rejected) the returned fills and fee, market.balance, market.positions, the visible book of every instrument (both
sides) and OptionMarketBalance are compared with the model; after every refresh (same hour again / next hour) the
visible book must be the published one again."""
import copy
from decimal import Decimal
from fractions import Fraction

import pandas as pd

from .. import drive as Dr
from .. import worlds as W
from ..oracles import deribit_book as O

ID = "C15"
META = {
    "level": "exploration",
    "rule": "a case = one generated hourly book world (ETH or BTC config, 1-3 instruments, 0-12 levels a side, int / "
    "float / 0.1-step sizes, cheap / mid / high / dyadic marks) and 1-3 segments of 1-12 buys and sells (market, "
    "limit on / near / off a level, usd-priced, capped, capped+limit; sizes from one step to whole side + 1 step, "
    "fractional and tie amounts) separated by refreshes, plus per shard a few 'sweep' scenes (a BTC book with 0.1-grid "
    "sizes: a market buy of part of the best ask, then a buy of exactly the rest of the side, then orders as above); "
    "every comparison with the model is one evaluation. "
    "Non-trivial = an accepted fill touching >=2 levels, or any order (accepted or refused) that follows an earlier "
    "fill on the same side of the same book since the last refresh; distinct by (token, side, pricing mode, size "
    "class, levels touched, earlier fills bucket, decision class, outcome, size kind).",
    "assumptions": [
        "books are sorted best-first with distinct prices per side (as Deribit publishes them)",
        "a level's price is the displayed decimal value (shortest repr) of the stored float; costs use that value",
        "level sizes are compared at 1e-9 absolute (the visible book stores floats); the sum of an order's fills "
        "within 1e-9 of the rounded request; position amounts exactly",
        "contract step / fee step: ETH 1 / 1e-6, BTC 0.1 / 1e-8 (Deribit contract specification)",
        "rounding direction on an exact half-step tie (amount, fee) is not named by the statement: either neighbour "
        "is accepted",
        "a level whose price is within 1e-14 relative of the cap (multiple x mark, mark / multiple) may be used or not",
        "a limit price within 0.1% of a level but not on it may be snapped to that level or refused (the suite "
        "relies on the snap); on a level = within 1e-12 relative (usd prices are converted with the underlying)",
        "a limit price on a level that sits exactly on the price cap (so that the cap may exclude it) is, like a price "
        "on a level beyond the cap, merely near the remaining levels: it may be snapped to one within 0.1% or refused",
        "an amount below one contract step may be refused; a buy that the cash cannot pay for may be refused",
        "cash equality up to the Decimal context (1e-30 relative); average prices within 1e-25 relative",
        "equity may value each position at the mark quantised to the fee step (half a fee step per contract)",
        "equity is checked only while every held instrument is quoted in the current book",
        "all instruments are in state 'open' and orders are placed on hourly (open) bars; closed markets are C16's",
        "after the first violation of a case the rest of the case is skipped (model and code have diverged)",
    ],
}
NSHARDS = 16
TOL = O.SIZE_TOL
CASH_REL = Fraction(1, 10**30)
AVG_REL = Fraction(1, 10**25)
F = O.F


def plan(tier, seed):
    n = 300 if tier == "quick" else 1500
    return [{"shard": i, "cases": n} for i in range(NSHARDS)]


# ------------------------------------------------------------------------------------------------ world
def _ticks_to_price(t):
    return t / 10000  # correctly rounded: repr shows the 4-decimal price


def _size(rng, token, kind):
    if kind == "one":
        return rng.choice([1, 1.0]) if token == "ETH" else rng.choice([0.1, 1, 0.2])
    if token == "BTC" and kind in ("float", "mixed") and rng.random() < 0.7:
        return rng.randint(1, 4000) / 10
    if kind == "int":
        return rng.choice([rng.randint(1, 2000), rng.randint(1, 6), rng.randint(2000, 10000)])
    if kind == "float":
        return float(rng.randint(1, 2000)) + rng.choice([0.0, 0.0, 0.5])
    return rng.choice([rng.randint(1, 2000), float(rng.randint(1, 400)), rng.randint(1, 5), rng.randint(1, 40) + 0.5])


def gen_book(rng, token, style, size_kind):
    """mark (float), asks, bids: prices on a 0.0001 grid, strictly monotone, best first."""
    if style == "cheap":
        mark = rng.uniform(0.0003, 0.004)
    elif style == "high":
        mark = rng.uniform(0.1, 0.7)
    elif style == "dyadic":
        mark = rng.choice([0.0625, 0.03125, 0.125, 0.015625, 0.25, 0.0078125])
    else:
        mark = rng.uniform(0.004, 0.1)
    if style != "dyadic":
        mark = round(mark, rng.choice([4, 6, 6, 8, 10]))
    spacing = rng.choice(["tight", "mixed", "mixed", "wide"])
    base_up = -(-int(round(mark * 10**10)) // 10**6)  # ceil to tick
    base_dn = int(round(mark * 10**10)) // 10**6
    out = []
    for up in (True, False):
        n = rng.choice([0, 1, 1, 2, 3, 3, 5, 8, 12])
        t = (base_up if up else base_dn) + (rng.choice([0, 0, 1, 3]) * (1 if up else -1))
        side = []
        for _ in range(n):
            if side:
                if spacing == "tight":
                    step = rng.randint(1, 2)
                elif spacing == "mixed":
                    step = rng.randint(1, 6)
                else:
                    step = max(1, int(t * rng.uniform(0.02, 0.6)))
                t = t + step if up else t - step
            if t <= 0:
                break
            side.append([_ticks_to_price(t), _size(rng, token, size_kind)])
        out.append(side)
    return mark, out[0], out[1]


def craft_sweep_sizes(rng, n):
    """0.1-grid sizes for n >= 2 levels and a first fill a: the float difference size[0] - a is (visibly) below the
    decimal one, while the binary values of what is then displayed still add up to the decimal total - a, so that an
    order for exactly the rest of the side passes a size test made on the stored floats."""
    for _ in range(20000):
        s1 = rng.randint(2, 150) / 10
        a = rng.randint(1, int(round(s1 * 10)) - 1) / 10
        left, exact = s1 - a, Fraction(str(s1)) - Fraction(str(a))
        if not (Fraction(left) < exact and F(left) != exact):
            continue
        rest = [rng.randint(1000, 40000) / 10 for _ in range(n - 1)]
        if len(set(rest)) == len(rest) and Fraction(left) + sum(Fraction(x) for x in rest) >= exact + sum(
                Fraction(str(x)) for x in rest) + Fraction(1, 10**20):
            return [s1] + rest, Fraction(str(a))
    return None


class BookWorld(W.DeribitWorld):
    """DeribitWorld whose books are (mostly) replaced by more hostile ones: more levels, wide spacing (so that price
    caps split the book), prices above 0.1 with adjacent ticks, cheap options (the 12.5 % fee cap binds), dyadic
    marks (exact cap ties), BTC sizes on the 0.1 grid, marks with more digits than the fee step."""

    def __init__(self, rng, token, n_instr, hours, style, size_kind, sweep=False):
        for _ in range(20):
            super().__init__(rng, hours=hours, n_instr=n_instr, token=token, closed_prob=0.0,
                             size_kind=size_kind if size_kind in ("int", "float", "mixed") else "mixed", level_max=8)
            # (worlds.DeribitWorld's name de-duplication can itself collide with a third instrument: draw again)
            if not self.data.index.has_duplicates:
                break
        self.style = style
        if style != "base":
            marks, asks, bids = [], [], []
            for _ in range(len(self.data.index)):
                st = style if style != "any" else rng.choice(["cheap", "mid", "mid", "high", "dyadic"])
                mk, a, b = gen_book(rng, token, st, size_kind)
                marks.append(mk)
                asks.append(a)
                bids.append(b)
            self.data["mark_price"] = marks
            self.data["asks"] = pd.Series(asks, index=self.data.index, dtype=object)
            self.data["bids"] = pd.Series(bids, index=self.data.index, dtype=object)
        self.sweep = None
        if sweep:
            # first instrument, first hour: >= 2 ask levels with crafted sizes (see craft_sweep_sizes)
            ts0 = pd.Timestamp(self.hours[0])
            name = sorted(str(x) for x in self.data.loc[ts0].index)[0]
            for _ in range(50):
                mk, a, b = gen_book(rng, token, rng.choice(["mid", "high"]), "float")
                if len(a) >= 2:
                    break
            crafted = craft_sweep_sizes(rng, len(a)) if len(a) >= 2 else None
            if crafted:
                sizes, first = crafted
                a = [[lv[0], sz] for lv, sz in zip(a, sizes)]
                self.data.at[(ts0, name), "mark_price"] = mk
                self.data.at[(ts0, name), "asks"] = a
                self.data.at[(ts0, name), "bids"] = b
                self.sweep = (name, first, sum((Fraction(str(x)) for x in sizes), Fraction(0)) - first)
        self.raw = {}
        for h in self.hours:
            ts = pd.Timestamp(h)
            frame = self.data.loc[ts]
            self.raw[h] = {
                str(name): {
                    "asks": copy.deepcopy(list(frame.loc[name, "asks"])),
                    "bids": copy.deepcopy(list(frame.loc[name, "bids"])),
                    "mark": float(frame.loc[name, "mark_price"]),
                    "under": float(frame.loc[name, "underlying_price"]),
                }
                for name in frame.index
            }


# ------------------------------------------------------------------------------------------------ helpers
def is_rejection(exc):
    """DemeterError (RuntimeError) and require()'s AssertionError are refusals; anything else is a crash."""
    from demeter._typing import DemeterError

    return isinstance(exc, (DemeterError, AssertionError))


def visible_book(m):
    out = {}
    data = m.market_status.data
    for name in data.index:
        out[str(name)] = {"asks": data.at[name, "asks"], "bids": data.at[name, "bids"]}
    return out


def as_arg(rng, x: Fraction, allow_int=True):
    """hand a number to the market as Decimal, float or int."""
    d = Decimal(x.numerator) / Decimal(x.denominator)
    kinds = ["dec", "float"]
    if allow_int and x.denominator == 1:
        kinds.append("int")
    k = rng.choice(kinds)
    if k == "int":
        return int(x)
    if k == "float":
        f = float(d)
        return f
    return d


def dec_of(x: Fraction, digits=12):
    return (Decimal(x.numerator) / Decimal(x.denominator)).quantize(Decimal(1).scaleb(-digits))


class Abort(Exception):
    pass


class Case:
    def __init__(self, mon, rng, c):
        self.mon, self.rng, self.c = mon, rng, c
        self.trace = []
        self.violated = False

    def viol(self, op, clause, site, detail, data=None, diverged=True):
        """diverged=False: the statement is broken but the model can still follow the code (nothing changed, or the
        deviation is a fill the model can book), so the case goes on."""
        if diverged:
            self.violated = True
        self.mon.violation("deribit", op, clause, site, f"{detail} | case {self.c} trace {self.trace[-4:]}", data)


# ------------------------------------------------------------------------------------------------ state comparison
def check_state(cs: Case, m, eng: O.Engine, op, mode, moment, touched=None):
    """cash, positions, visible book (all instruments, both sides), OptionMarketBalance against the model."""
    mon = cs.mon
    # cash
    mon.ev()
    cash = F(m.balance)
    if abs(cash - eng.cash) > CASH_REL * max(1, abs(eng.cash)):
        cs.viol(op, "cash-vs-model", f"{mode}:{moment}", f"market.balance {m.balance} model {float(eng.cash)!r}")
    # positions
    mon.ev()
    names_real = {k for k, p in m.positions.items() if p.amount != 0}
    if names_real != set(eng.pos):
        cs.viol(op, "position-set", f"{mode}:{moment}", f"held {sorted(names_real)} model {sorted(eng.pos)}")
    else:
        for k in names_real:
            p, q = m.positions[k], eng.pos[k]
            mon.ev(5)
            if F(p.amount) != q.amount:
                cs.viol(op, "position-amount", f"{mode}:{moment}", f"{k}: amount {p.amount} model {q.amount}")
            if F(p.buy_amount) != q.buy_amount:
                cs.viol(op, "position-buy-amount", f"{mode}:{moment}", f"{k}: buy_amount {p.buy_amount} model {q.buy_amount}")
            if F(p.sell_amount) != q.sell_amount:
                cs.viol(op, "position-sell-amount", f"{mode}:{moment}", f"{k}: sell_amount {p.sell_amount} model {q.sell_amount}")
            if abs(F(p.avg_buy_price) - q.avg_buy) > AVG_REL * max(q.avg_buy, Fraction(1, 10**6)):
                cs.viol(op, "avg-buy-price", f"{mode}:{moment}",
                        f"{k}: avg_buy_price {p.avg_buy_price} size-weighted {float(q.avg_buy)!r} over {q.buy_amount}")
            if abs(F(p.avg_sell_price) - q.avg_sell) > AVG_REL * max(q.avg_sell, Fraction(1, 10**6)):
                cs.viol(op, "avg-sell-price", f"{mode}:{moment}",
                        f"{k}: avg_sell_price {p.avg_sell_price} size-weighted {float(q.avg_sell)!r} over {q.sell_amount}")
    # visible book
    vb = visible_book(m)
    mon.ev()
    if set(vb) != set(eng.books):
        cs.viol(op, "book-instruments", f"{mode}:{moment}", f"visible {sorted(vb)} model {sorted(eng.books)}")
    else:
        for name in vb:
            for side in ("asks", "bids"):
                mon.ev()
                real, model = vb[name][side], eng.books[name][side]
                where = "untouched-book"
                if touched is not None and touched[0] == name:
                    where = "traded-side" if touched[1] == side else "other-side"
                bad = None
                if len(real) != len(model):
                    bad = f"{len(real)} levels, model {len(model)}"
                else:
                    for i, (lv, mv) in enumerate(zip(real, model)):
                        if F(lv[0]) != mv[0]:
                            bad = f"level {i} price {lv[0]!r} model {float(mv[0])!r}"
                            break
                        if abs(F(lv[1]) - mv[1]) > TOL:
                            bad = f"level {i} @ {lv[0]!r}: size {lv[1]!r} model {float(mv[1])!r}"
                            break
                if bad:
                    cs.viol(op, "visible-book-vs-model", f"{moment}:{where}", f"{name} {side}: {bad}",
                            {"real": real, "model": [[float(a), float(b)] for a, b in model]})
    # equity
    eb = eng.equity_bounds()
    bal = m.get_market_balance()
    mon.ev(2)
    if F(bal.balance) != cash:
        cs.viol(op, "balance-field", f"{mode}:{moment}", f"OptionMarketBalance.balance {bal.balance} market.balance {m.balance}")
    if eb is None:
        mon.cls("equity/skipped-no-mark")
    else:
        total, slack = eb
        if abs(F(bal.net_value) - total) > slack + CASH_REL * max(1, abs(total)):
            cs.viol(op, "equity", f"{mode}:{moment}",
                    f"equity {bal.net_value} but cash + positions at mark = {float(total)!r} (+-{float(slack)!r})")
        if abs(F(bal.net_value) - F(bal.balance) - F(bal.premium)) > CASH_REL * max(1, abs(total)):
            cs.viol(op, "equity-parts", f"{mode}:{moment}",
                    f"net_value {bal.net_value} != balance {bal.balance} + premium {bal.premium}")
        if eng.pos:
            mon.cls("equity/with-positions")
    if cs.violated:
        raise Abort()


# ------------------------------------------------------------------------------------------------ order generation
def gen_order(rng, eng: O.Engine, names, force=None):
    """returns dict(is_buy, name, req (Fraction), limit, limit_usd, cap (Fractions or None), mode, size_class).
    force (scene cases): {"name", "is_buy", "req"} -> a market order for exactly req."""
    step = eng.step
    name = rng.choice(names)
    held = eng.pos[name].amount if name in eng.pos else Fraction(0)
    if held > 0:
        is_buy = rng.random() < 0.45
    else:
        is_buy = rng.random() < 0.88
    if force:
        name, is_buy = force["name"], force["is_buy"]
        held = eng.pos[name].amount if name in eng.pos else Fraction(0)
    # prefer the side that already has fills (sequence effects)
    levels = eng.side(name, is_buy)
    live = [lv for lv in levels if lv[1] > 0]
    total = sum((lv[1] for lv in levels), Fraction(0))
    best = live[0][1] if live else Fraction(0)

    def to_step(x):
        return max(step, (x / step).__floor__() * step)

    classes = ["one-step", "part-best", "exact-best", "best+step", "multi", "multi", "whole", "whole+step", "random"]
    if not is_buy and held > 0:
        classes += ["held", "held+step", "part-held", "part-held"]
    sc = rng.choice(classes)
    if force:
        sc = "scripted"
    if sc == "one-step":
        req = step
    elif sc == "part-best":
        req = to_step(best * rng.randint(1, 99) / 100)
    elif sc == "exact-best":
        req = best if best > 0 else step
    elif sc == "best+step":
        req = best + step
    elif sc == "multi":
        k = rng.randint(2, max(2, len(live)))
        s = sum((lv[1] for lv in live[:k]), Fraction(0))
        req = to_step(s - (live[min(k, len(live)) - 1][1] * rng.randint(0, 90) / 100 if live else 0)) if s > 0 else step
    elif sc == "whole":
        req = total if total > 0 else step
    elif sc == "whole+step":
        req = total + step
    elif sc == "held":
        req = held
    elif sc == "held+step":
        req = held + step
    elif sc == "part-held":
        req = to_step(held * rng.randint(1, 99) / 100)
    else:
        req = step * rng.randint(1, 3000)
    # sells of more than held are refused before anything else: keep most sells within the holding
    if not is_buy and held > 0 and sc not in ("held+step",) and req > held and rng.random() < 0.8:
        req = to_step(held * rng.randint(20, 100) / 100)
    # fractional noise
    r = rng.random()
    if force:
        r, req = 1.0, force["req"]
    frac = "step"
    if r < 0.10:
        req = req + step / 2  # exact tie
        frac = "tie"
    elif r < 0.2:
        req = req + step * rng.choice([Fraction(3, 10), Fraction(-2, 10), Fraction(49, 100), Fraction(-49, 100), Fraction(1, 1000)])
        frac = "frac"
    elif r < 0.23:
        req = step * rng.choice([Fraction(3, 10), Fraction(1, 2), Fraction(9, 10), Fraction(6, 10)])
        frac = "below-step"
        sc = "below-step"
    if req <= 0:
        req = step
    # pricing mode
    book = eng.books[name]
    mark, under = book["mark"], book["under"]
    mode_kind = rng.choice(["market"] * 5 + ["limit"] * 4 + ["usd"] * 2 + ["cap"] * 3 + ["cap+limit"])
    if force:
        mode_kind = "market"
    limit = limit_usd = cap = None
    sub = ""
    if "limit" in mode_kind or mode_kind == "usd":
        if levels:
            lv = rng.choice(levels) if rng.random() < 0.6 else levels[0]
            p = lv[0]
            if rng.random() < 0.5 and frac == "step" and lv[1] > 0:
                # size relative to that level
                req = rng.choice([lv[1], lv[1] + step, to_step(lv[1] * rng.randint(1, 99) / 100), step, req])
                if req <= 0:
                    req = step
        else:
            p = mark if mark > 0 else Fraction(1, 100)
        r = rng.random()
        if r < 0.6:
            sub = "on"
            P = p
        elif r < 0.8:
            sub = "near"
            P = p * (1 + rng.choice([-1, 1]) * Fraction(rng.randint(1, 8), 10000))
        else:
            sub = "off"
            P = p * (1 + rng.choice([-1, 1]) * Fraction(rng.randint(15, 500), 10000))
        if mode_kind == "usd":
            if sub == "on" and rng.random() < 0.5:
                limit_usd = P * under  # exact product
            else:
                limit_usd = F(dec_of(P * under, rng.choice([6, 10])))
                if sub == "on":
                    sub = "on~"
        else:
            limit = P if sub == "on" else F(dec_of(P, rng.choice([6, 8, 12])))
    if "cap" in mode_kind:
        r = rng.random()
        prices = [lv[0] for lv in levels]
        if r < 0.55 and len(prices) >= 2:
            k = rng.randint(0, len(prices) - 2)
            bound = (prices[k] + prices[k + 1]) / 2
            sub += "split"
        elif r < 0.7 and prices:
            bound = prices[rng.randint(0, len(prices) - 1)]  # exactly on a level (a tie if the quotient is exact)
            sub += "at-level"
        elif r < 0.85:
            bound = mark * (100 if is_buy else Fraction(1, 100))
            sub += "loose"
        else:
            bound = (prices[0] if prices else mark) * (Fraction(99, 100) if is_buy else Fraction(101, 100))
            sub += "tight"
        if mark > 0 and bound > 0:
            cap = bound / mark if is_buy else mark / bound
            cap = F(dec_of(cap, rng.choice([4, 8, 16]))) if "at-level" not in sub else F(dec_of(cap, 20))
            if cap <= 0:
                cap = Fraction(1, 1000)
        else:
            cap = Fraction(2)
    return {"is_buy": is_buy, "name": name, "req": req, "limit": limit, "limit_usd": limit_usd, "cap": cap,
            "mode": mode_kind, "sub": sub, "size_class": sc, "frac": frac}


# ------------------------------------------------------------------------------------------------ one order
def run_order(cs: Case, m, eng: O.Engine, od, size_kind, after_refresh):
    mon, rng = cs.mon, cs.rng
    is_buy, name, mode = od["is_buy"], od["name"], od["mode"]
    op = "buy" if is_buy else "sell"
    side_name = "asks" if is_buy else "bids"
    levels = [list(lv) for lv in eng.side(name, is_buy)] if name in eng.books else []
    prior = eng.fills_since_refresh.get((name, is_buy), 0)
    a_amount = as_arg(rng, od["req"])
    a_limit = as_arg(rng, od["limit"], False) if od["limit"] is not None else None
    a_usd = as_arg(rng, od["limit_usd"], False) if od["limit_usd"] is not None else None
    a_cap = as_arg(rng, od["cap"], True) if od["cap"] is not None else None
    # the model must judge the numbers the market was actually given (a float argument is its displayed value)
    d = eng.decide(is_buy, name, F(a_amount), F(a_limit) if a_limit is not None else None,
                   F(a_usd) if a_usd is not None else None, F(a_cap) if a_cap is not None else None)
    cs.trace.append((op, name, str(a_amount), mode + ":" + od["sub"], str(a_limit), str(a_usd), str(a_cap)))
    cash_before = F(m.balance)
    if rng.random() < 0.3:
        # a quote first: estimate_cost is a read-only helper, whatever it answers (or refuses) the order that follows
        # must meet the book the model holds
        q_name = name if rng.random() < 0.8 else rng.choice(sorted(eng.books) or [name])
        q_side = ("buy" if is_buy else "sell") if rng.random() < 0.8 else ("sell" if is_buy else "buy")
        q_amount = a_amount if rng.random() < 0.6 else as_arg(rng, od["req"] * rng.choice([Fraction(1, 2), 2, 5]))
        Dr.call_op(m.estimate_cost, q_name, q_amount, q_side, a_limit if rng.random() < 0.3 else None)
        mon.hit("quote-before-order")
    res = Dr.call_op(m.buy if is_buy else m.sell, name, a_amount, a_limit, a_usd, a_cap)
    mon.hit(op)
    why = "+".join(d.why) or "plain"
    pricing = "usd" if a_usd is not None and a_limit is None else ("limit" if a_limit is not None else "market")
    if a_cap is not None:
        pricing += "+cap"
    outcome = None
    n_touched = 0
    if not res.ok:
        mon.ev()
        if not is_rejection(res.exc):
            # (whether the crash left anything behind is decided by check_state below)
            cs.viol(op, "raises", f"{pricing}:{type(res.exc).__name__}@{res.site}",
                    f"{op}({name}, {a_amount!r}, price_in_token={a_limit!r}, price_in_usd={a_usd!r}, cap={a_cap!r}) raised {res.exc!r}",
                    diverged=False)
        elif not d.reject_ok:
            cs.viol(op, "refused-fillable-order", f"{d.limit_class or (pricing + ':' + why)}@{res.site}", diverged=False, detail=
                    f"{op}({name}, {a_amount!r}, price_in_token={a_limit!r}, price_in_usd={a_usd!r}, cap={a_cap!r}) refused: "
                    f"{res.exc!r}; {side_name} {[[float(p), float(s)] for p, s in levels]} permitted "
                    f"{[(float(o.amount), [(float(p), float(s)) for p, s in o.fills]) for o in d.outcomes]}")
        outcome = "refused"
        mon.hit("refused")
        mon.cls(f"refused/{op}/{mode}/{why}/{res.site}")
    else:
        mon.hit("accepted")
        orders, fee = res.ret
        fills = [(F(o.price), F(o.amount)) for o in orders]
        fee = F(fee)
        live = [(p, s) for p, s in fills if s > TOL]
        n_touched = len(live)
        price_idx = {lv[0]: i for i, lv in enumerate(levels)}
        desc = (f"{op}({name}, {a_amount!r}, price_in_token={a_limit!r}, price_in_usd={a_usd!r}, cap={a_cap!r}) -> fills "
                f"{[(str(o.price), str(o.amount)) for o in orders]} fee {res.ret[1]}; {side_name} before "
                f"{[[float(p), float(s)] for p, s in levels]} mark {float(eng.books[name]['mark']) if name in eng.books else None!r}")
        # 1 best-first order of the fills
        mon.ev()
        ps = [p for p, _ in fills]
        if any((b <= a) if is_buy else (b >= a) for a, b in zip(ps, ps[1:])):
            cs.viol(op, "fills-not-best-first", mode, desc)
        # 2/3 each fill is at a displayed level and within its displayed size
        per_price = {}
        for p, s in fills:
            per_price[p] = per_price.get(p, Fraction(0)) + s
        for p, s in per_price.items():
            mon.ev()
            if s < 0:
                cs.viol(op, "negative-fill", mode, desc)
            elif p not in price_idx:
                if s > TOL:
                    cs.viol(op, "fill-at-price-not-in-book", mode, desc)
            elif s > levels[price_idx[p]][1] + TOL:
                cs.viol(op, "fill-exceeds-displayed-size", mode + (":after-earlier-fill" if prior else ":fresh-book"), desc)
        # 4 no better usable level left behind
        touched_idx = sorted(price_idx[p] for p, s in live if p in price_idx)
        if touched_idx and od["limit"] is None and od["limit_usd"] is None:
            mon.ev()
            usable = d.allowed_strict if d.allowed_strict is not None else list(range(len(levels)))
            for i in usable:
                if i < touched_idx[-1] and levels[i][1] - per_price.get(levels[i][0], Fraction(0)) > TOL:
                    cs.viol(op, "better-level-left-unfilled", mode, desc)
                    break
        # 5 cap
        if od["cap"] is not None and d.allowed_max is not None:
            mon.ev()
            if any(i not in d.allowed_max for i in touched_idx):
                cs.viol(op, "level-beyond-price-cap-used", mode, desc)
        # 6 limit
        if d.limit_targets is not None or d.limit_class == "off-level":
            mon.ev()
            if len(live) > 1:
                cs.viol(op, "limit-order-touched-several-levels", mode, desc)
            elif d.limit_class == "off-level" and live:
                cs.viol(op, "limit-order-filled-without-level", mode, desc)
            elif live and touched_idx and touched_idx[0] not in d.limit_targets:
                cs.viol(op, "limit-order-filled-at-another-level", f"{d.limit_class}", desc,
                        diverged=touched_idx[0] not in d.limit_neighbours)
        # 7 sum of fills = rounded request
        mon.ev()
        total = sum((s for _, s in fills), Fraction(0))
        amount = None
        for a in d.amounts or O.round_options(F(a_amount), eng.step):
            if abs(total - a) <= TOL:
                amount = a
        if amount is None:
            cs.viol(op, "fill-sum-vs-rounded-request", mode,
                    f"sum of fills {float(total)!r}, request {a_amount!r} rounds to "
                    f"{[float(a) for a in (d.amounts or O.round_options(F(a_amount), eng.step))]}; " + desc)
        # 8 orders that cannot be filled within the statement
        if not cs.violated and not d.outcomes:
            mon.ev()
            cs.viol(op, d.reject_clause or "unfillable-order-accepted", mode, desc)
        # 9 the fills are one of the permitted outcomes
        chosen = None
        if not cs.violated:
            mon.ev()
            for o in d.outcomes + d.flagged:
                if o.amount != amount:
                    continue
                bp = o.by_price()
                keys = set(bp) | set(per_price)
                if all(abs(bp.get(k, Fraction(0)) - per_price.get(k, Fraction(0))) <= TOL for k in keys):
                    chosen = o
                    break
            if chosen is None:
                cs.viol(op, "fills-vs-model", mode,
                        desc + f" permitted {[(float(o.amount), [(float(p), float(s)) for p, s in o.fills]) for o in d.outcomes]}")
        if cs.violated:
            raise Abort()
        # 10 fee
        premium = sum((p * s for p, s in fills), Fraction(0))
        mon.ev()
        fopts = O.fee_options(amount, premium, eng.fee_step)
        binds = "rate" if O.FEE_RATE * amount <= O.FEE_CAP * premium else "premium-cap"
        if fee not in fopts:
            cs.viol(op, "fee", f"{binds}-binds",
                    f"fee {res.ret[1]} expected {[str(dec_of(x, 10)) for x in fopts]} = round(min(0.0003*{float(amount)!r}, "
                    f"0.125*{float(premium)!r})) at step {float(eng.fee_step)!r}; " + desc)
        mon.cls(f"fee/{binds}" + ("/tie" if len(fopts) > 1 else ""))
        # 11 cash moved by exactly premium +- fee of the reported fills
        mon.ev()
        want = cash_before - premium - fee if is_buy else cash_before + premium - fee
        if abs(F(m.balance) - want) > CASH_REL * max(1, abs(want)):
            cs.viol(op, "cash-vs-reported-fills", mode,
                    f"cash {float(cash_before)!r} -> {m.balance}, expected {float(want)!r} (premium {float(premium)!r} fee {float(fee)!r}); " + desc)
        if cs.violated:
            raise Abort()
        eng.commit(is_buy, name, amount, fills, fee)
        outcome = "filled"
        mon.cls(f"filled/{op}/{mode}/{why}/levels={min(n_touched, 5)}")
    # state after the order (accepted or refused): cash, positions, all books, equity
    check_state(cs, m, eng, op, mode, "after-" + outcome, touched=(name, side_name))
    # classes
    nontrivial = (outcome == "filled" and n_touched >= 2) or prior >= 1
    key = (f"{eng.token}/{op}/{mode}:{od['sub']}/{od['size_class']}/{od['frac']}/L{min(n_touched, 6)}/P{min(prior, 3)}/"
           f"{why}/{outcome}/{size_kind}/{'R' if after_refresh else 'F'}")
    if nontrivial:
        mon.nt(key)
        mon.hit("nontrivial")
        if outcome == "filled" and n_touched >= 2:
            mon.hit("multi-level-fill")
        if prior >= 1:
            mon.hit("after-earlier-fill")
    if outcome == "filled" and prior >= 1 and rng.random() < 0.2:
        mon.sample({"token": eng.token, "order": cs.trace[-1], "book_before": [[float(p), float(s)] for p, s in levels],
                    "fills": [(str(o.price), str(o.amount)) for o in res.ret[0]], "fee": str(res.ret[1]),
                    "cash_after": str(m.balance), "earlier_fills_on_side": prior},
                   cls=f"{op}/{mode}/{min(n_touched, 3)}")
    return outcome


# ------------------------------------------------------------------------------------------------ one case
def one_case(mon, rng, c, scene=None):
    token = rng.choice(["ETH", "ETH", "BTC"])
    style = rng.choice(["base", "any", "any", "any", "cheap", "high", "dyadic", "mid"])
    size_kind = rng.choice(["int", "float", "mixed", "mixed", "one"])
    n_instr = rng.randint(1, 3)
    if scene == "sweep":
        # a fill of part of the best level, then an order for exactly the rest of the side, on a book whose sizes are
        # on the 0.1 grid (15.3 - 0.1 is not a float difference): the second order's fills must add up to the request,
        # cash and averages must follow from them
        token, size_kind, style = "BTC", "float", rng.choice(["any", "high", "mid"])
    w = BookWorld(rng, token, n_instr, hours=3, style=style, size_kind=size_kind, sweep=scene == "sweep")
    m = w.market()
    from demeter.deribit import DeribitOptionMarket

    tok = DeribitOptionMarket.ETH if token == "ETH" else DeribitOptionMarket.BTC
    prices = pd.Series({tok.name: Decimal(str(round(w.under[0], 2))), token: Decimal(str(round(w.under[0], 2)))})
    fz = Dr.Frozen([m], prices, tok, {tok: Decimal(10) ** 9}, w.hours[0])
    eng = O.Engine(token)
    cs = Case(mon, rng, c)
    hour = 0
    eng.refresh(w.raw[w.hours[hour]])
    names = sorted(eng.books)
    # cash: plenty, or about the cost of part of one ask side (so that some buys cannot be paid)
    if rng.random() < 0.3 and scene is None:
        asks = eng.books[rng.choice(names)]["asks"]
        cost = sum((p * s for p, s in asks[: rng.randint(1, 4)]), Fraction(0)) * Fraction(rng.randint(30, 150), 100)
        cash0 = dec_of(max(cost, Fraction(1, 1000)), 6)
        cash_kind = "tight"
    else:
        cash0 = Decimal(rng.choice([10**6, 10**8]))
        cash_kind = "ample"
    r = Dr.call_op(m.deposit, cash0)
    if not r.ok:
        mon.violation("deribit", "deposit", "raises", r.site, repr(r.exc))
        return
    eng.deposit(cash0)
    mon.cls(f"world/{token}/{style}/{size_kind}/{cash_kind}")
    try:
        check_state(cs, m, eng, "refresh", "-", "initial-book")
        segments = rng.randint(1, 3)
        if scene == "sweep" and w.sweep:
            for req in w.sweep[1:]:
                od = gen_order(rng, eng, names, {"name": w.sweep[0], "is_buy": True, "req": req})
                if run_order(cs, m, eng, od, size_kind, False) == "filled":
                    mon.hit("sweep-scene-fill")
        for seg in range(segments):
            for _ in range(rng.randint(1, 12)):
                od = gen_order(rng, eng, names)
                run_order(cs, m, eng, od, size_kind, seg > 0)
            if seg == segments - 1:
                break
            # refresh: the same hour again, or the next hour's book
            had_fills = bool(eng.fills_since_refresh)
            if rng.random() < 0.5 and hour < len(w.hours) - 1:
                hour += 1
                kind = "next-hour"
            else:
                kind = "same-hour"
            fz.set_bar(w.hours[hour])
            eng.refresh(w.raw[w.hours[hour]])
            names = sorted(eng.books)
            mon.hit("refresh")
            mon.cls(f"refresh/{kind}/{'after-fills' if had_fills else 'no-fills'}")
            cs.trace.append(("refresh", kind))
            check_state(cs, m, eng, "refresh", "-", f"refresh-{kind}" + ("-after-fills" if had_fills else ""))
            if had_fills:
                mon.nt(f"{token}/refresh/{kind}/{style}/{size_kind}")
    except Abort:
        mon.cls("case/aborted-after-violation")


def run(spec, mon):
    n = spec["cases"]
    n_scene = 2 if spec.get("tier", "quick") == "quick" else 40
    for c in range(n + n_scene):
        rng = mon.case_rng(c)
        if not mon.want(c):
            continue
        try:
            one_case(mon, rng, c, scene=None if c < n else "sweep")
        except Exception as e:  # harness or code crashed in an unexpected place
            import traceback

            mon.violation("deribit", "sequence", "unexpected-exception", Dr.reject_site(e), traceback.format_exc()[-1500:])


def floors(merged, tier):
    out = []
    reach = merged["reach"]
    need = {"buy": 200, "sell": 60, "accepted": 100, "refused": 50, "multi-level-fill": 20, "after-earlier-fill": 50,
            "refresh": 10, "sweep-scene-fill": 6}
    for k, v in need.items():
        if reach.get(k, 0) < v:
            out.append(f"reach {k} = {reach.get(k, 0)} < {v}")
    cl = merged["classes"]
    for prefix, v in (("filled/buy/limit", 5), ("filled/sell/market", 5), ("filled/buy/cap", 5), ("fee/premium-cap", 5),
                      ("fee/rate", 20), ("equity/with-positions", 50)):
        n = sum(cnt for k, cnt in cl.items() if k.startswith(prefix))
        if n < v:
            out.append(f"class {prefix}* seen {n} < {v} times")
    return out
