"""C05 — each bar runs once, in order, with a fixed phase order; action records and account history align with bars.

Offline trace checker (vmon/oracles/barlog.py) over an event log.  Recording wrappers are installed from here, at
run time, as class attributes on demeter's classes (strategy hooks, set_market_status / update of every market type
used, Trigger.when / Trigger.do, Actuator._record_action_list = the action-record callback); the real Actuator.run
then executes a generated strategy over generated market mixes, and the log is checked afterwards against the trace
language of DESIGN.md §4 C05 with an independently computed bar index and price table."""
import math
import traceback
from datetime import datetime, timedelta
from decimal import Decimal

from .. import drive as Dr
from .. import opsgen as G
from .. import worlds as W
from ..oracles import barlog as O

ID = "C05"
NSHARDS = 16
MIXES = ("uni", "uni+aave", "uni+deribit", "squeeth", "aave+squeeth+deribit", "uni+gmx+gmx2", "deribit", "all")
INTERVALS = ("1min", "5min", "1h", "4h")
LENGTHS = (1, 2, 7, 60, 61, 1440)
STEP_MIN = {"1min": 1, "5min": 5, "1h": 60, "4h": 240, "min": 1, "h": 60, "60min": 60, "240min": 240, "15min": 15, "2h": 120,
            "7min": 7, "45min": 45, "D": 1440}
VARIANTS = ("min", "h", "60min", "240min", "15min", "2h", "7min", "45min", "D")  # other spellings / widths, random cases only
PHASES = ("initialize", "before_bar", "trigger", "on_bar", "after_bar", "notify")
META = {
    "level": "exploration",
    "rule": "a case = one Actuator.run of a generated strategy (operations from the per-market kits issued in initialize, "
    "before_bar, trigger actions, on_bar, after_bar and inside notify; triggers registered in initialize and later) over a "
    "market mix x bar interval (1min/5min/1h/4h) x history length (1, 2, 7, 60, 61, 1440 minutes + random), start on and "
    "off the interval grid; mixes put minutely markets (uniswap, aave, squeeth+its pool, gmx v1/v2) next to the hourly "
    "Deribit book and include scripted portfolios that make the markets themselves act in update() (aave liquidation, "
    "option delivery/expiry, squeeth liquidation / debt reduction). Evaluations = comparisons of the log checker (hook "
    "order and bar seen per hook, market status per hook, update exactly once per market per bar and inside its window, "
    "market row cells per hook, trigger window and fire counts, per action: stamp, delivery count, delivery bar, per accepted "
    "operation: record produced, history list / dataframe rows, timestamps and prices). Non-trivial = a bar in which at least one action was "
    "recorded; distinct by (interval, mix, phases in which actions were recorded, market-generated action types).",
    "assumptions": [
        "resampled time index = left-labelled bins of the interval aligned to midnight (what pandas resample yields by default) "
        "from the first to the last timestamp of the market with the most timestamps; a bin's prices are its first price row",
        "worlds keep the index-defining market free of gaps and every other market / the price table covering the same range; "
        "the hourly book alone is run at 1min (bars = book hours, holes allowed), 1h and 4h only",
        "operations issued in initialize() belong to bar 0 (the timestamp current when it runs); nothing is issued in finalize()",
        "the extra market-status refresh after on_bar is recorded and only required to carry the bar's own timestamp",
        "'the strategy sees bar t' is read off the hooks: snapshot.timestamp, every market's market_status.timestamp, and cells of "
        "every market's status row (ticks, indices, norm factor, pool figures, book underlying) which must be among the raw rows "
        "inside the bar's bin (how a bin is aggregated is not prescribed; the hourly book shows the rows of the bar's hour)",
        "'produces its action record' is required of accepted operations that have an action type: exempt are aave "
        "change_collateral, wallet subtract_from_balance, and helpers that legitimately do nothing (remove_all_liquidity without "
        "positions, even_rebalance of a balanced wallet, collect_fee / remove_liquidity(collect) of nothing)",
        "triggers: the fire count per bar is asserted for triggers registered in initialize (a trigger object firing on given "
        "bars, AtTimeTrigger on a bar); for triggers added later only the window and the bar they see",
        "identity of action objects: the same Python object must reach the record callback once, Actuator.actions and notify()",
    ],
}


def plan(tier, seed):
    n = 72 if tier == "quick" else 1000
    return [{"shard": i, "cases": n} for i in range(NSHARDS)]


def norm(ts):
    """naive python datetime (or None) from Timestamp / datetime / numpy datetime64"""
    if ts is None:
        return None
    import pandas as pd

    t = pd.Timestamp(ts)
    if t is pd.NaT:
        return None
    return t.to_pydatetime()


# ================================================================================================ recording
class Rec:
    def __init__(self):
        self.log = []
        self.keep = []  # keeps action objects alive so that id() stays unique
        self.ids = {}
        self.fingerprints = {}  # market name -> callable() -> [(column, value)] read from the market's current status row

    def uid(self, obj):
        k = id(obj)
        if k not in self.ids:
            self.ids[k] = len(self.ids)
            self.keep.append(obj)
        return self.ids[k]


REC = None  # recorder of the running case (None: wrappers pass through)
_wrapped = set()
_strategy_cls = None


def _wrap_attr(cls, name, make):
    """class-attribute wrapper on the class that defines `name` (once per process)"""
    for c in cls.__mro__:
        if name in c.__dict__:
            key = (c, name)
            if key in _wrapped:
                return
            _wrapped.add(key)
            setattr(c, name, make(c.__dict__[name]))
            return


def _mk_set(fn):
    def set_market_status(self, data, price, *a, **kw):
        r = REC
        if r is not None:
            r.log.append(("SET", self.market_info.name, norm(getattr(data, "timestamp", None))))
        return fn(self, data, price, *a, **kw)

    set_market_status.__wrapped__ = fn
    return set_market_status


def _mk_update(fn):
    def update(self, *a, **kw):
        r = REC
        if r is None:
            return fn(self, *a, **kw)
        r.log.append(("UB", self.market_info.name))
        try:
            return fn(self, *a, **kw)
        finally:
            r.log.append(("UE", self.market_info.name))

    update.__wrapped__ = fn
    return update


def _mk_when(fn):
    def when(self, snapshot, *a, **kw):
        r = REC
        if r is None:
            return fn(self, snapshot, *a, **kw)
        tid = getattr(self, "_c05_tid", None)
        r.log.append(("WB", tid, norm(snapshot.timestamp)))
        res = None
        try:
            res = fn(self, snapshot, *a, **kw)
            return res
        finally:
            r.log.append(("WE", tid, bool(res)))

    return when


def _mk_do(fn):
    def do(self, snapshot, *a, **kw):
        r = REC
        if r is None:
            return fn(self, snapshot, *a, **kw)
        tid = getattr(self, "_c05_tid", None)
        r.log.append(("DB", tid, norm(snapshot.timestamp)))
        try:
            return fn(self, snapshot, *a, **kw)
        finally:
            r.log.append(("DE", tid))

    return do


def _mk_record(fn):
    def _record_action_list(self, action):
        r = REC
        out = fn(self, action)
        if r is not None:
            r.log.append(("ACT", r.uid(action), getattr(getattr(action, "market", None), "name", "?"), type(action).__name__))
        return out

    return _record_action_list


def _mk_hook(name, fn):
    if name == "notify":
        def notify(self, action):
            r = REC
            if r is None:
                return fn(self, action)
            u = r.uid(action)
            r.log.append(("NB", u, norm(action.timestamp)))
            try:
                return fn(self, action)
            finally:
                r.log.append(("NE", u))

        return notify

    def hook(self, *a):
        r = REC
        if r is None:
            return fn(self, *a)
        ts = obs = None
        if a:
            ts = norm(a[0].timestamp)
            hist = self.account_status
            obs = {
                "mts": {mi.name: norm(m.market_status.timestamp) for mi, m in self.broker.markets.items()},
                "rows": len(hist),
                "last_row_ts": norm(hist[-1].timestamp) if len(hist) else None,
                "fp": {nm: g() for nm, g in r.fingerprints.items()},
            }
        r.log.append(("HB", name, ts, obs))
        try:
            return fn(self, *a)
        finally:
            r.log.append(("HE", name))

    hook.__name__ = name
    return hook


def strategy_class():
    """The strategy whose hooks run the generated script; the recording wrappers are put on it as class attributes."""
    global _strategy_cls
    if _strategy_cls is not None:
        return _strategy_cls
    from demeter import Strategy

    class TraceStrategy(Strategy):
        def __init__(self, case):
            super().__init__()
            self.case = case

        def initialize(self):
            self.case.phase(self, "initialize", None)

        def before_bar(self, snapshot):
            self.case.i += 1
            self.case.phase(self, "before_bar", snapshot)

        def on_bar(self, snapshot):
            self.case.phase(self, "on_bar", snapshot)

        def after_bar(self, snapshot):
            self.case.phase(self, "after_bar", snapshot)

        def notify(self, action):
            self.case.notified(self, action)

        def finalize(self):
            pass

    for name in ("initialize", "before_bar", "on_bar", "after_bar", "notify", "finalize"):
        setattr(TraceStrategy, name, _mk_hook(name, TraceStrategy.__dict__[name]))
    class TraceStrategyMember(TraceStrategy):
        """a member of a strategy family: every hook is inherited from the intermediate class"""

    _strategy_cls = (TraceStrategy, TraceStrategyMember)
    return _strategy_cls


def install(markets, trigger_classes):
    from demeter import Actuator
    from demeter.strategy.trigger import Trigger

    _wrap_attr(Actuator, "_record_action_list", _mk_record)
    _wrap_attr(Trigger, "do", _mk_do)
    for tc in trigger_classes:
        _wrap_attr(tc, "when", _mk_when)
        _wrap_attr(tc, "do", _mk_do)
    for m in markets:
        _wrap_attr(type(m), "set_market_status", _mk_set)
        _wrap_attr(type(m), "update", _mk_update)


_bar_trigger_cls = None


def bar_trigger_class():
    global _bar_trigger_cls
    if _bar_trigger_cls is None:
        from demeter.strategy.trigger import Trigger

        class BarTrigger(Trigger):
            """fires on the bars whose timestamp is in `times`"""

            def __init__(self, times, do, **kw):
                super().__init__(do, **kw)
                self.times = set(times)

            def when(self, snapshot):
                return snapshot.timestamp in self.times

        _bar_trigger_cls = BarTrigger
    return _bar_trigger_cls


# ================================================================================================ worlds
class SqWorld(W.SqueethWorld):
    """worlds.SqueethWorld with one upward jump of ETH (squeeth shorts get liquidated) at a chosen minute."""

    def __init__(self, rng, n, start, jump_at, jump_x):
        import pandas as pd

        self.index = [start + timedelta(minutes=i) for i in range(n)]
        eth = rng.uniform(800, 4000)
        nf = rng.uniform(0.2, 0.9)
        prem = rng.uniform(1.0, 1.2)
        rows, ticks = [], []
        for i in range(n):
            eth *= math.exp(rng.gauss(0, 0.0006)) * (jump_x if i == jump_at else 1.0)
            nf *= 1 - rng.uniform(0, 2e-6)
            prem *= math.exp(rng.gauss(0, 0.0008))
            prem = min(1.4, max(0.9, prem))
            osqth_eth = eth * nf / 10000 * prem
            rows.append({"norm_factor": W.D(f"{nf:.15g}"), "WETH": W.D(f"{eth:.10g}"), "OSQTH": W.D(f"{osqth_eth:.12g}")})
            ticks.append(int(math.floor(math.log(1 / osqth_eth) / W.LOG_1P0001)))
        self.data = pd.DataFrame(rows, index=pd.DatetimeIndex(self.index))
        self.data.index.name = "block_timestamp"
        self.ticks = ticks
        liq = [10 ** rng.uniform(19, 23)] * n
        vols = [(rng.uniform(0, 50) * 1e18, rng.uniform(0, 500) * 1e18) for _ in range(n)]
        self.uni_raw = W.uni_raw(rng, self.index, ticks, ticks[0], liq, vols, "float")


def fpv(x):
    """canonical text of a data cell (Decimal as is, numbers through float)"""
    if isinstance(x, Decimal):
        return "D" + str(x)
    try:
        return "f" + repr(float(x))
    except Exception:  # noqa
        return "s" + str(x)


def floor_to(ts: datetime, step_min: int, origin: datetime = None) -> datetime:
    """start of the bin of width step_min that holds ts; bins are counted from midnight of `origin`'s day"""
    day = (origin or ts).replace(hour=0, minute=0, second=0, microsecond=0)
    mins = int((ts - day).total_seconds() // 60)
    return day + timedelta(minutes=(mins // step_min) * step_min)


def expected_index(times, interval):
    """times: sorted unique timestamps of the index-defining market (independent of demeter's resampling)"""
    if interval in ("1min", "min"):
        return list(times)
    step = STEP_MIN[interval]
    a, b = floor_to(times[0], step, times[0]), floor_to(times[-1], step, times[0])
    out = []
    while a <= b:
        out.append(a)
        a += timedelta(minutes=step)
    return out


def expected_prices(price_rows, index, interval):
    """price_rows: [(ts, {token: Decimal})] sorted; the bar's prices = first row of the bin"""
    step = timedelta(minutes=STEP_MIN[interval])
    out = []
    k = 0
    for t in index:
        while k < len(price_rows) and price_rows[k][0] < t:
            k += 1
        if k < len(price_rows) and price_rows[k][0] < t + step:
            out.append(price_rows[k][1])
        else:
            out.append(None)
    return out


class World:
    """market mix + price table + kits + scripted portfolios that make the markets act by themselves"""

    def __init__(self, rng, mix, interval, n):
        import pandas as pd
        from demeter import TokenInfo

        self.mix, self.interval, self.n = mix, interval, n
        parts = mix.split("+") if mix != "all" else ["uni", "aave", "deribit", "squeeth", "gmx", "gmx2"]
        step = STEP_MIN[interval]
        off = rng.choice([0, 0, 0, 3, 17, 59, 187, 235])  # minutes after a 4h boundary
        if mix == "deribit":
            off = rng.choice([0, 0, 60, 180])
        day = W.T0 + timedelta(days=rng.randint(0, 300))
        self.start = start = day + timedelta(hours=rng.choice([0, 4, 8, 20])) + timedelta(minutes=off)
        self.aligned = (off % step == 0)
        idx = [start + timedelta(minutes=i) for i in range(n)]
        self.markets, self.kits, self.seeds, self.times = [], [], [], {}
        self.fp_get, self.fp_raw = {}, {}  # fingerprints: what a market's status row shows / the raw rows it may come from
        frames = []
        assets = {}
        self.dm = self.am = self.sm = None
        big = Decimal(10) ** 7

        if mix == "deribit":
            # the hourly book alone: n is taken as minutes of history -> hours
            H = n if (n <= 48 and n not in (60, 61)) else min(48, (n + 59) // 60)
            hour0 = start.replace(minute=0)
            self.start = start = hour0
            miss = ()
            if step == 1 and H >= 4 and rng.random() < 0.5:
                miss = tuple(hour0 + timedelta(hours=h) for h in rng.sample(range(1, H - 1), rng.choice([1, 2])))
            self._deribit(rng, hour0, H, miss)
            hours = [hour0 + timedelta(hours=h) for h in range(H)]
            frames.append(pd.DataFrame({"ETH": [W.D(f"{u:.2f}") for u in self.dw.under]}, index=pd.DatetimeIndex(hours)))
            idx = hours
        for p in parts:
            if p == "uni":
                uw = W.UniWorld(rng, n=n, start=start, names=("USDC", "WETH"), d0=6, d1=18, token0_is_quote=rng.random() < 0.6,
                                fee=rng.choice([0.05, 0.3, 1]), price=rng.uniform(1500, 3500), path=rng.choice(["walk", "calm", "jump"]),
                                liq_exp=rng.uniform(14, 24), vol_scale=10 ** rng.uniform(0, 4))
                um = uw.market("uni")
                self.markets.append(um)
                self.kits.append(G.UniKit(um))
                self.times["uni"] = idx
                self._fp_series("uni", um, idx, {"closeTick": uw.raw["closeTick"].tolist(), "openTick": uw.raw["openTick"].tolist()})
                pdf, _q = um.get_price_from_data()
                frames.append(pdf)
                self.um = um
            elif p == "aave":
                toks = (("WETH", 18), ("USDC", 6), ("WBTC", 8), ("DAI", 18))
                aw = W.AaveWorld(rng, n=n, tokens=toks, start=start, all_flags=True, index_kind=rng.choice(["slow", "jumpy"]),
                                 prices=pd.DataFrame())
                am = aw.market("aave")
                self.markets.append(am)
                self.kits.append(G.AaveKit(am, aw))
                self.times["aave"] = idx
                self._fp_series("aave", am, idx, {("WBTC", "liquidity_index"): aw.data["WBTC"]["liquidity_index"].tolist(),
                                                  ("DAI", "variable_borrow_index"): aw.data["DAI"]["variable_borrow_index"].tolist()})
                # collateral price path: flat, then one or two crashes sized to push the health factor under 1
                risk = aw.risk["WBTC"]
                f1 = float(Decimal("0.93") * risk["ltv"] * Decimal("0.96") / risk["lt"])
                k1 = rng.randint(1, max(1, n - 1)) if n > 1 else 0
                k2 = rng.randint(k1, n - 1) if n > 2 else n
                p, col = 40000.0, []
                for i in range(n):
                    p *= math.exp(rng.gauss(0, 0.0004))
                    if n > 1 and i == k1:
                        p *= f1
                    if n > 2 and i == k2 and k2 > k1:
                        p *= 0.8
                    col.append(W.D(f"{p:.8g}"))
                frames.append(pd.DataFrame({"WBTC": col, "DAI": [Decimal(1)] * n, "USDC": [Decimal(1)] * n,
                                            "WETH": [W.D(f"{2000 + i % 7:.1f}") for i in range(n)]}, index=pd.DatetimeIndex(idx)))
                self.am, self.aw = am, aw
                self.seeds.append(self._seed_aave)
            elif p == "squeeth":
                jump_at = rng.randint(1, max(1, n - 1)) if n > 1 else 5
                sw = SqWorld(rng, n, start, jump_at, rng.choice([1.25, 1.5, 2.0]))
                um2, sm = sw.markets("sqpool", "squeeth")
                self.markets += [um2, sm] if rng.random() < 0.7 else [sm, um2]
                self.kits += [G.SqueethKit(sm, um2), G.UniKit(um2)]
                self.times["sqpool"] = self.times["squeeth"] = idx
                self._fp_series("squeeth", sm, idx, {"norm_factor": sw.data["norm_factor"].tolist(), "WETH": sw.data["WETH"].tolist()})
                self._fp_series("sqpool", um2, idx, {"closeTick": sw.uni_raw["closeTick"].tolist(), "openTick": sw.uni_raw["openTick"].tolist()})
                frames.insert(0, sw.prices())  # WETH / OSQTH as the squeeth data has them
                self.sm, self.um2 = sm, um2
                self.seeds.append(self._seed_squeeth)
            elif p == "gmx":
                gw = W.GmxWorld(rng, n=n, start=start)
                gm = gw.market("gmx")
                self.markets.append(gm)
                self.kits.append(G.GmxKit(gm, gw))
                self.times["gmx"] = idx
                self._fp_series("gmx", gm, idx, {"aum": gw.data["aum"].tolist(), "weth_price": gw.data["weth_price"].tolist()})
                frames.append(gw.prices())
            elif p == "gmx2":
                g2 = W.Gmx2World(rng, n=n, start=start)
                m2 = g2.market("gmx2")
                self.markets.append(m2)
                self.kits.append(G.Gmx2Kit(m2, g2))
                self.times["gmx2"] = idx
                self._fp_series("gmx2", m2, idx, {"longPrice": g2.data["longPrice"].tolist(), "poolValue": g2.data["poolValue"].tolist()})
                frames.append(g2.prices())
            elif p == "deribit" and mix != "deribit":
                hour0 = idx[0].replace(minute=0)
                H = int((idx[-1].replace(minute=0) - hour0).total_seconds() // 3600) + 1
                miss = ()
                if step <= 60 and H >= 3 and rng.random() < 0.3:  # holes in the book (no resampling of the book up to 1 h)
                    miss = tuple(hour0 + timedelta(hours=h) for h in rng.sample(range(0, H), rng.choice([1, 2])))
                self._deribit(rng, hour0, H, miss)
                frames.append(pd.DataFrame({"ETH": self.dw.minute_prices(idx)}, index=pd.DatetimeIndex(idx)))
        # market order: the index-defining market is the first with the most timestamps; keep a minutely one first on ties
        if mix != "deribit" and self.dm is not None:
            rest = [m for m in self.markets if m is not self.dm]
            pos = rng.randint(1 if len(self.times["deribit"]) >= n else 0, len(rest))
            self.markets = rest[:pos] + [self.dm] + rest[pos:]
        elif mix != "deribit":
            rng.shuffle(self.markets)
        # price table: first frame that has a column wins; it has to cover every market, so it starts with the book's
        # first hour when that is earlier than the first minute row (first values repeated)
        cols = {}
        for f in frames:
            for c in f.columns:
                if c not in cols:
                    cols[c] = [W.D(x) for x in f[c].tolist()]
        pidx = list(idx)
        if mix != "deribit" and self.dm is not None:
            lead = int((idx[0] - idx[0].replace(minute=0)).total_seconds() // 60)
            pidx = [idx[0] - timedelta(minutes=lead - j) for j in range(lead)] + pidx
            cols = {c: [v[0]] * lead + v for c, v in cols.items()}
        self.prices = pd.DataFrame(cols, index=pd.DatetimeIndex(pidx))
        self.price_rows = [(pidx[i], {c: cols[c][i] for c in cols}) for i in range(len(pidx))]
        for c in cols:
            assets[TokenInfo(c, 18)] = big
        for m in self.markets:
            for attr in ("base_token", "quote_token", "token0", "token1", "token", "long_token", "short_token"):
                t = getattr(m, attr, None)
                if t is not None and hasattr(t, "decimal") and t.name != "USD":
                    assets[t] = big
        if self.am is not None:
            for t in self.aw.tokens:
                assets[t] = big
        self.assets = assets
        self.kits.append(G.BrokerKit([t for t in assets]))
        names = [m.market_info.name for m in self.markets]
        counts = [len(self.times[nm]) for nm in names]
        self.index_market = names[counts.index(max(counts))]
        self.expected = expected_index(sorted(set(self.times[self.index_market])), interval)
        self.exp_prices = expected_prices(self.price_rows, self.expected, interval)

    # ------------------------------------------------------------------ parts
    def _fp_series(self, name, market, idx, cols):
        self.fp_raw[name] = {c: [(idx[i], fpv(v)) for i, v in enumerate(vals)] for c, vals in cols.items()}
        keys = list(cols)

        def get():
            d = market.market_status.data
            return [(str(c), fpv(d[c])) for c in keys]

        self.fp_get[name] = get

    def allowed_rows(self):
        """per bar and market: {column: set of raw values the bar's row may show} = the raw rows inside the bar's bin
        (1min: the row itself; the hourly book without resampling: the rows of the bar's hour)"""
        step = STEP_MIN[self.interval]
        out = [dict() for _ in self.expected]
        pos = {t: i for i, t in enumerate(self.expected)}
        for name, cols in self.fp_raw.items():
            hourly = cols.get("__hourly__", False)
            for col, rows in cols.items():
                if col == "__hourly__":
                    continue
                if hourly and step <= 60:
                    by_hour = {}
                    for ts, v in rows:
                        by_hour.setdefault(ts, set()).add(v)
                    for i, t in enumerate(self.expected):
                        out[i].setdefault(name, {})[str(col)] = by_hour.get(t.replace(minute=0), set())
                    continue
                for d in out:
                    d.setdefault(name, {})[str(col)] = set()
                for ts, v in rows:
                    i = pos.get(ts if step == 1 else floor_to(ts, step, self.expected[0]))
                    if i is not None:
                        out[i][name][str(col)].add(v)
        return out

    def _deribit(self, rng, hour0, H, missing):
        n_i = rng.randint(2, 5)
        exps = []
        for j in range(n_i):
            r = rng.random()
            if r < 0.25:
                exps.append(hour0 - timedelta(hours=rng.choice([0, 1, 8])))  # due at the first open bar
            elif r < 0.85 and H > 1:
                exps.append(hour0 + timedelta(hours=rng.randint(1, H - 1), minutes=rng.choice([0, 0, 0, 30])))
            else:
                exps.append(hour0 + timedelta(hours=H + rng.randint(0, 30)))
        self.dw = dw = W.DeribitWorld(rng, hours=H, start=hour0, n_instr=n_i, token="ETH", expiries=exps, closed_prob=0.03,
                                      missing_hours=missing, size_kind="int", level_max=5)
        self.dm = dm = dw.market("deribit")
        self.markets.append(dm)
        self.kits.append(G.DeribitKit(dm, dw))
        self.times["deribit"] = sorted(set(t.to_pydatetime() for t in dw.data.index.get_level_values(0)))
        raw = [(t.to_pydatetime(), fpv(v)) for (t, _nm), v in dw.data["underlying_price"].items()]
        self.fp_raw["deribit"] = {"underlying_price": raw, "__hourly__": True}

        def book_fp():
            d = dm.market_status.data
            if d is None or len(d.index) == 0:
                return []
            return [("underlying_price", fpv(v)) for v in d["underlying_price"].tolist()]

        self.fp_get["deribit"] = book_fp
        self.seeds.append(self._seed_deribit)
        self._dr_cash = False

    # ------------------------------------------------------------------ scripted portfolios (run as operations)
    def _seed_aave(self, case, phase):
        """bar 0: supply WBTC as collateral and borrow DAI close to the limit; re-lever now and then"""
        am = self.am
        if phase not in ("initialize", "on_bar") or case.rng.random() > (1.0 if not am.supply_keys else 0.04):
            return
        tok = {t.name: t for t in self.aw.tokens}
        if not am.supply_keys:
            case.op("aave", "supply", "seed", lambda: am.supply(tok["WBTC"], Decimal(case.rng.choice([1, 10, 250])), True), True)
        case.op("aave", "borrow", "seed", lambda: am.borrow(tok["DAI"], am.get_max_borrow_amount(tok["DAI"]) * Decimal("0.96")), True)

    def _seed_squeeth(self, case, phase):
        sm = self.sm
        if phase not in ("initialize", "before_bar", "on_bar") or case.rng.random() > (0.7 if not sm.vault else 0.03):
            return
        eth = Decimal(case.rng.choice([5, 40, 300]))
        rate = Decimal(case.rng.choice(["1.51", "1.55", "1.7"]))
        case.op("squeeth", "open_deposit_mint_by_collat_rate", "seed", lambda: sm.open_deposit_mint_by_collat_rate(eth, rate), True)

    def _seed_deribit(self, case, phase):
        """open bars: fund the account once, buy what expires next"""
        dm = self.dm
        if phase == "notify" or not dm.is_open:
            return
        ts = dm.market_status.timestamp
        if ts is None or ts != ts.floor("1h") or case.rng.random() > 0.6:
            return
        if not self._dr_cash:
            self._dr_cash = True
            case.op("deribit", "deposit", "seed", lambda: dm.deposit(Decimal(50000)), True)
        data = dm.market_status.data
        if data is None or len(data.index) == 0:
            return
        names = [nm for nm in data.index if len(data.loc[nm]["asks"]) > 0 and data.loc[nm]["state"] == "open"]
        if not names:
            return
        names.sort(key=lambda nm: data.loc[nm]["expiry_time"])
        nm = names[min(len(names) - 1, int(case.rng.random() ** 2 * len(names)))]
        case.op("deribit", "buy", "seed", lambda: dm.buy(nm, Decimal(case.rng.choice([1, 1, 2, 3]))), True)


# ================================================================================================ one case
MTYPE = {"uni": "uniswap", "sqpool": "uniswap"}  # market instance name -> market type used in mechanism keys
NO_RECORD_OK = {("aave", "change_collateral"), ("broker", "subtract_from_balance")}  # no action type exists for these


class Case:
    def __init__(self, mon, rng, c, mix, interval, n, tier):
        self.mon, self.rng, self.c = mon, rng, c
        self.w = World(rng, mix, interval, n)
        self.i = -1  # own bar counter (before_bar increments it)
        self.broker = None
        self.nops = 0
        nb = len(self.w.expected)
        # operation density: a few per bar on short runs, sparse on long ones
        self.density = rng.choice([0.15, 0.4, 0.8]) if nb <= 80 else (rng.choice([0.05, 0.12]) if nb <= 400 else 0.02)
        self.phase_w = {p: rng.choice([0.0, 0.5, 1.0, 1.0]) for p in PHASES}
        self.phase_w[rng.choice(PHASES[1:5])] = 1.0
        self.notify_budget = rng.choice([0, 2, 6, 20])
        self.in_notify_op = False
        self.spawned = set()
        self.trig_specs = {}
        self.late_trigger_bar = rng.randrange(nb) if rng.random() < 0.4 else None

    # ------------------------------------------------------------------ operations
    def op(self, market, label, cls, fn, must):
        r = REC
        opid = self.nops
        self.nops += 1
        before = None
        if must:
            try:
                before = Dr.project(self.broker)
            except Exception:  # noqa
                must = False
        r.log.append(("OB", opid, market, label, bool(must)))
        n0 = len(r.log)
        res = Dr.call_op(fn)
        changed = None
        if must and res.ok and not any(e[0] == "ACT" for e in r.log[n0:]):
            # an accepted call that left wallet, positions and book exactly as they were has nothing to record
            try:
                changed = bool(Dr.diff_proj(before, Dr.project(self.broker)))
            except Exception:  # noqa
                changed = None
            self.mon.hit("accepted_without_record/" + ("state-changed" if changed else "no-effect"))
        r.log.append(("OE", opid, res.ok, changed))
        self.mon.hit("ops")
        if res.ok:
            self.mon.hit("ops_accepted")
        return res

    def random_op(self, strat, phase):
        rng = self.rng
        kit = rng.choice(self.w.kits)
        try:
            if isinstance(kit, G.BrokerKit):
                o = kit.gen(rng, strat.broker, self.prices_now(strat))
            else:
                o = kit.gen(rng, strat.broker)
        except Exception:  # noqa: the kit could not read a state (closed book, empty frame ...)
            self.mon.hit("kit_gen_failed")
            return
        self.op(o.market, o.label, o.cls, o.fn, (o.market, o.label) not in NO_RECORD_OK)

    def prices_now(self, strat):
        w = self.w
        i = max(0, min(self.i, len(w.exp_prices) - 1))
        import pandas as pd

        row = dict(w.exp_prices[i] or w.price_rows[0][1])
        row["USD"] = Decimal(1)
        return pd.Series(row)

    # ------------------------------------------------------------------ hooks of the strategy
    def phase(self, strat, phase, snapshot):
        rng = self.rng
        self.broker = strat.broker
        if phase == "initialize":
            self.register_triggers(strat)
        if phase == "before_bar" and self.late_trigger_bar == self.i:
            T = bar_trigger_class()
            t = T(set(self.w.expected), lambda snap: self.phase(strat, "trigger", snap))
            t._c05_tid = "late"
            strat.triggers.append(t)
        for seed in self.w.seeds:
            try:
                seed(self, phase)
            except Exception:  # noqa: harness-side read of a state that is not there
                self.mon.hit("seed_failed")
        if self.phase_w[phase] <= 0:
            return
        p = self.density * self.phase_w[phase]
        k = 0
        while k < 3 and rng.random() < p:
            self.random_op(strat, phase)
            k += 1

    def notified(self, strat, action):
        if self.notify_budget <= 0 or self.phase_w["notify"] <= 0:
            return
        if id(action) in self.spawned or self.rng.random() > 0.3:
            return
        self.notify_budget -= 1
        n0 = len(strat.actions)
        self.random_op(strat, "notify")
        for a in strat.actions[n0:]:
            self.spawned.add(id(a))  # what an operation inside notify() records does not spawn again

    def register_triggers(self, strat):
        from demeter.strategy.trigger import AtTimeTrigger

        rng, exp = self.rng, self.w.expected
        T = bar_trigger_class()
        kinds = rng.choice([(), ("bars",), ("bars", "at"), ("at",), ("bars", "bars", "at")])
        for j, kind in enumerate(kinds):
            tid = f"{kind}{j}"
            if kind == "bars":
                dens = rng.choice([0.1, 0.5, 1.0])
                times = {t for t in exp if rng.random() < dens}
                t = T(times, lambda snap: self.phase(strat, "trigger", snap))
                fires = set(times)
            else:
                when = rng.choice(exp)
                t = AtTimeTrigger(when, lambda snap: self.phase(strat, "trigger", snap))
                fires = {when}
            t._c05_tid = tid
            strat.triggers.append(t)
            self.trig_specs[tid] = {"fires": fires, "kind": kind}
        self.trig_specs["late"] = {"fires": None, "kind": "late"}

    # ------------------------------------------------------------------ run + judge
    def run(self):
        global REC
        from demeter.strategy.trigger import AtTimeTrigger

        mon, w = self.mon, self.w
        install(w.markets, [bar_trigger_class(), AtTimeTrigger])
        strat = strategy_class()[self.rng.random() < 0.5](self)  # hooks defined in its own class / inherited from a base
        rec = Rec()
        rec.fingerprints = {m.market_info.name: w.fp_get[m.market_info.name] for m in w.markets if m.market_info.name in w.fp_get}
        tag = f"{w.mix}/{w.interval}"
        ctx = {"case": self.c, "mix": w.mix, "interval": w.interval, "minutes": w.n, "start": str(w.start),
               "markets": [m.market_info.name for m in w.markets], "bars": len(w.expected)}
        REC = rec
        crashed = None
        try:
            act = Dr.build_actuator(w.markets, w.prices, None, w.assets, strat, w.interval)
            act.run(False)
        except Exception as e:  # noqa
            crashed = e
        finally:
            REC = None
        mon.hit("runs")
        mon.hit(f"runs/{w.mix}")
        mon.hit(f"runs/{w.interval if w.interval in INTERVALS else 'other-spelling-or-width'}")
        mon.hit(f"runs/len={w.n if w.n in LENGTHS else 'other'}")
        mon.hit("runs/start-" + ("on-grid" if w.aligned else "off-grid"))
        if crashed is not None:
            mon.ev()
            site = Dr.reject_site(crashed)
            tb = "".join(traceback.format_exception(crashed))
            if "/demeter/" not in tb.replace("\\", "/"):
                raise crashed
            bad_market = next((nm for pre, nm in (("gmx/market2", "gmx2"), ("gmx/", "gmx"), ("aave/", "aave"), ("squeeth/", "squeeth"),
                                                  ("deribit/", "deribit"), ("uniswap/", "uniswap")) if site.startswith(pre)), "actuator")
            mon.violation(bad_market, "run", "raises", f"{type(crashed).__name__}@{site}",
                          f"[{tag} n={w.n}] Actuator.run raised after bar {self.i}: {crashed!r}\n{tb[-1200:]}", ctx)
        R = O.check_log(rec.log, w.expected, [m.market_info.name for m in w.markets], self.trig_specs, w.allowed_rows()) if crashed is None else None
        if R is None:
            return
        # ---- history
        import pandas as pd

        final_actions = [(rec.uid(a), norm(a.timestamp)) for a in act.actions]
        status_ts = [norm(s.timestamp) for s in act.account_status]
        df = act.account_status_df
        df_index = [norm(t) for t in df.index] if df is not None else None
        df_prices, want_prices = {}, {}
        toks = [c for c in w.prices.columns]
        if df is not None and all(p is not None for p in w.exp_prices):
            for tok in toks:
                want_prices[tok] = [p[tok] for p in w.exp_prices]
                if ("price", tok) in df.columns:
                    df_prices[tok] = [x if isinstance(x, Decimal) else (None if x is None or x != x else Decimal(str(x))) for x in df[("price", tok)].tolist()]
        O.check_history(R, w.expected, final_actions, status_ts, df_index, df_prices, want_prices)
        mon.ev(R.ev)
        for (operation, clause, site, detail, data) in R.violations:
            market = (data or {}).get("market")
            market = MTYPE.get(market, market) or ("actuator" if operation in ("run", "notify", "record", "account_status", "trigger") else "market")
            mon.violation(market, operation, clause, site, f"[{tag} n={w.n} case {self.c}] {detail}", ctx)
        # ---- evidence
        st = R.stats
        mon.hit("bars", len(R.bars))
        mon.hit("set_market_status_calls", st["set"])
        mon.hit("second_refresh_calls", st["set_in_bar"])
        mon.hit("update_calls", st["update"])
        mon.hit("trigger_do", st["trigger_do"])
        mon.hit("notify_calls", st["notify"])
        mon.hit("actions", len(R.action_order))
        for k, v in st.items():
            if k.startswith("accepted@"):
                mon.hit(k, v)
        mon.cls(f"run/{tag}")
        mon.cls(f"run/len={w.n if w.n in LENGTHS else 'other'}/{w.interval}")
        nbars_act = 0
        for b in R.bars:
            if not b["actions"]:
                continue
            nbars_act += 1
            phases = sorted({a["phase"] for a in b["actions"]})
            gen = sorted({f"{a['market']}.{a['type']}" for a in b["actions"] if a["source"] == "market"})
            mon.nt(f"{w.interval}/{w.mix}/{'+'.join(phases)}/{'+'.join(gen)}")
            for a in b["actions"]:
                mon.cls(f"action/{a['source']}@{a['phase']}")
                if a["source"] == "market":
                    mon.hit(f"market-generated/{a['market']}.{a['type']}")
                    mon.cls(f"market-generated/{a['market']}.{a['type']}/{w.interval}")
            if gen:
                mon.sample({"mix": w.mix, "interval": w.interval, "minutes": w.n, "start": w.start, "bar": b["i"], "bar_ts": b["ts"],
                            "hooks": b["hooks"], "actions": [(a["market"], a["type"], a["source"], a["phase"]) for a in b["actions"]][:8]},
                           cls="gen/" + "+".join(gen))
        mon.hit("bars_with_actions", nbars_act)
        mon.sample({"mix": w.mix, "interval": w.interval, "minutes": w.n, "start": w.start, "bars": len(R.bars),
                    "index_market": w.index_market, "markets": ctx["markets"], "first_bar": w.expected[0], "last_bar": w.expected[-1],
                    "events": len(rec.log), "actions": len(R.action_order), "ops": st["ops"], "ops_accepted": st["ops_accepted"],
                    "log_head": [tuple(str(x) for x in e[:3]) for e in rec.log[:14]]}, cls=f"run/{w.interval}/{w.n in LENGTHS}")


def combos():
    out = []
    for mix in MIXES:
        for n in LENGTHS:
            for iv in INTERVALS:
                out.append((mix, iv, n))
    return out


def pick(rng, spec, c):
    """every (mix, interval, length) of the grid is run once per 12 cases x 16 shards; the rest is random.  Runs of
    1440 one-minute bars are kept to the light mixes."""
    grid = combos()
    k = spec["shard"] + NSHARDS * c
    if k < len(grid):
        mix, iv, n = grid[k]
    else:
        mix, iv = rng.choice(MIXES), rng.choice(INTERVALS + INTERVALS + VARIANTS)
        n = rng.choice([rng.randint(3, 59), rng.randint(62, 400), rng.choice(LENGTHS),
                        min(2880, STEP_MIN[iv] * rng.randint(2, 30) + rng.randint(0, STEP_MIN[iv] - 1))])
    if n > 400 and STEP_MIN[iv] == 1 and mix not in ("uni", "uni+deribit", "deribit"):
        iv = rng.choice(["5min", "1h", "4h"]) if k >= len(grid) else "5min"
    if mix == "deribit" and 1 < STEP_MIN[iv] < 60:
        iv = rng.choice(["1min", "1h", "4h"])
    return mix, iv, n


def run(spec, mon):
    for c in range(spec["cases"]):
        rng = mon.case_rng(c)
        if not mon.want(c):
            continue
        mix, iv, n = pick(rng, spec, c)
        Case(mon, rng, c, mix, iv, n, spec["tier"]).run()


def floors(merged, tier):
    out = []
    r = merged["reach"]
    k = 1 if tier == "quick" else 10
    need = {"runs": 100 * k, "bars": 3000 * k, "actions": 800 * k, "notify_calls": 800 * k, "update_calls": 5000 * k,
            "trigger_do": 100 * k, "ops_accepted": 400 * k, "bars_with_actions": 300 * k}
    for p in ("initialize", "before_bar", "trigger", "on_bar", "after_bar", "notify"):
        need[f"accepted@{p}"] = 5 * k
    for g in ("aave.LiquidationAction", "deribit.ExpiredAction", "deribit.DeliverAction", "squeeth.LiquidationAction"):
        need[f"market-generated/{g}"] = 3 * k
    for iv in INTERVALS:
        need[f"runs/{iv}"] = 10 * k
    for m in MIXES:
        need[f"runs/{m}"] = 5 * k
    for name, n in need.items():
        if r.get(name, 0) < n:
            out.append(f"{name} reached {r.get(name, 0)} times, floor {n}")
    return out
