"""C11 — Aave borrow / withdraw limits and risk figures follow the v3 definitions.

Reference model (vmon/oracles/aave_risk.py, Fraction): a scaled-balance ledger driven by the accepted operations
gives the portfolio; the Aave v3 risk definitions give the reported figures and a three-valued (accept / reject /
either inside a 1e-9 relative band) verdict for every borrow, withdraw and change_collateral request.  The real
AaveV3Market is held at one bar (drive.Frozen) under hostile price vectors and is asked for amounts placed at
0.5x ... 2x of the *true* limits, for its own max-helper amounts, and for collateral switches with the debt tuned
to either side of the health-factor limit."""
import traceback
from decimal import Context, Decimal, ROUND_DOWN
from fractions import Fraction

import pandas as pd

from .. import drive as Dr
from .. import worlds as W
from ..oracles import aave_risk as O

ID = "C11"
META = {
    "level": "exploration",
    "rule": "a case = one generated market (2-5 tokens with generated LTV/LT/flags, different liquidity and borrow "
    "indices), one hostile price vector and a random walk of 25-60 steps over a portfolio of collateral / "
    "non-collateral supplies and debts: borrow / withdraw requests at 0.1x..2x of the exact limit (incl. 1+-1e-6 and "
    "in-band 1+-1e-12), None amounts, collateral switches with the debt tuned to 1+-1e-6 / 1+-1e-2 of the limit, the "
    "max helpers fed back, price shocks (under-water accounts) and bar changes.  One evaluation = one accept/reject "
    "verdict, one figure comparison, one helper clause or one post-operation invariant.  Non-trivial = a decision "
    "outside the 1e-9 band or a helper clause on an account with collateral; distinct by (operation, position of the "
    "request relative to the limit, verdict reason, outcome, #collateral / #non-collateral supplies, #debts, token "
    "role, account health class, price class).",
    "assumptions": [
        "accept/reject frontier is three-valued with a relative band of 1e-9 between the two sides of each limit; "
        "zero amounts are 'either' (the code rejects them as invalid arguments)",
        "a request for exactly the amount the market reports as supplied (or None) counts as 'everything' and is not "
        "subject to the supplied-amount band",
        "reported figures may differ from the exact definitions by 1e-28 relative (Decimal context of 35 digits)",
        "positions are compared with the ledger at 1e-25 relative + 1e-18 absolute (C10's subject; here it only guards "
        "the soundness of the portfolio the oracle reasons about); a scaled residue below 2e-18 may be dropped",
        "must-accept for borrow additionally needs borrowingEnabled, for switching collateral on usageAsCollateralEnabled; "
        "accepting such requests although the flag is off is not judged (the statement only constrains the other direction)",
        "'health factor >= 1 after an accepted operation' is demanded after borrow, collateral withdrawal and switching "
        "collateral off always, after other operations only if the account was not already below 1 (price moves are "
        "not user operations)",
        "helper clauses are judged only on accounts with collateral and only for helper results > 0; a max-borrow "
        "amount is expected to be accepted only for tokens with borrowingEnabled",
        "e-mode, isolation mode, supply/borrow caps and the zero-LTV withdrawal rule of Aave v3 are outside the statement",
        "liquidation (Market.update) is never triggered here; C12 covers it",
        "amounts carry 35 significant digits: a withdrawal verdict is 'either' when the kept collateral (supplied - "
        "requested) cannot be told from the debt within 1e-33 of the supplied value (only matters for debts below "
        "~1e-24 of the collateral)",
        "the code counts a scaled balance below 1e-18 as nothing (helper.sub_base_amount, documented); 'health factor "
        ">= 1 after an accepted withdrawal' is therefore judged up to one such dropped residue of the withdrawn "
        "collateral when a partial withdrawal removed the position (only matters for debts worth less than 1e-18 "
        "units of that collateral)",
    ],
}
NSHARDS = 16
TOKEN_POOL = [("WETH", 18), ("USDC", 6), ("WBTC", 8), ("DAI", 18), ("LINK", 18), ("AAVE", 18), ("USDT", 6)]
FIG_TOL = Fraction(1, 10**28)
POS_REL = Fraction(1, 10**25)
POS_ABS = Fraction(1, 10**18)
DUST_SCALED = Fraction(1, 10**18)  # scaled balances below this are dropped by the code (helper.MIN_TOKEN_VALUE)
CTX = Context(prec=30, rounding=ROUND_DOWN)
WIDE = Context(prec=80)
WALLET = Decimal(10) ** 24
# Aave v3 reports 0 for the weighted LTV / liquidation threshold of an account without collateral
CHECK_FIGURES_WITHOUT_COLLATERAL = True


def plan(tier, seed):
    n = 26 if tier == "quick" else 500
    return [{"shard": i, "cases": n} for i in range(NSHARDS)]


def F(x):
    return O.F(x)


def to_dec(fr: Fraction) -> Decimal:
    """Fraction -> Decimal with 30 significant digits, rounded toward zero (local context)."""
    return CTX.divide(Decimal(fr.numerator), Decimal(fr.denominator))


def is_rejection(exc):
    from demeter import DemeterError

    return isinstance(exc, (AssertionError, DemeterError))


def exc_site(exc, names=()):
    """function that rejected + its message with token names blanked (a mechanism, not a value)."""
    site = "?"
    for fs in traceback.extract_tb(exc.__traceback__):
        fn = fs.filename.replace("\\", "/")
        if "/demeter/" in fn and fs.name != "require":
            site = fn.split("/demeter/", 1)[1] + ":" + fs.name
    msg = str(exc)
    for n in sorted(names, key=len, reverse=True):
        msg = msg.replace(n, "<T>")
    return f"{site}[{type(exc).__name__}:{msg[:60]}]"


def gen_prices(rng, names, kind):
    out = {}
    for nm in names:
        if kind == "equal":
            p = 1.0
        elif kind == "tiny":
            p = 10 ** rng.uniform(-9, -5)
        elif kind == "huge":
            p = 10 ** rng.uniform(5, 9)
        elif kind == "wide":
            p = 10 ** rng.uniform(-7, 8)
        elif kind == "real":
            p = {"WETH": 2300.0, "WBTC": 43000.0, "LINK": 14.0, "AAVE": 95.0}.get(nm, 1.0) * rng.uniform(0.8, 1.25)
        else:  # mixed
            p = 10 ** rng.uniform(-3, 5)
        out[nm] = Decimal(f"{p:.{rng.choice([3, 6, 12])}g}")
    return out


def count_bucket(n):
    return str(n) if n < 4 else "4+"


class Walk:
    """One account on one real market + the reference ledger."""

    def __init__(self, mon, rng, case, price_kind):
        self.mon, self.rng, self.case = mon, rng, case
        ntok = rng.randint(2, 5)
        toks = rng.sample(TOKEN_POOL, ntok)
        if rng.random() < 0.25:
            # both USDC reserves of a chain that has the bridged coin too: two rows with the symbol USDC in the parameter file, the
            # bridged one first, each with its own risk parameters
            toks = [t for t in toks if t[0] not in ("USDC", "USDC.E")][: max(0, ntok - 2)]
            at = rng.randint(0, len(toks))
            toks = toks[:at] + [("USDC.E", 6)] + toks[at:]
            at2 = rng.randint(at + 1, len(toks))
            toks = toks[:at2] + [("USDC", 6)] + toks[at2:]
        self.index_kind = rng.choice(["flat", "slow", "jumpy", "jumpy"])
        self.w = W.AaveWorld(rng, n=4, tokens=toks, index_kind=self.index_kind, all_flags=rng.random() < 0.3)
        self.m = self.w.market()
        self.names = [t.name for t in self.w.tokens]
        self.tok = {t.name: t for t in self.w.tokens}
        self.risk = {
            k: {"ltv": F(v["ltv"]), "lt": F(v["lt"]), "collateral": bool(v["collateral"]), "borrow": bool(v["borrow"])}
            for k, v in self.w.risk.items()
        }
        self.price_kind = price_kind
        self.prices = gen_prices(rng, self.names, price_kind)
        self.bar = 0
        self.sib = None
        if rng.random() < 0.3:
            # Aave on a second chain under the same account (same token names, other indices and risk rows), see vmon/decoy.py
            from ..decoy import AaveSibling

            self.sib = AaveSibling(rng, self.w)
            mon.cls("sibling/aave")
        self.fz = Dr.Frozen([self.m] + ([self.sib.m] if self.sib else []), pd.Series(self.prices), None,
                            {t: WALLET for t in self.w.tokens}, self.w.index[0])
        self.led = O.Ledger()
        self.trace = []
        self.sampled = False

    # ------------------------------------------------------------------ model side
    def idx(self, kind):
        col = "liquidity_index" if kind == "s" else "variable_borrow_index"
        return {n: F(self.w.data[n].iloc[self.bar][col]) for n in self.names}

    def pf(self) -> O.Portfolio:
        return self.led.portfolio(self.idx("s"), self.idx("b"), self.prices, self.risk)

    def shape(self, pf):
        nc = sum(1 for a, c in pf.supplies.values() if c)
        nn = len(pf.supplies) - nc
        if not pf.debts:
            h = "nodebt"
        else:
            h = {"accept": "healthy", "reject": "underwater", "either": "at-limit"}[pf.healthy()]
        return f"c{count_bucket(nc)}n{count_bucket(nn)}d{count_bucket(len(pf.debts))}/{h}"

    def violation(self, operation, clause, site, detail, data=None):
        d = {"case": self.case, "bar": self.bar, "prices": self.prices, "trace": self.trace[-8:], "risk": self.w.risk}
        if data:
            d.update(data)
        self.mon.violation("aave", operation, clause, site, f"{detail} | last ops {self.trace[-4:]}", d)

    # ------------------------------------------------------------------ observation after every step
    def observe(self, op, outcome, user_op=False, hf_before=None, always_hf=False, dust_token=None):
        """portfolio vs ledger, figures vs definitions, HF >= 1 after an accepted user operation."""
        mon, m = self.mon, self.m
        where = f"after-{op}-{outcome}"
        pf = self.pf()
        # --- the portfolio the oracle reasons about is the one the market holds
        try:
            sk = {k.name: m.get_supply(k) for k in m.supply_keys}
            bk = {k.name: m.get_borrow(k) for k in m.borrow_keys}
        except Exception as e:  # noqa
            self.violation(op, "raises", f"get_supply/get_borrow:{type(e).__name__}", repr(e))
            return pf
        resync = False
        li, bi = self.idx("s"), self.idx("b")
        for name in set(sk) | set(pf.supplies):
            mon.ev()
            want = pf.supplies.get(name, (Fraction(0), None))[0]
            got = F(sk[name].amount) if name in sk else Fraction(0)
            if abs(got - want) > POS_ABS * 2 * li[name] + POS_REL * want:
                self.violation(op, "position-vs-ledger:supply-amount", where,
                               f"{name}: market holds {float(got)!r}, accepted operations give {float(want)!r}")
                resync = True
            elif (name in sk) != (name in pf.supplies):
                resync = True
            if name in sk and name in pf.supplies and bool(sk[name].collateral) != pf.supplies[name][1]:
                self.violation(op, "position-vs-ledger:collateral-flag", where,
                               f"{name}: market flag {sk[name].collateral}, accepted operations give {pf.supplies[name][1]}")
                resync = True
        for name in set(bk) | set(pf.debts):
            mon.ev()
            want = pf.debts.get(name, Fraction(0))
            got = F(bk[name].amount) if name in bk else Fraction(0)
            if abs(got - want) > POS_ABS * 2 * bi[name] + POS_REL * want:
                self.violation(op, "position-vs-ledger:debt-amount", where,
                               f"{name}: market owes {float(got)!r}, accepted operations give {float(want)!r}")
                resync = True
            elif (name in bk) != (name in pf.debts):
                resync = True
        # from here on reason about exactly the amounts the market holds (they agree with the ledger within the
        # position tolerance, or a violation has just been recorded); the collateral flags stay the ledger's unless
        # they were reported as different
        self.led.sup = {
            n: [F(s.amount) / li[n], bool(s.collateral) if (resync or n not in self.led.sup) else self.led.sup[n][1]]
            for n, s in sk.items()
        }
        self.led.bor = {n: F(b.amount) / bi[n] for n, b in bk.items()}
        pf = self.pf()
        # --- figures
        has_coll = pf.total_collateral() > 0
        figs = (
            ("health_factor", pf.health_factor(), bool(pf.debts)),
            ("max_ltv", pf.max_ltv(), has_coll),
            ("liquidation_threshold", pf.liquidation_threshold(), has_coll),
        )
        for name, want, defined in figs:
            try:
                got = getattr(m, name)
            except Exception as e:  # noqa
                self.violation(name, "raises", type(e).__name__, f"{name} raised {e!r} {where}")
                continue
            if name == "health_factor":
                site = "with-debt" if defined else "no-debt"
            else:
                site = "with-collateral" if defined else "no-collateral"
                if not defined and not CHECK_FIGURES_WITHOUT_COLLATERAL:
                    mon.cls(f"figure-skipped/{name}/no-collateral")
                    continue
            mon.ev()
            ok = False
            if want is O.INF:
                ok = got == Decimal("inf")
                wtxt = "infinite"
            else:
                wtxt = repr(float(want))
                if got.is_finite():
                    ok = abs(F(got) - want) <= FIG_TOL * max(abs(want), Fraction(1, 10**6))
            mon.cls(f"figure/{name}/{site}")
            if not ok:
                self.violation(name, "figure-vs-definition", f"{site}/{where}" if defined or name == "health_factor" else site,
                               f"{name} reported {got!r}, Aave v3 definition gives {wtxt}; portfolio {self.describe(pf)}")
        # --- invariant
        if user_op and outcome == "accepted" and pf.debts:
            before_ok = hf_before is None or hf_before != O.REJECT
            if always_hf or before_ok:
                mon.ev()
                h = pf.healthy()
                if h == O.REJECT and dust_token is not None and dust_token not in pf.supplies:
                    # a partial withdrawal left a scaled residue below 1e-18 of this collateral and the code counts
                    # that as nothing (demeter/aave/helper.py sub_base_amount): judge the state up to that residue
                    extra = DUST_SCALED * li[dust_token] * pf.prices[dust_token] * self.risk[dust_token]["lt"]
                    if O.side(pf.lt_sum() + extra, pf.total_debt()) != O.REJECT:
                        h = "dust-residue-dropped"
                mon.cls(f"hf-after/{op}/{h}")
                if h == O.REJECT:
                    self.violation(op, "hf-below-1-after-accepted", "always" if always_hf else "was-healthy-before",
                                   f"health factor {float(pf.health_factor())!r} after accepted {op}; portfolio {self.describe(pf)}")
        return pf

    def describe(self, pf):
        return {
            "supplies": {k: (str(to_dec(a)), c) for k, (a, c) in pf.supplies.items()},
            "debts": {k: str(to_dec(a)) for k, a in pf.debts.items()},
            "prices": {k: str(v) for k, v in self.prices.items()},
            "risk": {k: (str(self.w.risk[k]["ltv"]), str(self.w.risk[k]["lt"]), self.w.risk[k]["collateral"], self.w.risk[k]["borrow"]) for k in self.names},
        }

    # ------------------------------------------------------------------ judged requests
    def judge(self, op, name, verdict, reason, res, fclass, role, pf, amount):
        """compare one accept/reject outcome with the oracle's verdict; returns True if accepted."""
        mon = self.mon
        mon.ev()
        mon.hit(f"decision/{op}")
        if res.ok:
            outcome = "accepted"
        elif is_rejection(res.exc):
            outcome = "rejected"
        else:
            outcome = "raised"
            self.violation(op, "raises", exc_site(res.exc, self.names),
                           f"{op}({name}, {amount}) raised {res.exc!r}; oracle verdict {verdict}/{reason}; portfolio {self.describe(pf)}")
        mon.cls(f"{op}/{verdict}/{reason}/{outcome}")
        key = f"{op}/{fclass}/{verdict}/{reason}/{outcome}/{self.shape(pf)}/{role}/{self.price_kind}"
        if verdict != O.EITHER:
            mon.nt(key)
            mon.hit(f"decided/{op}/{verdict}")
            if fclass in ("1-1e-6", "1+1e-6"):
                mon.hit(f"near-limit/{verdict}")
        if verdict == O.ACCEPT and outcome == "rejected":
            self.violation(op, "rejected-within-limit", f"{reason}@{exc_site(res.exc, self.names)}",
                           f"{op}({name}, {amount}) rejected ({res.exc!r}) although the limit holds with margin "
                           f"[{fclass} of the limit, {reason}]; portfolio {self.describe(pf)}",
                           {"amount": amount, "token": name})
        if verdict == O.REJECT and outcome == "accepted":
            self.violation(op, "accepted-beyond-limit", reason,
                           f"{op}({name}, {amount}) accepted although the limit fails with margin "
                           f"[{fclass} of the limit, {reason}]; portfolio {self.describe(pf)}",
                           {"amount": amount, "token": name})
        if not self.sampled and verdict != O.EITHER and fclass in ("1-1e-6", "1+1e-6", "helper"):
            self.sampled = True
            mon.sample({"op": op, "token": name, "amount": amount, "request": fclass, "oracle": [verdict, reason],
                        "observed": outcome, "portfolio": self.describe(pf)}, cls=f"{op}/{verdict}/{fclass}")
        self.trace.append((op, name, str(amount), fclass, verdict, outcome))
        return res.ok

    def quant(self, name, fr, allow_zero=False):
        """a Decimal request amount near Fraction fr; sometimes cut to the token's decimals."""
        a = to_dec(fr)
        if self.rng.random() < 0.4:
            q = a.quantize(Decimal(10) ** -self.tok[name].decimal, rounding=ROUND_DOWN, context=WIDE)
            if q > 0 and len(q.as_tuple().digits) <= 30 and abs(F(q) - fr) <= abs(fr) * Fraction(1, 10**8):
                a = q
        return a

    def borrow_role(self, pf, name):
        r = "also-supplied" if name in pf.supplies else "fresh"
        if name in pf.debts:
            r += "+owed"
        if not self.risk[name]["borrow"]:
            r += "+disabled"
        return r

    def do_borrow(self, name, amount, fclass, helper=None):
        """amount: Decimal or None.  helper: the get_max_borrow_amount value when amount is None / fed back."""
        pf = self.pf()
        hf_before = pf.healthy() if pf.debts else None
        eff = helper if amount is None else amount
        verdict, reason = pf.decide_borrow(name, eff)
        res = Dr.call_op(self.m.borrow, self.tok[name], amount)
        ok = self.judge("borrow", name, verdict, reason, res, fclass, self.borrow_role(pf, name), pf, amount)
        if ok:
            self.led.borrow(name, eff, self.idx("b")[name])
        self.observe("borrow", "accepted" if ok else "rejected", True, hf_before, always_hf=True)
        return res

    def do_withdraw(self, name, amount, fclass):
        pf = self.pf()
        hf_before = pf.healthy() if pf.debts else None
        coll = pf.supplies[name][1]
        try:
            reported = self.m.get_supply(self.tok[name]).amount
        except Exception:  # noqa
            reported = None
        verdict, reason = pf.decide_withdraw(name, amount, reported)
        res = Dr.call_op(self.m.withdraw, self.tok[name], amount)
        role = ("collateral" if coll else "non-collateral") + ("+only" if len(pf.coll_values()) == 1 and coll else "")
        ok = self.judge("withdraw", name, verdict, reason, res, fclass, role, pf, amount)
        if ok:
            everything = amount is None or (reported is not None and amount == reported)
            self.led.withdraw(name, reported if amount is None else amount, self.idx("s")[name], everything)
        partial = amount is not None and not (reported is not None and amount == reported)
        self.observe("withdraw", "accepted" if ok else "rejected", True, hf_before, always_hf=coll,
                     dust_token=name if (ok and coll and partial) else None)
        return res

    def do_flag(self, name, flag, fclass):
        pf = self.pf()
        hf_before = pf.healthy() if pf.debts else None
        verdict, reason = pf.decide_collateral(name, flag)
        res = Dr.call_op(self.m.change_collateral, self.tok[name], flag)
        role = ("to-on" if flag else "to-off") + ("" if self.risk[name]["collateral"] else "+disabled")
        ok = self.judge("change_collateral", name, verdict, reason, res, fclass, role, pf, flag)
        if ok:
            self.led.set_collateral(name, flag)
        self.observe("change_collateral", "accepted" if ok else "rejected", True, hf_before,
                     always_hf=pf.supplies[name][1] and not flag)
        return res

    # ------------------------------------------------------------------ drivers (not judged: not C11's operations)
    def drive_supply(self, name, amount, collateral):
        pf0 = self.pf()
        hf_before = pf0.healthy() if pf0.debts else None
        res = Dr.call_op(self.m.supply, self.tok[name], amount, collateral)
        self.trace.append(("supply", name, str(amount), collateral, res.ok))
        if res.ok:
            self.led.supply(name, amount, self.idx("s")[name], collateral)
            self.mon.hit("driver/supply")
        else:
            self.mon.cls(f"driver-rejected/supply/{exc_site(res.exc, self.names)}")
        self.observe("supply", "accepted" if res.ok else "rejected", True, hf_before)
        return res.ok

    def drive_repay(self, name, amount):
        pf = self.pf()
        hf_before = pf.healthy()
        res = Dr.call_op(self.m.repay, self.tok[name], amount)
        self.trace.append(("repay", name, str(amount), res.ok))
        if res.ok:
            self.led.repay(name, amount, self.idx("b")[name], everything=amount is None)
            self.mon.hit("driver/repay")
        else:
            self.mon.cls(f"driver-rejected/repay/{exc_site(res.exc, self.names)}")
        self.observe("repay", "accepted" if res.ok else "rejected", True, hf_before)
        return res.ok

    # ------------------------------------------------------------------ steps
    def step_supply(self):
        rng = self.rng
        name = rng.choice(self.names)
        if name in self.led.sup:
            coll = self.led.sup[name][1]
        else:
            coll = self.risk[name]["collateral"] and rng.random() < 0.75
        amount = Decimal(f"{10 ** rng.uniform(-3, 7):.{rng.choice([2, 5, 9])}g}")
        self.drive_supply(name, amount, coll)

    def step_borrow(self):
        rng = self.rng
        pf = self.pf()
        name = rng.choice(self.names)
        lim = pf.borrow_limit(name)
        if lim > 0:
            ladder = [("2x", Fraction(2)), ("1.01x", Fraction(101, 100)), ("1+1e-6", 1 + Fraction(1, 10**6))]
            for fclass, f in rng.sample(ladder, rng.randint(1, 3)):
                self.do_borrow(name, self.quant(name, lim * f), fclass)
            fclass, f = rng.choice([
                ("1-1e-6", 1 - Fraction(1, 10**6)), ("1-1e-6", 1 - Fraction(1, 10**6)), ("0.99x", Fraction(99, 100)),
                ("0.5x", Fraction(1, 2)), ("0.1x", Fraction(1, 10)), ("0.1x", Fraction(rng.randint(1, 30), 100)),
                ("in-band", 1 + Fraction(rng.choice([-1, 1]), 10**12)), ("in-band", Fraction(1)),
            ])
            pf = self.pf()
            lim = pf.borrow_limit(name)
            if lim > 0:
                self.do_borrow(name, self.quant(name, lim * f), fclass)
        else:
            # nothing can be borrowed (no collateral, at the limit or under water): any noticeable amount is refused
            base = max(pf.total_debt(), pf.total_collateral(), Fraction(1)) / pf.prices[name]
            fclass, f = rng.choice([("tiny-over", Fraction(1, 10**6)), ("small-over", Fraction(1, 100)), ("big-over", Fraction(1))])
            self.do_borrow(name, self.quant(name, base * f), fclass)

    def step_withdraw(self):
        rng = self.rng
        pf = self.pf()
        if not pf.supplies:
            return self.step_supply()
        name = rng.choice(sorted(pf.supplies))
        have = pf.supplies[name][0]
        lim = pf.withdraw_limit(name)
        rej = []
        acc = []
        e6 = Fraction(1, 10**6)
        if lim <= 0:
            rej = [("hf:1e-6 of supply", have * e6), ("hf:half", have / 2), ("hf:all", "reported"), ("hf:None", None)]
        elif lim < have:
            rej = [("2x", lim * 2), ("1.01x", lim * Fraction(101, 100)), ("1+1e-6", lim * (1 + e6)), ("hf:None", None),
                   ("hf:all", "reported")]
            acc = [("1-1e-6", lim * (1 - e6)), ("1-1e-6", lim * (1 - e6)), ("0.99x", lim * Fraction(99, 100)), ("0.5x", lim / 2),
                   ("in-band", lim * (1 + Fraction(rng.choice([-1, 1]), 10**12))), ("in-band", lim)]
        else:  # only the supplied amount limits
            rej = [("all:2x", have * 2), ("all:1.01x", have * Fraction(101, 100)), ("all:1+1e-6", have * (1 + e6))]
            acc = [("all:None", None), ("all:reported", "reported"), ("all:1-1e-6", have * (1 - e6)), ("all:0.5x", have / 2),
                   ("all:0.5x", have * Fraction(rng.randint(1, 90), 100)), ("all:in-band", have * (1 - Fraction(1, 10**11)))]
        for fclass, a in rng.sample(rej, rng.randint(1, min(3, len(rej)))):
            self.do_withdraw(name, self._wd_amount(name, a), fclass)
            if name not in self.led.sup:
                return
        if acc and rng.random() < 0.8:
            fclass, a = rng.choice(acc)
            self.do_withdraw(name, self._wd_amount(name, a), fclass)

    def _wd_amount(self, name, a):
        if a is None:
            return None
        if a == "reported":
            return self.m.get_supply(self.tok[name]).amount
        return self.quant(name, a)

    def tune_debt(self, target_value, pf):
        """move the total debt value to target_value with one borrow or one repay; True if done."""
        rng = self.rng
        d = pf.total_debt()
        if target_value > d:
            room = pf.borrow_room_value()
            need = target_value - d
            if need > room * (1 - Fraction(1, 10**5)):
                return False
            cands = [n for n in self.names if self.risk[n]["borrow"]]
            if not cands:
                return False
            name = rng.choice(cands)
            amt = to_dec(need / pf.prices[name])
            if amt <= 0:
                return False
            return self.do_borrow(name, amt, "tune").ok
        cands = [n for n, a in pf.debts.items() if a * pf.prices[n] * (1 - Fraction(1, 10**4)) > d - target_value]
        if not cands:
            return False
        name = rng.choice(sorted(cands))
        amt = to_dec((d - target_value) / pf.prices[name])
        if amt <= 0:
            return False
        return self.drive_repay(name, amt)

    def step_flag(self):
        rng = self.rng
        pf = self.pf()
        if not pf.supplies:
            return self.step_supply()
        name = rng.choice(sorted(pf.supplies))
        coll = pf.supplies[name][1]
        if not coll:
            self.do_flag(name, rng.random() < 0.9, "switch-on")
            return
        if rng.random() < 0.1:
            self.do_flag(name, True, "same")
            return
        fclass = "as-is"
        others = pf.lt_sum(without=name)
        if others > 0 and rng.random() < 0.75:
            # debt value D* with others = D* (1 + delta):  delta > 0 must be accepted, delta < 0 refused
            fclass, delta = rng.choice([
                ("1-1e-6", Fraction(1, 10**6)), ("1+1e-6", -Fraction(1, 10**6)), ("0.99x", Fraction(1, 100)),
                ("1.01x", -Fraction(1, 100)), ("0.5x", Fraction(1)), ("2x", -Fraction(1, 2)),
                ("in-band", Fraction(rng.choice([-1, 1]), 10**12)),
            ])
            if not self.tune_debt(others / (1 + delta), pf):
                fclass = "as-is"
            pf = self.pf()
            if name not in pf.supplies:
                return
        self.do_flag(name, False, fclass)

    def step_max_withdraw(self):
        rng, mon, m = self.rng, self.mon, self.m
        pf = self.pf()
        if not pf.supplies:
            return self.step_supply()
        name = rng.choice(sorted(pf.supplies))
        t = self.tok[name]
        has_coll = pf.total_collateral() > 0
        r = Dr.call_op(m.get_max_withdraw_amount, t)
        if not r.ok:
            self.violation("get_max_withdraw_amount", "raises", exc_site(r.exc, self.names), f"{r.exc!r}; portfolio {self.describe(pf)}")
            return
        mw = r.ret
        reported = m.get_supply(t).amount
        lim = pf.withdraw_limit(name)
        state = "unconstrained" if lim >= pf.supplies[name][0] else ("constrained" if lim > 0 else "nothing-left")
        role = "collateral" if pf.supplies[name][1] else "non-collateral"
        mon.cls(f"max-withdraw/{state}/{role}/{'coll-account' if has_coll else 'no-coll-account'}")
        if not has_coll:
            return
        mon.hit("helper/max-withdraw")
        mon.ev()
        mon.nt(f"max-withdraw/le-supplied/{state}/{role}/{self.shape(pf)}/{self.price_kind}")
        if not (F(mw) <= F(reported)):
            self.violation("get_max_withdraw_amount", "helper-exceeds-supplied", state,
                           f"max withdraw of {name} = {mw} but supplied is {reported}; portfolio {self.describe(pf)}")
        if not mw.is_finite() or mw <= 0:
            mon.cls(f"max-withdraw/non-positive/{state}")
            if mw < 0:
                mon.ev()
                self.violation("get_max_withdraw_amount", "helper-negative", state, f"max withdraw of {name} = {mw}")
            return
        if rng.random() < 0.7:
            # the helper's own amount must be accepted
            hf_before = pf.healthy() if pf.debts else None
            verdict, reason = pf.decide_withdraw(name, mw, reported)
            res = Dr.call_op(m.withdraw, t, mw)
            mon.ev()
            mon.hit("helper/max-withdraw-fed-back")
            outcome = "accepted" if res.ok else ("rejected" if is_rejection(res.exc) else "raised")
            mon.cls(f"max-withdraw-fed-back/{state}/{verdict}/{outcome}")
            mon.nt(f"max-withdraw/fed-back/{state}/{role}/{verdict}/{outcome}/{self.shape(pf)}/{self.price_kind}")
            self.trace.append(("withdraw(max helper)", name, str(mw), state, verdict, outcome))
            if not res.ok:
                self.violation("get_max_withdraw_amount", "helper-amount-rejected", exc_site(res.exc, self.names),
                               f"[{state}] withdraw({name}, get_max_withdraw_amount = {mw}) refused: {res.exc!r}; oracle {verdict}/{reason}; "
                               f"true limit {to_dec(lim)}; portfolio {self.describe(pf)}")
            elif verdict == O.REJECT:
                self.violation("get_max_withdraw_amount", "helper-beyond-limit", f"{state}/{reason}",
                               f"withdraw({name}, get_max_withdraw_amount = {mw}) accepted but exceeds the true limit "
                               f"{to_dec(lim)}; portfolio {self.describe(pf)}")
            if res.ok:
                self.led.withdraw(name, mw, self.idx("s")[name], mw == reported)
            self.observe("withdraw", outcome, True, hf_before, always_hf=pf.supplies[name][1],
                         dust_token=name if (res.ok and pf.supplies[name][1] and mw != reported) else None)
        else:
            self.do_withdraw(name, self.quant(name, F(mw) * (1 + Fraction(1, 10**6))), "helper*(1+1e-6)")

    def step_max_borrow(self):
        rng, mon, m = self.rng, self.mon, self.m
        pf = self.pf()
        name = rng.choice(self.names)
        t = self.tok[name]
        has_coll = pf.total_collateral() > 0
        r = Dr.call_op(m.get_max_borrow_amount, t)
        if not r.ok:
            if has_coll:
                self.violation("get_max_borrow_amount", "raises", exc_site(r.exc, self.names), f"{r.exc!r}; portfolio {self.describe(pf)}")
            else:
                mon.cls(f"max-borrow/raises-without-collateral/{type(r.exc).__name__}")
            return
        mb = r.ret
        lim = pf.borrow_limit(name)
        state = "room" if lim > 0 else "no-room"
        mon.cls(f"max-borrow/{state}/{'coll-account' if has_coll else 'no-coll-account'}")
        if not has_coll:
            return
        mon.hit("helper/max-borrow")
        if not mb.is_finite() or mb <= 0:
            mon.cls(f"max-borrow/non-positive/{state}")
            return
        # an account sitting on its limit: the helper's answer is what 35-digit arithmetic leaves of zero (1e-30 of a token
        # against a collateral of 1e4); whether such dust can be borrowed says nothing about the helper
        coll_value = pf.total_collateral()
        if coll_value > 0 and F(mb) * F(self.prices[name]) < coll_value * Fraction(1, 10**24):
            mon.cls(f"max-borrow/arithmetic-dust/{state}")
            return
        use_none = rng.random() < 0.4
        hf_before = pf.healthy() if pf.debts else None
        verdict, reason = pf.decide_borrow(name, mb)
        res = Dr.call_op(m.borrow, t, None if use_none else mb)
        mon.ev()
        mon.hit("helper/max-borrow-fed-back")
        outcome = "accepted" if res.ok else ("rejected" if is_rejection(res.exc) else "raised")
        role = self.borrow_role(pf, name)
        mon.cls(f"max-borrow-fed-back/{'None' if use_none else 'amount'}/{verdict}/{outcome}")
        mon.nt(f"max-borrow/fed-back/{'None' if use_none else 'amount'}/{role}/{verdict}/{outcome}/{self.shape(pf)}/{self.price_kind}")
        self.trace.append(("borrow(max helper)", name, "None" if use_none else str(mb), verdict, outcome))
        if not res.ok and self.risk[name]["borrow"]:
            self.violation("get_max_borrow_amount", "helper-amount-rejected", exc_site(res.exc, self.names),
                           f"[{state}] borrow({name}, {'None' if use_none else mb}) with get_max_borrow_amount = {mb} refused: {res.exc!r}; "
                           f"oracle {verdict}/{reason}; true limit {to_dec(lim)}; portfolio {self.describe(pf)}")
        elif res.ok and verdict == O.REJECT:
            self.violation("get_max_borrow_amount", "helper-beyond-limit", f"{state}/{reason}",
                           f"borrow({name}, get_max_borrow_amount = {mb}) accepted but exceeds the true limit {to_dec(lim)}; "
                           f"portfolio {self.describe(pf)}")
        if res.ok:
            self.led.borrow(name, mb, self.idx("b")[name])
        self.observe("borrow", outcome, True, hf_before, always_hf=True)

    def step_prices(self):
        rng = self.rng
        pf = self.pf()
        kind = rng.choice(["shock-collateral", "shock-collateral", "pump-debt", "rescale", "fresh", "recover"])
        new = dict(self.prices)
        colls = sorted(pf.coll_values())
        if kind == "shock-collateral" and colls:
            n = rng.choice(colls)
            new[n] = (new[n] * Decimal(str(round(rng.uniform(0.2, 0.98), 4)))).normalize()
        elif kind == "pump-debt" and pf.debts:
            n = rng.choice(sorted(pf.debts))
            new[n] = (new[n] * Decimal(str(round(rng.uniform(1.02, 4), 4)))).normalize()
        elif kind == "rescale":
            f = Decimal(10) ** rng.randint(-6, 6)
            new = {k: v * f for k, v in new.items()}
        elif kind == "recover" and colls:
            n = rng.choice(colls)
            new[n] = (new[n] * Decimal(str(round(rng.uniform(1.5, 6), 3)))).normalize()
        else:
            new = gen_prices(rng, self.names, self.price_kind)
        self.prices = new
        if rng.random() < 0.3 and self.bar < len(self.w.index) - 1:
            self.bar += 1
            kind += "+bar"
        self.fz.set_bar(self.w.index[self.bar], pd.Series(self.prices))
        self.trace.append(("prices", kind))
        self.mon.hit("driver/prices")
        self.observe("set-prices", "done")

    def step_repay(self):
        rng = self.rng
        pf = self.pf()
        if not pf.debts:
            return self.step_borrow()
        name = rng.choice(sorted(pf.debts))
        if rng.random() < 0.3:
            self.drive_repay(name, None)
        else:
            self.drive_repay(name, self.quant(name, pf.debts[name] * Fraction(rng.randint(5, 90), 100)))


def one_case(mon, rng, c, tier):
    price_kind = rng.choice(["mixed", "mixed", "real", "equal", "tiny", "huge", "wide"])
    wk = Walk(mon, rng, c, price_kind)
    mon.cls(f"world/{price_kind}/{wk.index_kind}/tokens={len(wk.names)}")
    wk.observe("open", "done")  # the empty account
    # portfolio: collateral and non-collateral supplies
    for _ in range(rng.randint(1, len(wk.names))):
        wk.step_supply()
    if not any(c_ for _, c_ in wk.led.sup.values()) and rng.random() < 0.85:
        first = wk.names[0]  # AaveWorld makes the first token usable as collateral
        if first not in wk.led.sup:
            wk.drive_supply(first, Decimal(f"{10 ** rng.uniform(-2, 6):.6g}"), True)
    for _ in range(rng.choice([0, 1, 1, 2, 3, 4])):
        pf = wk.pf()
        cands = [n for n in wk.names if wk.risk[n]["borrow"]]
        lim_name = rng.choice(cands) if cands else rng.choice(wk.names)
        lim = pf.borrow_limit(lim_name)
        if lim > 0:
            wk.do_borrow(lim_name, wk.quant(lim_name, lim * Fraction(rng.randint(5, 60), 100)), "0.5x")
    steps = rng.randint(25, 60)
    weights = [("borrow", 5), ("withdraw", 6), ("flag", 4), ("max_withdraw", 4), ("max_borrow", 3), ("prices", 2),
               ("supply", 2), ("repay", 2)]
    bag = [k for k, n in weights for _ in range(n)]
    for _ in range(steps):
        if wk.sib is not None and rng.random() < 0.4:
            wk.sib.poke(rng)
            mon.hit("sibling-poke")
        getattr(wk, "step_" + rng.choice(bag))()


def run(spec, mon):
    for c in range(spec["cases"]):
        rng = mon.case_rng(c)
        if not mon.want(c):
            continue
        try:
            one_case(mon, rng, c, spec["tier"])
        except Exception as e:  # the harness or the code crashed in an unexpected place
            mon.violation("aave", "sequence", "unexpected-exception", Dr.reject_site(e), traceback.format_exc()[-1800:])


def floors(merged, tier):
    r = merged["reach"]
    out = []
    need = {
        "decided/borrow/accept": 40, "decided/borrow/reject": 40, "decided/withdraw/accept": 40,
        "decided/withdraw/reject": 40, "decided/change_collateral/accept": 20, "decided/change_collateral/reject": 10,
        "near-limit/accept": 20, "near-limit/reject": 20, "helper/max-withdraw-fed-back": 20,
        "helper/max-borrow-fed-back": 15, "driver/prices": 20,
    }
    for k, n in need.items():
        if r.get(k, 0) < n:
            out.append(f"reach floor: {k} = {r.get(k, 0)} < {n}")
    figs = sum(v for k, v in merged["classes"].items() if k.startswith("figure/"))
    if figs < 1000:
        out.append(f"reach floor: only {figs} figure comparisons")
    return out
