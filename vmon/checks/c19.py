"""C19 — strategies run by the backtest manager do not influence one another.

Differential monitor, solo run vs. managed run, with the schedule varied.  A case is one generated world (market mix,
data, wallet, interval) and a set of 2-6 seeded strategies (idle, LP, aave, all-markets, indicator via add_column,
vandal, crasher).  Every strategy writes, from inside finalize(), its account history (account_status_df), its action
list, its final position projection and os.getpid() to a JSON file (objects of a forked worker never come back).

* reference ("running it alone"): BacktestManager(config, data, [strategy], threads=1).run() in a pristine process
  (a fork()ed child of a fresh interpreter that has built the world and run nothing);
* managed: BacktestManager(config, data, strategies in some order, threads in {1, 2, 3, n}).run() in its own fresh
  interpreter (subprocess.run with a timeout: the manager calls multiprocessing.set_start_method once per interpreter),
  strategies sleep a few seed-chosen milliseconds in on_bar so that the task -> worker assignment varies.

The shard compares every strategy's managed record with its solo record (exact) and records the observed
pid -> [strategies] assignment of every run as the schedule seen."""
import json
import os
import random
import subprocess
import sys
import time
import traceback
from decimal import Decimal

ID = "C19"
META = {
    "level": "exploration",
    "rule": "a case = one generated world (market mix uni / aave / uni+aave / squeeth+uni / gmx v1 / gmx v2 / deribit; 1 min, "
    "5 min or hourly bars) with 2-6 seeded strategies (idle, LP, aave, all-markets, indicator through Strategy.add_column, "
    "vandal that scrambles its own markets/broker after its run, crasher that raises out of on_bar), run alone (reference) and "
    "under BacktestManager in 3-4 (order, worker count in {1,2,3,n}, sleep pattern) variants, each in a fresh interpreter. "
    "Evaluations = per strategy and managed run: every bar row of the account history, the action list and the final "
    "projection compared with the solo record. Non-trivial = a managed run with >= 2 strategies that trade; distinct by "
    "(market mix, execution path, worker count, order of strategy kinds). classes 'schedule/...' list the distinct "
    "pid -> [submission indices] assignments observed (workers that ran >= 2 strategies back to back, in-process path).",
    "assumptions": [
        "'running it alone' = BacktestManager with that single strategy (in-process path) over an identically built "
        "configuration and data, in a pristine process; in half of the cases that record is itself compared with the same "
        "configuration applied by hand to a bare Actuator (markets with their data, configured wallet, prices, interval)",
        "account history = Strategy.account_status_df as seen in finalize() (for a strategy that raises: the per-bar account "
        "status list up to the bar where it raised); final positions = projection through public accessors "
        "(vmon/drive.py project) + wallet; action list = all fields of every recorded action",
        "equality is numeric and exact (Decimal 1.0 == 1.00; floats by repr); a strategy that never produced a record alone "
        "(the framework itself raised in its run) is only required not to produce one under the manager",
        "strategies act on their own run's objects (strategy.broker / markets / assets, Strategy.add_column in initialize); "
        "they never write existing cells of the shared BacktestData frames, never touch StrategyConfig, classes or modules, "
        "and never kill their process",
        "all processes of a case share one PYTHONHASHSEED (demeter iterates sets of TokenInfo; hash order is not this property's subject)",
        "a manager run that hits the 300 s watchdog is reported as INCONCLUSIVE, not as a violation",
    ],
}
NSHARDS = 16
VERIF = os.path.dirname(os.path.dirname(os.path.dirname(os.path.abspath(__file__))))
RUN_TIMEOUT = 300

MIXES = ("uni", "aave", "uni+aave", "uni+aave", "uni+aave", "squeeth", "gmx", "gmx2", "deribit")
KINDS = {
    "uni": ("idle", "lp", "lp", "multi", "indicator", "vandal", "crasher"),
    "aave": ("idle", "aave", "aave", "multi", "vandal", "crasher", "whale"),
    "uni+aave": ("idle", "lp", "aave", "multi", "multi", "indicator", "vandal", "crasher", "whale"),
    "squeeth": ("idle", "trader", "trader", "lp", "multi", "vandal", "crasher"),
    "gmx": ("idle", "trader", "trader", "multi", "vandal", "crasher"),
    "gmx2": ("idle", "trader", "trader", "multi", "vandal", "crasher"),
    "deribit": ("idle", "trader", "trader", "trader", "vandal", "crasher"),
}


def plan(tier, seed):
    n = 3 if tier == "quick" else 22
    return [{"shard": i, "cases": n} for i in range(NSHARDS)]


# ------------------------------------------------------------------------------------------------ case generation
def gen_case(rng, c, tag):
    """Everything that defines a case, JSON-able.  tag makes seeds unique per (VERIF_SEED, shard, case)."""
    mix = rng.choice(MIXES)
    if mix == "deribit":
        interval, n = "1h", rng.randint(5, 10)
    elif mix in ("uni", "aave", "uni+aave") and rng.random() < 0.25:
        interval, n = "5min", 5 * rng.randint(4, 8)
    else:
        interval, n = "1min", rng.randint(10, 26)
    world = {"seed": f"{tag}/world", "mix": mix, "n": n, "interval": interval}
    bars = n // 5 if interval == "5min" else n
    k = rng.choice([2, 3, 3, 4, 4, 5, 6])
    if rng.random() < 0.12:
        # many more strategies than workers: a pool hands such task lists out in chunks (more than 4 x workers tasks)
        k = rng.choice([9, 10, 13])
    kinds = []
    while True:
        kinds = [rng.choice(KINDS[mix]) for _ in range(k)]
        if sum(1 for x in kinds if x != "idle") >= 2 and kinds.count("crasher") <= 1:
            break
    # a parameter sweep: the same indicator strategy under the same column name with different windows
    sweep = "indicator" in KINDS[mix] and rng.random() < 0.4
    if sweep:
        slots = rng.sample(range(k), 2)
        for i in slots:
            kinds[i] = "indicator"
    windows = rng.sample(range(2, 8), k) if k <= 6 else [rng.randint(2, 7) for _ in range(k)]
    strategies = []
    for i, kind in enumerate(kinds):
        s = {"name": f"s{i}", "kind": kind, "seed": f"{tag}/s{i}", "act": rng.choice([0.35, 0.6, 0.9]), "bars": bars}
        if kind == "crasher":
            s["crash_bar"] = rng.randint(1, bars - 1)
            s["crash_exc"] = rng.choice(["ZeroDivisionError", "DemeterError", "KeyError"])
        if kind != "idle" and rng.random() < 0.4:
            # looks at the account history a few times in mid-run (allowed: the actuator tolerates 10 such reads per backtest)
            s["df_reads"] = sorted(rng.sample(range(bars), min(bars, rng.randint(2, 5))))
        if kind == "indicator":
            s["window"] = min(windows[i], max(2, bars - 1))
            s["above"] = rng.random() < 0.5
        strategies.append(s)
    hashseed = rng.randint(1, 10**6)
    # managed variants: always the sequential path and a pool of 2; then 3 / n / more permutations
    tset = [1, 2, rng.choice([2, 3, k]), rng.choice([1, 3, k])]
    runs = []
    for j, t in enumerate(tset):
        order = list(range(k))
        if j > 0 or rng.random() < 0.5:
            rng.shuffle(order)
        sleep = {}
        for s in strategies:
            pattern = rng.choice(["none", "none", "first", "spread", "long"])
            if pattern == "first":
                sleep[s["name"]] = {"0": rng.randint(5, 60)}
            elif pattern == "spread":
                sleep[s["name"]] = {str(b): rng.randint(1, 20) for b in range(bars) if rng.random() < 0.4}
            elif pattern == "long":
                sleep[s["name"]] = {str(rng.randrange(bars)): rng.randint(80, 250)}
        # half of the sequential runs are preceded, in the same process and over the same StrategyConfig object, by a manager
        # that holds a single strategy (a trial run before the batch): what that run leaves behind belongs to it alone
        runs.append({"threads": t, "order": order, "sleep": sleep, "primer": t == 1 and rng.random() < 0.5})
    return {"world": world, "strategies": strategies, "hashseed": hashseed, "runs": runs, "plain": rng.random() < 0.5}


# ------------------------------------------------------------------------------------------------ world (any process)
class Env:
    pass


def build_world(ws):
    """Deterministic in ws: the same call gives identical data and equal market objects in every process."""
    import pandas as pd
    from demeter import TokenInfo
    from demeter._typing import USD

    from .. import opsgen as G
    from .. import worlds as W

    rng = random.Random(ws["seed"])
    mix, n = ws["mix"], ws["n"]
    e = Env()
    e.mix, e.interval, e.aux = mix, ws["interval"], {}
    if mix in ("uni", "uni+aave"):
        if mix == "uni+aave":
            names, d0, d1, q0, price = ("USDC", "WETH"), 6, 18, True, 2000.0
        else:
            names, d0, d1, q0, price = ("TKA", "TKB"), rng.choice([6, 8, 18]), rng.choice([6, 8, 18]), rng.random() < 0.5, None
        uw = W.UniWorld(rng, n=n, d0=d0, d1=d1, token0_is_quote=q0, fee=rng.choice([0.05, 0.3, 1]), names=names,
                        path=rng.choice(["walk", "calm", "jump"]), price=price, liq_exp=rng.uniform(10, 24))
        um = uw.market("uni")
        pdf, quote = um.get_price_from_data()
        pdf = pdf.map(lambda y: W.D(y))
        e.markets = [um]
        # a token with no initial fund is simply not configured (it enters the wallet when the strategy acquires it)
        e.assets = {um.base_token: Decimal(rng.choice([0, 0, 1, 50, 10**4])), um.quote_token: Decimal(rng.choice([1000, 10**6]))}
        if mix == "uni+aave":
            extra = W.price_frame(rng, uw.index, ["WBTC", "DAI"], "walk")
            pdf = pd.concat([pdf, extra], axis=1)
            aw = W.AaveWorld(rng, n=n, tokens=(("WETH", 18), ("USDC", 6), ("WBTC", 8), ("DAI", 18)), prices=pdf,
                             index_kind=rng.choice(["slow", "jumpy"]))
            e.aux["aave"] = aw
            e.markets.append(aw.market("aave"))
            for t in aw.tokens:
                e.assets[t] = e.assets.get(t, Decimal(0)) + Decimal(rng.choice([0, 10, 5000]))
        e.prices = (pdf, quote)
    elif mix == "aave":
        toks = rng.sample([("WETH", 18), ("USDC", 6), ("WBTC", 8), ("DAI", 18), ("LINK", 18)], rng.randint(2, 5))
        aw = W.AaveWorld(rng, n=n, tokens=toks, index_kind=rng.choice(["flat", "slow", "jumpy"]),
                         price_kind=rng.choice(["walk", "walk", "crash"]))
        e.aux["aave"] = aw
        e.markets = [aw.market("aave")]
        e.assets = {t: Decimal(rng.choice([0, 5, 1000, 10**6])) for t in aw.tokens}
        e.assets[aw.tokens[0]] += 1000
        e.prices = (aw.prices.copy(), USD)
    elif mix == "squeeth":
        sw = W.SqueethWorld(rng, n=n, kind=rng.choice(["calm", "calm", "spike"]))
        um, sm = sw.markets("uni", "squeeth")
        e.markets = [um, sm] if rng.random() < 0.5 else [sm, um]
        e.assets = {TokenInfo("weth", 18): Decimal(rng.choice([40, 5000])), TokenInfo("osqth", 18): Decimal(rng.choice([0, 30]))}
        e.prices = (sm.get_price_from_data().map(lambda y: W.D(y)), USD)
    elif mix == "gmx":
        gw = W.GmxWorld(rng, n=n)
        e.aux["gmx"] = gw
        e.markets = [gw.market("gmx")]
        e.assets = {t: Decimal(rng.choice([3, 2000])) for t in gw.tokens}
        e.prices = (gw.prices(), USD)
    elif mix == "gmx2":
        g2 = W.Gmx2World(rng, n=n)
        e.aux["gmx2"] = g2
        e.markets = [g2.market("gmx2")]
        e.assets = {g2.long: Decimal(rng.choice([5, 3000])), g2.short: Decimal(rng.choice([10**4, 10**7]))}
        e.prices = (g2.prices(), USD)
    elif mix == "deribit":
        token = rng.choice(["ETH", "ETH", "BTC"])
        dw = W.DeribitWorld(rng, hours=n, n_instr=rng.randint(2, 5), token=token, size_kind=rng.choice(["int", "float", "mixed"]),
                            closed_prob=0.1)
        e.aux["deribit"] = dw
        dm = dw.market("deribit")
        e.markets = [dm]
        e.assets = {dm.token: Decimal(rng.choice([20, 200]))}
        e.prices = (pd.DataFrame({token: dw.minute_prices(dw.hours)}, index=pd.DatetimeIndex(dw.hours)), USD)
    else:
        raise ValueError(mix)
    e.assets = {t: a for t, a in e.assets.items() if a != 0}
    e.data = {m.market_info: m.data for m in e.markets}

    def kits_for(broker, use):
        """kits over the markets of *this run's* broker; use = market type names or '*' (+ 'broker')."""
        out = []
        ms = {m.market_info.type.name: m for m in broker.markets.values()}
        for tname, m in ms.items():
            if "*" not in use and tname not in use:
                continue
            if tname == "uniswap_v3":
                out.append(G.UniKit(m))
            elif tname == "aave_v3":
                out.append(G.AaveKit(m, e.aux["aave"]))
            elif tname == "squeeth":
                out.append(G.SqueethKit(m, ms["uniswap_v3"]))
            elif tname == "deribit_option":
                out.append(G.DeribitKit(m, e.aux["deribit"]))
            elif tname == "gmx_v1":
                out.append(G.GmxKit(m, e.aux["gmx"]))
            elif tname == "gmx_v2":
                out.append(G.Gmx2Kit(m, e.aux["gmx2"]))
        if "broker" in use and len(broker.assets) >= 2:
            out.append(G.BrokerKit(list(broker.assets.keys())))
        return out

    e.kits_for = kits_for
    return e


# ------------------------------------------------------------------------------------------------ record format
def _cell(v):
    """exact, process-independent text of one observed value"""
    if isinstance(v, Decimal):
        if v.is_finite():
            a, b = Decimal(v).as_integer_ratio()
            return str(a) if b == 1 else f"{a}/{b}"
        return str(Decimal(v))
    if isinstance(v, bool) or v is None:
        return str(v)
    if isinstance(v, int):
        return str(v)
    if isinstance(v, float):
        return "f" + repr(v + 0.0)
    try:
        import numpy as np

        if isinstance(v, np.bool_):
            return str(bool(v))
        if isinstance(v, np.integer):
            return str(int(v))
        if isinstance(v, np.floating):
            return "f" + repr(float(v) + 0.0)
    except ImportError:
        pass
    return None


def _norm(v, depth=0):
    c = _cell(v)
    if c is not None:
        return c
    if isinstance(v, str):
        return v
    if isinstance(v, dict):
        return {str(k): _norm(x, depth + 1) for k, x in v.items()}
    if isinstance(v, (list, tuple, set, frozenset)):
        return [_norm(x, depth + 1) for x in v]
    s = str(v)
    if " at 0x" in s and hasattr(v, "__dict__") and depth < 4:
        return {"__type__": type(v).__name__, **{k: _norm(x, depth + 1) for k, x in vars(v).items()}}
    if " at 0x" in s:
        return f"<{type(v).__name__}>"
    return s


def _history(df):
    if df is None or len(df.index) == 0:
        return {"columns": [], "index": [], "rows": []}
    cols = ["/".join(str(x) for x in c) if isinstance(c, tuple) else str(c) for c in df.columns]
    return {
        "columns": cols,
        "index": [str(i) for i in df.index],
        "rows": [[_norm(v) for v in row] for row in df.itertuples(index=False, name=None)],
    }


# ------------------------------------------------------------------------------------------------ the strategies
_WORLD = None  # Env of the job; set by worker_main before the manager runs (pool workers inherit it through fork)
_demeter = sys.modules.get("demeter")  # shard / worker processes have imported the working tree's demeter before this module
_StrategyBase = _demeter.Strategy if _demeter is not None else object

USES = {
    "idle": (), "lp": ("uniswap_v3",), "aave": ("aave_v3",), "trader": ("*",), "multi": ("*", "broker"),
    "indicator": ("uniswap_v3",), "vandal": ("*", "broker"), "crasher": ("*",), "whale": ("aave_v3",),
}


class PlanStrategy(_StrategyBase):
    """Seeded, state-dependent trading through the opsgen kits: what it does next depends on what it sees (balances,
    positions, debts), so leaked state changes its whole future."""

    def __init__(self, spec):
        super().__init__()
        self.spec = spec

    # -- demeter callbacks
    def initialize(self):
        sp = self.spec
        self._t0 = time.monotonic()  # system-wide clock: orders the strategies that one process ran
        self._rng = random.Random(sp["seed"])
        self._bar = -1
        self._n = {"ok": 0, "rejected": 0, "generr": 0}
        self._kits = _WORLD.kits_for(self.broker, USES[sp["kind"]])
        self._sig = None
        if sp["kind"] == "indicator":
            import pandas as pd

            um = [m for m in self.broker.markets.values() if m.market_info.type.name == "uniswap_v3"][0]
            px = [Decimal(x) for x in um.data["price"]]
            w = sp["window"]
            vals = [None if i + 1 < w else sum(px[i + 1 - w : i + 1]) / w for i in range(len(px))]
            self.add_column(um, "c19_sig", pd.Series(vals, index=um.data.index, dtype=object))
            self._sig = um

    def before_bar(self, snapshot):
        self._bar = snapshot.row_id

    def on_bar(self, snapshot):
        sp = self.spec
        ms = sp.get("sleep", {}).get(str(self._bar))
        if ms:
            time.sleep(ms / 1000.0)
        if self._bar in sp.get("df_reads", ()):
            hist = self.actuator.account_status_df
            self._hist_rows = len(hist.index)
        if sp["kind"] == "crasher" and self._bar == sp["crash_bar"]:
            self._trade(snapshot, 1.0)
            self._write("raised")
            if sp["crash_exc"] == "ZeroDivisionError":
                return 1 // 0
            if sp["crash_exc"] == "KeyError":
                return {}["c19"]
            from demeter import DemeterError

            raise DemeterError("c19 crasher")
        if sp["kind"] == "whale" and self._bar == 0:
            self._whale()
        self._trade(snapshot, sp["act"])

    def after_bar(self, snapshot):
        sp = self.spec
        if sp["kind"] == "vandal" and self._bar == sp["bars"] - 1:
            for _ in range(self._rng.randint(6, 14)):  # leave as much open as possible
                self._one_op(snapshot)
        elif self._rng.random() < 0.15:
            self._trade(snapshot, sp["act"])

    def finalize(self):
        self._write("finished")
        if self.spec["kind"] == "vandal":
            self._scramble()

    # -- behaviour
    def _gate(self, snapshot):
        if self._sig is None:
            return True
        um = self._sig
        row = um.market_status.data
        sig = row["c19_sig"] if "c19_sig" in row.index else None
        if sig is None or sig != sig:
            return False
        return (Decimal(row["price"]) > sig) == self.spec["above"]

    def _trade(self, snapshot, act):
        if not self._kits or self._rng.random() >= act or not self._gate(snapshot):
            return
        for _ in range(self._rng.randint(1, 3)):
            self._one_op(snapshot)

    def _whale(self):
        """everything it owns supplied as collateral against a debt far below one atomic unit: figures at the far end of
        their range (a health factor of 1e30 and more), then it trades like any other Aave user"""
        from .. import drive as Dr

        am = [m for m in self.broker.markets.values() if m.market_info.type.name == "aave_v3"][0]
        aw = _WORLD.aux["aave"]
        held = [(t, self.broker.get_token_balance(t)) for t in aw.tokens if t in self.broker.assets]
        for t, b in held:
            if b > 0 and aw.risk[t.name]["collateral"]:
                Dr.call_op(am.supply, t, b, True)
        debt = [t for t in aw.tokens if aw.risk[t.name]["borrow"]]
        if debt:
            Dr.call_op(am.borrow, self._rng.choice(debt), Decimal(self._rng.choice(["3e-27", "1e-30", "1e-24", "1e-22"])))
        Dr.call_op(lambda: am.health_factor)
        Dr.call_op(am.get_market_balance)

    def _one_op(self, snapshot):
        from .. import drive as Dr

        kit = self._rng.choice(self._kits)
        try:
            op = kit.gen(self._rng, self.broker, snapshot.prices) if kit.mtype == "broker" else kit.gen(self._rng, self.broker)
        except Exception:  # the generator met a state it cannot handle (deterministic, not an observation)
            self._n["generr"] += 1
            return
        res = Dr.call_op(op.fn)
        self._n["ok" if res.ok else "rejected"] += 1

    def _scramble(self):
        """after the record is written: wreck everything this run owns (its markets, their positions, its broker)."""
        import pandas as pd

        def scale(o):
            for k, v in list(vars(o).items()) if hasattr(o, "__dict__") else ():
                if isinstance(v, bool):
                    setattr(o, k, not v)
                elif isinstance(v, Decimal):
                    setattr(o, k, v * 3 + 1)
                elif isinstance(v, (int, float)):
                    setattr(o, k, v * 3 + 7)

        for m in list(self.broker.markets.values()):
            for name, val in list(vars(m).items()):
                if isinstance(val, pd.DataFrame) or name in ("_market_info", "logger"):
                    continue
                if isinstance(val, dict):
                    for o in list(val.values()):
                        scale(o)
                    if self._rng.random() < 0.3:
                        val.clear()
                elif isinstance(val, set):
                    val.clear()
                elif isinstance(val, bool):
                    setattr(m, name, not val)
                elif isinstance(val, Decimal):
                    setattr(m, name, val * 3 + 1)
                elif isinstance(val, float):
                    setattr(m, name, val * 3 + 7)
            m.data = m.data.iloc[:2]  # rebinding its own attribute; the shared frame is not written
            m.broker = None
            m._record_action_callback = None
            m.open = lambda snapshot: 1 // 0
        for a in self.broker.assets.values():
            a.balance = a.balance * 5 + 1
        self.broker.allow_negative_balance = True
        self.broker.quote_token = None
        # the price table this run was handed (Strategy.prices, the run's own copy): every cell of its first column tripled
        pr = getattr(self, "prices", None)
        if isinstance(pr, pd.DataFrame) and len(pr.columns) and len(pr.index):
            pr.iloc[:, 0] = [x * 3 for x in pr.iloc[:, 0]]

    # -- observation
    def _write(self, status):
        from demeter import AccountStatus

        from .. import drive as Dr

        sp = self.spec
        df = self.account_status_df if status == "finished" else AccountStatus.to_dataframe(self.account_status)
        rec = {
            "name": sp["name"], "kind": sp["kind"], "status": status, "pid": os.getpid(), "t0": self._t0, "t1": time.monotonic(),
            "ops": dict(self._n),
            "history": _history(df),
            "actions": [[type(a).__name__, {k: _norm(v) for k, v in sorted(vars(a).items())}] for a in self.actions],
            "projection": _norm(Dr.project(self.broker)),
        }
        path = os.path.join(sp["out"], sp["name"] + ".json")
        if os.path.exists(path):
            path = os.path.join(sp["out"], f"{sp['name']}.again-{os.getpid()}-{time.time_ns()}.json")
        with open(path + ".tmp", "w") as fh:
            json.dump(rec, fh)
        os.rename(path + ".tmp", path)


# ------------------------------------------------------------------------------------------------ job process
def worker_main(jobfile):
    """runs in a fresh interpreter (python -m vmon.checks.c19 job.json); vmon.env.setup() has been called."""
    global _WORLD
    with open(jobfile) as fh:
        job = json.load(fh)
    from demeter import BacktestConfig, BacktestData, BacktestManager, StrategyConfig

    _WORLD = build_world(job["world"])
    out = job["out"]

    def mk(spec, sleep):
        s = dict(spec)
        s["out"], s["sleep"] = out, sleep
        return PlanStrategy(s)

    config = StrategyConfig(_WORLD.assets, _WORLD.markets)
    data = BacktestData(_WORLD.data, _WORLD.prices)
    bk = BacktestConfig(False, False, _WORLD.interval)
    if job["mode"] in ("solo", "plain"):
        for spec in job["strategies"]:
            sys.stdout.flush()
            sys.stderr.flush()
            pid = os.fork()
            if pid == 0:  # pristine child: nothing has run in this interpreter yet
                try:
                    try:
                        if job["mode"] == "solo":
                            BacktestManager(config, data, [mk(spec, {})], bk, threads=1).run()
                        else:
                            # the same configuration applied by hand to a bare Actuator (what "running it alone" means
                            # without the manager): markets with their data, the configured wallet, prices, interval
                            from demeter import Actuator

                            act = Actuator()
                            for m in _WORLD.markets:
                                act.broker.add_market(m)
                                m.data = _WORLD.data[m.market_info]
                            for tok, amt in _WORLD.assets.items():
                                act.broker.set_balance(tok, amt)
                            act.strategy = mk(spec, {})
                            act.set_price(_WORLD.prices)
                            act.interval = _WORLD.interval
                            act.run(False)
                    except BaseException as e:  # noqa
                        with open(os.path.join(out, spec["name"] + ".exc.json"), "w") as fh:
                            json.dump({"type": type(e).__name__, "msg": str(e)[:300], "tb": traceback.format_exc()[-1500:]}, fh)
                finally:
                    os._exit(0)
            deadline = time.monotonic() + RUN_TIMEOUT
            while True:
                done, _st = os.waitpid(pid, os.WNOHANG)
                if done:
                    break
                if time.monotonic() > deadline:
                    os.kill(pid, 9)
                    os.waitpid(pid, 0)
                    break
                time.sleep(0.005)
        return
    strategies = [mk(job["strategies"][i], job["sleep"].get(job["strategies"][i]["name"], {})) for i in job["order"]]
    info = {"pid": os.getpid(), "error": None}
    if job.get("primer"):
        pdir = os.path.join(out, "_primer")
        os.makedirs(pdir, exist_ok=True)
        ps = dict(job["strategies"][job["order"][0]])
        ps["out"], ps["sleep"], ps["name"] = pdir, {}, "primer"
        if ps["kind"] == "crasher":
            ps["kind"] = "multi"
        try:
            BacktestManager(config, data, [PlanStrategy(ps)], bk, threads=1).run()
        except BaseException as e:  # noqa  the trial run's own trouble is not this run's
            info["primer_error"] = f"{type(e).__name__}: {str(e)[:200]}"
    try:
        BacktestManager(config, data, strategies, bk, threads=job["threads"]).run()
    except BaseException as e:  # noqa
        info["error"] = f"{type(e).__name__}: {str(e)[:300]}"
        info["tb"] = traceback.format_exc()[-1500:]
    with open(os.path.join(out, "_manager.json"), "w") as fh:
        json.dump(info, fh)


def _spawn(case, mode, out, run=None):
    job = {"mode": mode, "world": case["world"], "strategies": case["strategies"], "out": out}
    if run is not None:
        job.update({"threads": run["threads"], "order": run["order"], "sleep": run["sleep"], "primer": bool(run.get("primer"))})
    jobfile = os.path.join(out, "_job.json")
    with open(jobfile, "w") as fh:
        json.dump(job, fh)
    env = dict(os.environ, PYTHONHASHSEED=str(case["hashseed"]), TQDM_DISABLE="1")
    try:
        p = subprocess.run([sys.executable, "-m", "vmon.checks.c19", jobfile], cwd=VERIF, env=env, timeout=RUN_TIMEOUT + 30,
                           stdout=subprocess.PIPE, stderr=subprocess.STDOUT, text=True)
    except subprocess.TimeoutExpired:
        return None, "timeout"
    return p.returncode, (p.stdout or "")[-3000:]


def _load(out, names):
    recs, again, excs = {}, {}, {}
    for fn in sorted(os.listdir(out)):
        if fn.startswith("_") or fn.endswith(".tmp"):
            continue
        with open(os.path.join(out, fn)) as fh:
            obj = json.load(fh)
        nm = fn.split(".")[0]
        if fn.endswith(".exc.json"):
            excs[nm] = obj
        elif ".again-" in fn:
            again.setdefault(nm, []).append(obj)
        else:
            recs[nm] = obj
    return recs, again, excs


# ------------------------------------------------------------------------------------------------ comparison
def _show(c):
    """record cell -> short human text (cells are exact: integers, p/q, f<repr>)"""
    if isinstance(c, str) and "/" in c and c.replace("/", "").replace("-", "").isdigit():
        p, q = c.split("/")
        try:
            return f"{int(p) / int(q):.15g}"
        except (OverflowError, ZeroDivisionError):
            return c
    return str(c)[:80]


def _first_diff(a, b):
    """(component, description) of the first difference between two records, or None."""
    if a["status"] != b["status"]:
        return "status", f"status {a['status']} -> {b['status']}"
    ha, hb = a["history"], b["history"]
    if ha["columns"] != hb["columns"]:
        return "account-history", f"columns differ: only alone {sorted(set(ha['columns']) - set(hb['columns']))[:6]}, only managed {sorted(set(hb['columns']) - set(ha['columns']))[:6]}"
    if ha["index"] != hb["index"]:
        return "account-history", f"bars differ: {len(ha['index'])} alone, {len(hb['index'])} managed"
    for i, (ra, rb) in enumerate(zip(ha["rows"], hb["rows"])):
        if ra != rb:
            d = [(ha["columns"][j], x, y) for j, (x, y) in enumerate(zip(ra, rb)) if x != y][:4]
            return "account-history", f"bar {i} ({ha['index'][i]}): " + "; ".join(f"{c}: alone {_show(x)} managed {_show(y)}" for c, x, y in d)
    if a["actions"] != b["actions"]:
        la, lb = a["actions"], b["actions"]
        for i in range(max(len(la), len(lb))):
            x = la[i] if i < len(la) else None
            y = lb[i] if i < len(lb) else None
            if x != y:
                return "action-list", f"{len(la)} actions alone, {len(lb)} managed; first difference at #{i}: alone {str(x)[:200]} managed {str(y)[:200]}"
    if a["projection"] != b["projection"]:
        from .. import drive as Dr

        return "final-positions", "; ".join(Dr.diff_proj(a["projection"], b["projection"])[:4])
    return None


def _activity(rec):
    n = len(rec["actions"])
    return "0" if n == 0 else ("1-5" if n <= 5 else ("6-20" if n <= 20 else ">20"))


def one_case(mon, c, case, wanted, scratch):
    strategies = case["strategies"]
    names = [s["name"] for s in strategies]
    kind = {s["name"]: s["kind"] for s in strategies}
    mix = case["world"]["mix"]
    # ---- reference: every strategy alone
    out = os.path.join(scratch, f"c{c}-solo")
    os.makedirs(out)
    rc, tail = _spawn(case, "solo", out)
    mon.hit("solo_batches")
    if rc is None:
        mon.hit("timeouts")
        return
    if rc != 0:
        mon.violation("harness", "solo", "solo-batch-failed", mix, f"rc={rc}: {tail[-1200:]}", {"case": case})
        return
    solo, again, excs = _load(out, names)
    for nm in names:
        mon.hit("solo_runs")
        if nm in solo:
            r = solo[nm]
            mon.cls(f"solo/{mix}/{kind[nm]}/{r['status']}/actions:{_activity(r)}")
            if kind[nm] == "crasher" and r["status"] != "raised" or kind[nm] != "crasher" and r["status"] != "finished":
                mon.violation("harness", "solo", "unexpected-solo-status", kind[nm], f"{nm}: {r['status']}", {"case": case})
        else:
            e = excs.get(nm, {"type": "?", "msg": "no record and no exception", "tb": ""})
            mon.cls(f"solo/{mix}/{kind[nm]}/framework-raised/{e['type']}")
            mon.note(f"solo-framework-raise/{e['type']}", f"{mix}/{kind[nm]}: {e['msg'][:200]} {e.get('tb', '')[-400:]}")
    # ---- the manager's single-strategy run against a bare Actuator configured by hand (an independent reading of "alone")
    if case.get("plain"):
        outp = os.path.join(scratch, f"c{c}-plain")
        os.makedirs(outp)
        rc, tail = _spawn(case, "plain", outp)
        if rc == 0:
            plain, _, pexcs = _load(outp, names)
            for nm in names:
                if nm in plain and nm in solo:
                    mon.ev()
                    mon.hit("plain_actuator_comparisons")
                    d = _first_diff(plain[nm], solo[nm])
                    if d is not None:
                        mon.violation("manager", "single-strategy", f"{d[0]}-differs-from-plain-actuator", f"{mix}/{kind[nm]}",
                                      f"{nm} ({kind[nm]}) run by the manager on its own differs from the same configuration on a bare "
                                      f"Actuator: {d[1]}", {"case": case})
                elif (nm in plain) != (nm in solo):
                    mon.ev()
                    mon.violation("manager", "single-strategy", "record-only-on-one-side-vs-plain-actuator", f"{mix}/{kind[nm]}",
                                  f"{nm}: plain Actuator {'has' if nm in plain else 'has no'} record, manager alone "
                                  f"{'has' if nm in solo else 'has none'}: {(pexcs.get(nm) or excs.get(nm) or {}).get('msg', '')[:200]}",
                                  {"case": case})
        elif rc is None:
            mon.hit("timeouts")
    # ---- managed variants
    for j in wanted:
        run = dict(case["runs"][j])
        run["threads"] = min(run["threads"], os.cpu_count() or 1)  # the manager refuses more workers than cores
        mon.want(f"{c}.{j}")
        out = os.path.join(scratch, f"c{c}-run{j}")
        os.makedirs(out)
        rc, tail = _spawn(case, "managed", out, run)
        mon.hit("manager_runs")
        if rc is None:
            mon.hit("timeouts")
            continue
        mpath = os.path.join(out, "_manager.json")
        if rc != 0 or not os.path.exists(mpath):
            mon.violation("harness", "managed", "manager-process-failed", mix, f"rc={rc}: {tail[-1200:]}", {"case": case, "run": run})
            continue
        with open(mpath) as fh:
            mgr = json.load(fh)
        recs, again, _ = _load(out, names)
        judge(mon, case, run, mgr, solo, recs, again, tail)


def judge(mon, case, run, mgr, solo, recs, again, tail):
    strategies = case["strategies"]
    mix = case["world"]["mix"]
    order = [strategies[i] for i in run["order"]]
    k, t = len(order), run["threads"]
    sub = {s["name"]: p for p, s in enumerate(order)}  # submission index
    kinds = [s["kind"] for s in order]
    # ---- the schedule that happened
    by_pid = {}
    for nm, r in recs.items():
        by_pid.setdefault(r["pid"], []).append((r["t0"], nm))
    seqs = {pid: [nm for _, nm in sorted(v)] for pid, v in by_pid.items()}
    inproc = all(pid == mgr["pid"] for pid in seqs) if seqs else (t == 1)
    path = "sequential" if inproc else "pool"
    assign = "".join(sorted("[" + ",".join(str(sub[nm]) for nm in v) + "]" for v in seqs.values()))
    lost = [s["name"] for s in order if s["name"] not in recs]
    mon.cls(f"schedule/{path}/t{t}/n{k}/{assign}" + (f"/no-record:{len(lost)}" if lost else ""))
    mon.hit("runs_" + path)
    if any(len(v) >= 2 for v in seqs.values()):
        mon.hit("runs_with_worker_reuse" if not inproc else "runs_sequential_2plus")
    prev = {}
    for v in seqs.values():
        for a, b in zip([None] + v[:-1], v):
            prev[b] = a
    if sum(1 for x in kinds if x != "idle") >= 2:
        mon.nt(f"{mix}/{path}/t{t}/{'>'.join(kinds)}")
    desc = {"mix": mix, "interval": case["world"]["interval"], "bars": strategies[0]["bars"], "threads": t, "path": path,
            "order": [f"{s['name']}:{s['kind']}" for s in order], "assignment(pid->submission idx)": assign,
            "manager_error": mgr.get("error")}
    if mgr.get("error"):
        mon.cls(f"manager-run-raised/{path}/{mgr['error'].split(':')[0]}")
    # ---- every strategy against its solo record
    all_equal = True
    for s in order:
        nm, kd = s["name"], s["kind"]
        pk = strategies[[x["name"] for x in strategies].index(prev[nm])]["kind"] if prev.get(nm) else None
        site = f"after-{pk}-in-same-process" if pk else ("first-in-its-process" if nm in recs else "never-ran-or-died")
        if nm in again:
            mon.violation("manager", path, "strategy-ran-more-than-once", kd, f"{nm} wrote {1 + len(again[nm])} records; {desc}", {"case": case, "run": run})
        a, b = solo.get(nm), recs.get(nm)
        if a is None and b is None:
            mon.cls(f"compare/{kd}/no-record-alone-and-managed")
            continue
        if a is None:
            mon.ev()
            mon.violation("manager", path, "result-only-under-manager", site,
                          f"{nm}:{kd} raised inside the framework alone but left a record under the manager; {desc}", {"case": case, "run": run})
            all_equal = False
            continue
        if b is None:
            mon.ev()
            all_equal = False
            # who ran before it (submission order) tells the mechanism on the sequential path
            before = [x["kind"] for x in order[: sub[nm]]]
            why = "after-crasher" if "crasher" in before else "no-crasher-before"
            mon.cls(f"compare/{kd}/no-record-under-manager/{path}/{why}")
            mon.violation("manager", path, "no-result-under-manager", why,
                          f"{nm}:{kd} has an account history alone but never finished under the manager "
                          f"(manager error: {mgr.get('error')}); {desc}; output tail: {tail[-500:]}", {"case": case, "run": run})
            continue
        if pk is not None:
            mon.hit(f"ran_after_{pk}_in_same_process")
        rows = max(1, len(a["history"]["rows"]))
        mon.ev(rows + 2)
        mon.hit("strategies_compared")
        d = _first_diff(a, b)
        mon.cls(f"compare/{kd}/{path}/{'equal' if d is None else 'differs:' + d[0]}/actions:{_activity(a)}")
        if d is not None:
            all_equal = False
            mon.violation("manager", path, d[0] + "-differs-from-solo", site,
                          f"{nm}:{kd} ({site}) {d[1]}; {desc}", {"case": case, "run": run, "strategy": nm})
    mon.sample({**desc, "all_equal_to_solo": all_equal,
                "actions_per_strategy": {nm: len(r["actions"]) for nm, r in solo.items()},
                "final_net_value_alone": {nm: (_show(r["history"]["rows"][-1][0]) if r["history"]["rows"] else None) for nm, r in solo.items()}},
               cls=f"{mix}/{path}/{min(t, 3)}")


def run(spec, mon):
    import tempfile

    scratch = tempfile.mkdtemp(prefix="c19-", dir=os.getcwd())
    for c in range(spec["cases"]):
        rng = mon.case_rng(c)
        case = gen_case(rng, c, f"{mon.seed}/{spec.get('shard', 0)}/{c}")
        wanted = [j for j in range(len(case["runs"])) if mon.only_case is None or mon.only_case == f"{c}.{j}"]
        if spec["tier"] == "quick" and mon.only_case is None:
            wanted = wanted[:3]
        if not wanted:
            continue
        one_case(mon, c, case, wanted, scratch)


def floors(merged, tier):
    out = []
    r = merged["reach"]
    if r.get("timeouts", 0):
        out.append(f"{r['timeouts']} manager/solo process(es) hit the {RUN_TIMEOUT}s watchdog")
    # about a tenth of what the quick tier reaches on the unchanged tree
    need = {"runs_sequential": 4, "runs_pool": 8, "runs_with_worker_reuse": 6, "runs_sequential_2plus": 4, "strategies_compared": 50,
            "ran_after_vandal_in_same_process": 5}
    for k, v in need.items():
        if r.get(k, 0) < v:
            out.append(f"{k} = {r.get(k, 0)} < {v}")
    if sum(v for k, v in r.items() if k.startswith("ran_after_") and "idle" not in k) < 20:
        out.append("fewer than 20 strategies observed right after a trading strategy in the same process")
    sched = [k for k in merged["classes"] if k.startswith("schedule/")]
    if len(sched) < 5:
        out.append(f"only {len(sched)} distinct schedules observed")
    return out


if __name__ == "__main__":
    from vmon import env as _env

    _env.setup()
    from vmon.checks import c19 as _real

    _real.worker_main(sys.argv[1])
