"""C13 — Aave derived views always equal a from-scratch recomputation.

Shadow recomputation: random interleavings of writes (supply / withdraw / borrow / repay with cash or collateral /
collateral flag changes / liquidation through update() / new bars / re-pricing of the same bar / rejected calls of
each) on the real AaveV3Market held by a Frozen broker.  Before every write a random subset of views is read (which
warms the five DictCaches behind them in a random pattern), after every write all views (or a random subset, so that
cold/warm patterns differ between writes) are read again; every read is compared with `oracles/aave_views.Expected`,
computed in exact arithmetic from the raw scaled balances / flags, the world's own index-rate row, the price vector in
force and the world's risk rows."""
from decimal import Decimal
from fractions import Fraction

from .. import drive as Dr
from .. import worlds as W
from ..oracles import aave_views as O

ID = "C13"
META = {
    "level": "exploration",
    "rule": "a case = one random interleaving of 30-70 writes on a generated Aave world (2-5 tokens, own index/rate/"
    "price paths, risk rows with flags on/off); before each write a random subset of the 19 views is read, after it all "
    "(or a random subset) are read; every view read compared with the from-scratch recomputation is one evaluation. "
    "Non-trivial = a view that was read (cache warm) before the write and is checked after a write that changed its "
    "recomputed value, or after a rejected call / liquidation; distinct by (write kind, outcome, view, value "
    "changed or not, portfolio class #supplies/#collaterals/#debts/health-factor band).",
    "assumptions": [
        "equality is up to the rounding a 35-digit Decimal implementation accumulates: rigorous per-operation bound "
        "(1e-32 relative per elementary operation) propagated through each formula, floor 1e-30 relative",
        "rate_to_apy raises a 35-digit Decimal to the 31,536,000th power and legitimately loses about 8 digits: APY "
        "figures are compared within 1e-24 absolute (propagated through the weighted means)",
        "the 1e-4 quantised fields of get_market_balance() must be a multiple of 1e-4 within half a quantum of the "
        "exact value (ties either way); net_value and net_apy are recomputed from the balance's own quantised fields",
        "a quotient whose divisor cannot be told from zero within the rounding bound (supplies == debts in total_apy) "
        "is not compared",
        "raw positions are read from the market's _supplies/_borrows dicts (scaled balance, flag, begin index), "
        "indices/rates/prices/risk rows from the generated world, never from the market",
        "whether a call should have been accepted or rejected, and what it moved, is not judged here (C04, C10, C11, "
        "C12); any exception out of a write counts as a rejected call, an exception out of a view read is a violation",
        "portfolios keep health factors below about 1e25; a dust debt under a huge collateral (health factor beyond "
        "1e30) makes get_market_balance() overflow Decimal.quantize and is outside the sampled domain",
    ],
}
NSHARDS = 16

DICT_VIEWS = ("supplies_value", "collateral_value", "borrows_value")
SCALAR_VIEWS = (
    "total_supply_value", "total_collateral_value", "total_borrows_value", "liquidation_threshold", "max_ltv", "ltv",
    "health_factor", "supply_apy", "borrow_apy", "total_apy",
)
VIEWS = DICT_VIEWS + SCALAR_VIEWS + ("supplies", "borrows", "get_supply", "get_borrow", "market_balance", "keys")
TOKENS = (("WETH", 18), ("USDC", 6), ("WBTC", 8), ("DAI", 18), ("LINK", 18))


def plan(tier, seed):
    n = 36 if tier == "quick" else 600
    return [{"shard": i, "cases": n} for i in range(NSHARDS)]


def _q18(x):
    """18 places, in a context wide enough for amounts of cheap tokens (1e25 of them need 43 digits)"""
    from decimal import Context

    return Context(prec=80).quantize(Decimal(x), Decimal(10) ** -18)


def run(spec, mon):
    for c in range(spec["cases"]):
        rng = mon.case_rng(c)
        if not mon.want(c):
            continue
        try:
            Case(mon, rng, c).run()
        except Exception as e:  # harness trouble or the code crashed somewhere no wrapper expected
            import traceback

            mon.violation("aave", "sequence", "unexpected-exception", Dr.reject_site(e), traceback.format_exc()[-1800:])


# ------------------------------------------------------------------------------------------------ observation
def read_view(m, view, toks):
    """the observed value of one view, through the public accessor only."""
    if view == "market_balance":
        return m.get_market_balance()
    if view == "get_supply":
        return {k: m.get_supply(k) for k in m.supply_keys}
    if view == "get_borrow":
        return {k: m.get_borrow(k) for k in m.borrow_keys}
    if view == "keys":
        d = m.description
        return (list(m.supply_keys), list(m.borrow_keys), d.supplies_count, d.borrows_count)
    return getattr(m, view)


def _names(keys):
    return sorted(getattr(k, "name", str(k)) for k in keys)


def _cmp_value_dict(got, want, out):
    if _names(got.keys()) != sorted(want):
        out.append(("keys", f"listed {_names(got.keys())}, positions {sorted(want)}"))
    for k, v in got.items():
        e = want.get(getattr(k, "name", None))
        if e is not None and O.near(v, e) is False:
            out.append(("value", f"{k.name}: observed {v} recomputed {O.show(e)}"))


def _cmp_positions(got, want, is_supply, out):
    if _names(got.keys()) != sorted(want):
        out.append(("keys", f"listed {_names(got.keys())}, positions {sorted(want)}"))
    for k, p in got.items():
        e = want.get(getattr(k, "name", None))
        if e is None:
            continue
        if getattr(p.token, "name", None) != k.name:
            out.append(("token", f"{k.name}: entry names token {p.token}"))
        if p.base_amount != e["base_amount"]:
            out.append(("base_amount", f"{k.name}: observed {p.base_amount} raw {e['base_amount']}"))
        if is_supply and bool(p.collateral) != e["collateral"]:
            out.append(("collateral-flag", f"{k.name}: listed flag {p.collateral}, position flag {e['collateral']}"))
        for f in ("amount", "apy", "value"):
            if O.near(getattr(p, f), e[f]) is False:
                out.append((f, f"{k.name}: observed {f} {getattr(p, f)} recomputed {O.show(e[f])}"))
        b = p.begin_supply_index if is_supply else p.begin_borrow_index
        if b != e["begin"]:
            out.append(("begin-index", f"{k.name}: observed {b} raw {e['begin']}"))


def _cmp_balance(b, exp, out):
    q = (
        ("supplies_value", exp.total_supply_value), ("borrows_value", exp.total_borrows_value),
        ("collaterals_value", exp.total_collateral_value), ("liquidation_threshold", exp.liquidation_threshold),
        ("health_factor", exp.health_factor), ("max_ltv", exp.max_ltv), ("supply_apy", exp.supply_apy),
        ("borrow_apy", exp.borrow_apy),
    )
    for f, e in q:
        if O.near_quantised(getattr(b, f), e) is False:
            out.append((f, f"balance.{f} = {getattr(b, f)}, recomputed {O.show(e)} (quantum 1e-4)"))
    if O.near(b.ltv, exp.ltv) is False:
        out.append(("ltv", f"balance.ltv = {b.ltv}, recomputed {O.show(exp.ltv)}"))
    if b.supplies_count != len(exp.sup) or b.borrows_count != len(exp.bor):
        out.append(("counts", f"counts {b.supplies_count}/{b.borrows_count}, positions {len(exp.sup)}/{len(exp.bor)}"))
    try:
        ts, tb = O.A(b.supplies_value), O.A(b.borrows_value)
        if b.net_value != b.supplies_value - b.borrows_value:
            out.append(("net_value", f"net_value {b.net_value} != {b.supplies_value} - {b.borrows_value}"))
        if ts.v == tb.v:
            want = O.A(0)
        else:
            want = (O.A(b.supply_apy) * ts - O.A(b.borrow_apy) * tb) / (ts - tb)
        if O.near(b.net_apy, want) is False:
            out.append(("net_apy", f"net_apy {b.net_apy}, from the balance's own fields {O.show(want)}"))
    except (TypeError, ValueError, ArithmeticError) as e:
        out.append(("net-fields", f"not numbers: {type(e).__name__} {e}"))


def compare(view, got, exp):
    """list of (aspect, detail) in which the observed view differs from the recomputation."""
    out = []
    if view in DICT_VIEWS:
        if not isinstance(got, dict):
            return [("type", f"{type(got).__name__}")]
        _cmp_value_dict(got, getattr(exp, view), out)
    elif view in SCALAR_VIEWS:
        e = getattr(exp, view)
        if O.near(got, e) is False:
            out.append(("value", f"observed {got} recomputed {O.show(e)}"))
    elif view in ("supplies", "get_supply"):
        _cmp_positions(got, exp.sup, True, out)
    elif view in ("borrows", "get_borrow"):
        _cmp_positions(got, exp.bor, False, out)
    elif view == "market_balance":
        _cmp_balance(got, exp, out)
    elif view == "keys":
        sk, bk, ns, nb = got
        if _names(sk) != sorted(exp.sup) or _names(bk) != sorted(exp.bor) or ns != len(exp.sup) or nb != len(exp.bor):
            out.append(("keys", f"supply_keys {_names(sk)} borrow_keys {_names(bk)} counts {ns}/{nb}; positions "
                                f"{sorted(exp.sup)} / {sorted(exp.bor)}"))
    return out


def sig(exp, view):
    """hashable summary of the recomputed view (to tell whether a write changed what the view must show)."""
    def s(x):
        return x if (x is None or x is O.INF) else x.v

    def d(dd):
        return tuple(sorted((k, x.v) for k, x in dd.items()))

    def pos(dd, coll):
        return tuple(sorted(
            (k, r["base_amount"], r.get("collateral") if coll else None, r["amount"].v, r["apy"].v, r["value"].v)
            for k, r in dd.items()
        ))

    if view in DICT_VIEWS:
        return d(getattr(exp, view))
    if view in SCALAR_VIEWS:
        return s(getattr(exp, view))
    if view in ("supplies", "get_supply"):
        return pos(exp.sup, True)
    if view in ("borrows", "get_borrow"):
        return pos(exp.bor, False)
    if view == "keys":
        return (tuple(sorted(exp.sup)), tuple(sorted(exp.bor)))
    return tuple(s(getattr(exp, v)) for v in SCALAR_VIEWS) + (len(exp.sup), len(exp.bor))


# ------------------------------------------------------------------------------------------------ one case
class Case:
    def __init__(self, mon, rng, c):
        import pandas as pd
        from demeter._typing import USD

        self.pd = pd
        self.mon, self.rng, self.c = mon, rng, c
        self.index_kind = rng.choice(["flat", "slow", "jumpy", "jumpy"])
        self.price_kind = rng.choice(["walk", "walk", "crash", "wild"])
        self.n = rng.choice([12, 30, 60])
        toks = rng.sample(TOKENS, rng.randint(2, 5))
        self.w = w = W.AaveWorld(rng, n=self.n, tokens=toks, index_kind=self.index_kind,
                                 all_flags=rng.random() < 0.5, price_kind=self.price_kind)
        self.m = w.market()
        self.tok = {t.name: t for t in w.tokens}
        self.names = [t.name for t in w.tokens]
        self.rows = {nm: w.data[nm].to_dict("records") for nm in self.names}
        self.bar = 0
        self.prices = {nm: w.prices[nm].iloc[0] for nm in self.names}
        wallet = {t: Decimal(10) ** rng.choice([12, 12, 9]) for t in w.tokens}
        self.sib = None
        if rng.random() < 0.3:
            # Aave on a second chain under the same account: the same token names, other indices and risk rows; it is read
            # and written between the monitored market's operations (see vmon/decoy.py)
            from ..decoy import AaveSibling

            self.sib = AaveSibling(rng, w)
            mon.cls("sibling/aave")
        self.fz = Dr.Frozen([self.m] + ([self.sib.m] if self.sib else []), w.prices.iloc[0], None, wallet, w.index[0])
        self.fz.broker.quote_token = USD
        self.exp = None          # recomputation for the current state
        self.exp_pre = None      # recomputation before the last write
        self.warm = set()        # views read since the last write (their caches are warm)
        self.warm_pre = set()    # views that had been read when the last write started
        self.last = ("none", "none", "ok")  # (family, label, outcome) of the last write
        self.trace = []
        self.shocked = False

    # ---- oracle side
    def recompute(self):
        m = self.m
        try:
            sup = {k.name: (v.base_amount, bool(v.collateral), v.begin_supply_index) for k, v in m._supplies.items()}
            bor = {k.name: (v.base_amount, v.begin_borrow_index) for k, v in m._borrows.items()}
        except AttributeError:  # internals renamed: fall back to the raw fields of the public position objects
            sup, bor = {}, {}
            for k in m.supply_keys:
                s = m.get_supply(k)
                sup[k.name] = (s.base_amount, bool(s.collateral), s.begin_supply_index)
            for k in m.borrow_keys:
                b = m.get_borrow(k)
                bor[k.name] = (b.base_amount, b.begin_borrow_index)
        row = {nm: self.rows[nm][self.bar] for nm in self.names}
        return O.Expected(sup, bor, row, self.prices, self.w.risk)

    # ---- monitor side
    def check(self, view, phase):
        mon = self.mon
        family, label, outcome = self.last
        opkey = family if outcome == "ok" else f"{family}:rejected"
        try:
            got = read_view(self.m, view, self.tok)
        except Exception as e:
            mon.ev()
            mon.violation(
                "aave", opkey, f"{view}/raises", f"{type(e).__name__}@{Dr.reject_site(e)}",
                f"reading {view} after {label} ({outcome}) raised {type(e).__name__}: {e}; case {self.c}, "
                f"last writes {self.trace[-6:]}", {"case": self.c, "trace": self.trace[-12:]},
            )
            return
        self.warm.add(view)
        mon.ev()
        bad = compare(view, got, self.exp)
        was_warm = view in self.warm_pre
        changed = self.exp_pre is not None and sig(self.exp_pre, view) != sig(self.exp, view)
        if phase == "post":
            mon.cls(f"checked/{view}/{'warm' if was_warm else 'cold'}/{'changed' if changed else 'same'}")
            if was_warm and (changed or outcome != "ok" or family == "update"):
                mon.nt(f"{label}/{outcome}/{view}/{'chg' if changed else 'same'}/{self.exp.state_class()}")
                mon.hit("nontrivial-view-checks")
        for aspect, detail in bad:
            stale = False
            if self.exp_pre is not None and changed:
                stale = not any(a == aspect for a, _ in compare(view, got, self.exp_pre))
            site = "equals-the-value-before-the-write" if stale else "differs-from-recomputation"
            mon.violation(
                "aave", opkey, f"{view}/{aspect}", site,
                f"{view} after {label} ({outcome}{', view was read before the write' if was_warm else ''}): {detail}; "
                f"case {self.c} bar {self.bar}, last writes {self.trace[-6:]}",
                {"case": self.c, "bar": self.bar, "trace": self.trace[-12:], "phase": phase},
            )

    def warmers(self):
        """reads a strategy would do that go through the caches without being compared here."""
        rng, m = self.rng, self.m
        if self.sib is not None and rng.random() < 0.5:
            self.sib.poke(rng)
            self.mon.hit("sibling-poke")
        r = rng.random()
        try:
            if r < 0.10 and m.supply_keys:
                m.get_max_withdraw_amount(rng.choice(m.supply_keys))
            elif r < 0.20:
                m.get_max_borrow_amount(self.tok[rng.choice(self.names)])
            elif r < 0.23:
                m.formatted_str()
            elif r < 0.26:
                str(m)
            elif r < 0.30:
                self.fz.broker.get_account_status(self.fz.prices, self.fz.timestamp)
        except Exception as e:
            self.mon.cls(f"helper-read-raised/{type(e).__name__}@{Dr.reject_site(e)}")

    def helper(self, fn, *a):
        """a limit helper a strategy would call before the write (reads through the caches); None if it raises."""
        try:
            return fn(*a)
        except Exception as e:
            self.mon.cls(f"helper-read-raised/{type(e).__name__}@{Dr.reject_site(e)}")
            return None

    # ---- writes
    def amount(self, t, lo=-3, hi=3):
        rng = self.rng
        a = Decimal(rng.randint(1, 10**9)) / Decimal(10**6) * Decimal(10) ** rng.randint(lo, hi)
        a = a.quantize(Decimal(10) ** -min(18, t.decimal))
        return a if a > 0 else Decimal(1) / Decimal(10**t.decimal)

    def set_prices(self, series):
        self.prices = {nm: series[nm] for nm in self.names}

    def do_write(self, op):
        """returns (family, label, OpResult)"""
        rng, m, w, tok = self.rng, self.m, self.w, self.tok
        exp = self.exp
        sup, coll, bor = sorted(exp.sup), sorted(exp.collateral_value), sorted(exp.bor)
        call = Dr.call_op
        if op == "supply":
            t = tok[rng.choice(self.names)]
            if t.name in exp.sup:
                flag = exp.sup[t.name]["collateral"]
                label = "supply_more_coll" if flag else "supply_more_plain"
            else:
                flag = w.risk[t.name]["collateral"] and rng.random() < 0.75
                label = "supply_new_coll" if flag else "supply_new_plain"
            return "supply", label, call(m.supply, t, self.amount(t), flag)
        if op == "supply_reject":
            t = tok[rng.choice(self.names)]
            kind = rng.choice(["flag", "wallet", "zero"])
            if kind == "flag" and t.name in exp.sup:
                return "supply", "supply_flag_mismatch", call(m.supply, t, self.amount(t), not exp.sup[t.name]["collateral"])
            if kind == "flag" and not w.risk[t.name]["collateral"]:
                return "supply", "supply_not_collateralisable", call(m.supply, t, self.amount(t), True)
            if kind == "zero":
                flag = exp.sup[t.name]["collateral"] if t.name in exp.sup else False
                return "supply", "supply_zero", call(m.supply, t, Decimal(0), flag)
            flag = exp.sup[t.name]["collateral"] if t.name in exp.sup else False
            return "supply", "supply_over_wallet", call(m.supply, t, self.fz.broker.get_token_balance(t) * 2 + 1, flag)
        if op in ("withdraw_part", "withdraw_all", "withdraw_max", "withdraw_over", "withdraw_most"):
            t = tok[rng.choice(sup)]
            cur = exp.sup[t.name]["amount"].v
            tag = "coll" if exp.sup[t.name]["collateral"] else "plain"
            if op == "withdraw_all":
                return "withdraw", f"withdraw_all_{tag}", call(m.withdraw, t, None)
            if op == "withdraw_max":
                a = self.helper(m.get_max_withdraw_amount, t)
                if a is None:
                    return None
                a = a * rng.choice([Decimal(1), Decimal("0.999"), Decimal("1.001")])
                return "withdraw", f"withdraw_max_{tag}", call(m.withdraw, t, a)
            f = {"withdraw_part": Fraction(rng.randint(1, 80), 100), "withdraw_most": Fraction(rng.randint(90, 100), 100),
                 "withdraw_over": Fraction(3, 2)}[op]
            a = _q18(Decimal(str(float(cur * f))))
            return "withdraw", f"{op}_{tag}", call(m.withdraw, t, a)
        if op in ("borrow", "borrow_max", "borrow_over", "borrow_nocoll", "borrow_disabled"):
            if op == "borrow_disabled":
                cands = [nm for nm in self.names if not w.risk[nm]["borrow"]]
                if not cands:
                    op = "borrow"
                else:
                    return "borrow", op, call(m.borrow, tok[rng.choice(cands)], Decimal("0.001"))
            cands = [nm for nm in self.names if w.risk[nm]["borrow"]] or self.names
            t = tok[rng.choice(cands)]
            if op == "borrow_nocoll":
                return "borrow", op, call(m.borrow, t, self.amount(t, -6, -3))
            if op == "borrow_max":
                return "borrow", op, call(m.borrow, t, None)
            room = self.helper(m.get_max_borrow_amount, t)
            if room is None:
                return None
            f = Decimal(rng.randint(5, 95)) / 100 if op == "borrow" else Decimal("1.5")
            a = _q18(room * f)
            label = op + ("_new" if t.name not in exp.bor else "_more")
            return "borrow", label, call(m.borrow, t, a)
        if op in ("repay_part", "repay_all", "repay_over"):
            t = tok[rng.choice(bor)]
            cur = exp.bor[t.name]["amount"].v
            if op == "repay_all":
                return "repay", op, call(m.repay, t, None)
            f = Fraction(rng.randint(1, 95), 100) if op == "repay_part" else Fraction(3, 2)
            return "repay", op, call(m.repay, t, _q18(Decimal(str(float(cur * f)))))
        if op == "repay_coll":
            t = tok[rng.choice(bor)]
            cands = coll if (coll and rng.random() < 0.85) else sup
            if not cands:
                return "repay_with_collateral", "repay_coll_no_supply", call(m.repay, t, None, True, t)
            ct = tok[rng.choice(cands)]
            cur = exp.bor[t.name]["amount"].v
            label = "repay_coll_same" if ct.name == t.name else "repay_coll_other"
            if not exp.sup[ct.name]["collateral"]:
                label = "repay_coll_plain_supply"
            if rng.random() < 0.25:
                return "repay_with_collateral", label + "_all", call(m.repay, t, None, True, ct)
            a = _q18(Decimal(str(float(cur * Fraction(rng.randint(5, 95), 100)))))
            return "repay_with_collateral", label, call(m.repay, t, a, True, ct)
        if op == "collateral_flip":
            t = tok[rng.choice(sup)]
            new = not exp.sup[t.name]["collateral"]
            return "change_collateral", "collateral_on" if new else "collateral_off", call(m.change_collateral, t, new)
        if op == "collateral_same":
            t = tok[rng.choice(sup)]
            return "change_collateral", "collateral_same", call(m.change_collateral, t, exp.sup[t.name]["collateral"])
        if op == "absent":
            kind = rng.choice(["withdraw", "repay", "change_collateral", "repay_with_collateral"])
            book = exp.bor if kind in ("repay", "repay_with_collateral") else exp.sup
            free = [nm for nm in self.names if nm not in book]
            if not free:
                return None
            t = tok[rng.choice(free)]
            if kind == "withdraw":
                return kind, "withdraw_absent", call(m.withdraw, t, Decimal(1))
            if kind == "repay":
                return kind, "repay_absent", call(m.repay, t, Decimal(1))
            if kind == "repay_with_collateral":
                return kind, "repay_coll_absent", call(m.repay, t, Decimal(1), True, t)
            return kind, "collateral_absent", call(m.change_collateral, t, True)
        if op == "new_bar":
            if self.bar >= self.n - 1:
                op = "reprice"
            else:
                self.bar = min(self.n - 1, self.bar + rng.choice([1, 1, 1, 2, 5]))
                row = w.prices.iloc[self.bar]
                self.set_prices(row)
                self.shocked = False
                return "set_market_status(new-bar)", "new_bar", call(self.fz.set_bar, w.index[self.bar], row)
        if op == "reprice":
            row = w.prices.iloc[self.bar].copy()
            for nm in self.names:
                if rng.random() < 0.6:
                    row[nm] = (row[nm] * Decimal(str(round(rng.uniform(0.7, 1.3), 4)))).normalize()
            self.set_prices(row)
            return "set_market_status(same-bar)", "reprice_same_bar", call(self.fz.set_bar, w.index[self.bar], row)
        if op == "shock":
            hf = exp.health_factor
            if hf is None or hf is O.INF or hf.v <= 0:
                return None
            target = Fraction(rng.choice([99, 97, 96, 90, 70, 45, 20]), 100) * Fraction(rng.randint(970, 1000), 1000)
            f = Decimal(str(float(target / hf.v)))
            only_c = [nm for nm in coll if nm not in exp.bor]
            only_d = [nm for nm in bor if nm not in exp.collateral_value]
            row = self.pd.Series({nm: self.prices[nm] for nm in self.names})
            if only_c and sorted(only_c) == coll:
                for nm in only_c:
                    row[nm] = row[nm] * f
            elif only_d and sorted(only_d) == bor:
                for nm in only_d:
                    row[nm] = row[nm] / f
            else:
                return None
            same = rng.random() < 0.5 or self.bar >= self.n - 1
            if not same:
                self.bar += 1
            self.set_prices(row)
            self.shocked = True
            fam = "set_market_status(same-bar)" if same else "set_market_status(new-bar)"
            return fam, "price_shock", call(self.fz.set_bar, w.index[self.bar], row)
        if op == "update":
            n0 = len(self.fz.actions)
            res = call(m.update)
            liq = len(self.fz.actions) - n0
            self.shocked = False
            hf = exp.health_factor
            if liq and isinstance(hf, O.A):
                band = "hf>0.95" if hf.v > Fraction(95, 100) else ("hf>0.5" if hf.v > Fraction(1, 2) else "hf<=0.5")
                self.mon.hit("liquidation-steps", liq)
                return "update(liquidation)", f"liquidation_{min(liq, 3)}step_{band}", res
            return "update(no-liquidation)", "update_noop", res
        raise ValueError(op)

    def choose(self):
        rng, exp = self.rng, self.exp
        sup, coll, bor = exp.sup, exp.collateral_value, exp.bor
        if self.shocked and rng.random() < 0.7:
            return "update"
        c = [("supply", 6), ("new_bar", 5), ("reprice", 1), ("update", 2), ("supply_reject", 1.5), ("absent", 1)]
        if sup:
            c += [("withdraw_part", 3), ("withdraw_most", 1), ("withdraw_all", 1.5), ("withdraw_max", 1), ("withdraw_over", 1),
                  ("collateral_flip", 4), ("collateral_same", 0.7)]
        if coll:
            c += [("borrow", 6), ("borrow_max", 1), ("borrow_over", 1), ("borrow_disabled", 0.7)]
        else:
            c += [("borrow_nocoll", 1)]
        if bor:
            c += [("repay_part", 3), ("repay_all", 1.5), ("repay_over", 1), ("repay_coll", 4)]
            if coll:
                c += [("shock", 4)]
        tot = sum(x[1] for x in c)
        r = rng.uniform(0, tot)
        for name, wgt in c:
            r -= wgt
            if r <= 0:
                return name
        return c[-1][0]

    def run(self):
        rng, mon = self.rng, self.mon
        self.exp = self.recompute()
        nsteps = rng.randint(30, 70)
        for step in range(nsteps):
            # 1. warm a random pattern of caches (each read is compared too)
            k = rng.choice([0, 0, 1, 2, 3, 5, len(VIEWS)])
            for v in rng.sample(VIEWS, k):
                self.check(v, "pre")
            self.warmers()
            # 2. one write
            done = self.do_write(self.choose())
            if done is None:
                continue
            family, label, res = done
            outcome = "ok" if res.ok else "rejected"
            self.last = (family, label, outcome)
            self.trace.append(f"{self.bar}:{label}:{outcome if res.ok else res.site}")
            mon.hit(f"{family}:{outcome}")
            mon.cls(f"write/{label}/{outcome}" + ("" if res.ok else f"@{res.site}"))
            self.warm_pre, self.warm = self.warm, set()
            self.exp_pre, self.exp = self.exp, self.recompute()
            # 3. all views (or a random subset, to leave some caches cold for the next write) against the recomputation
            after = list(VIEWS)
            rng.shuffle(after)
            if rng.random() < 0.4:
                after = after[: rng.randint(1, len(VIEWS) - 1)]
            for v in after:
                self.check(v, "post")
        mon.sample(
            {"case": self.c, "tokens": self.names, "index_kind": self.index_kind, "price_kind": self.price_kind,
             "writes": self.trace[:14], "final_state": self.exp.state_class(),
             "health_factor": O.show(self.exp.health_factor), "total_supply_value": O.show(self.exp.total_supply_value)},
            cls=f"{self.index_kind}/{self.price_kind}",
        )


def floors(merged, tier):
    out = []
    reach = merged["reach"]
    need = {
        "supply:ok": 50, "supply:rejected": 5, "withdraw:ok": 20, "withdraw:rejected": 5, "borrow:ok": 20,
        "borrow:rejected": 5, "repay:ok": 10, "repay:rejected": 3, "repay_with_collateral:ok": 5,
        "repay_with_collateral:rejected": 2, "change_collateral:ok": 10, "change_collateral:rejected": 2,
        "update(liquidation):ok": 3, "set_market_status(new-bar):ok": 30, "set_market_status(same-bar):ok": 5,
        "nontrivial-view-checks": 2000,
    }
    for k, n in need.items():
        if reach.get(k, 0) < n:
            out.append(f"{k} reached {reach.get(k, 0)} times (< {n})")
    cl = merged["classes"]
    for v in VIEWS:
        n = sum(cnt for key, cnt in cl.items() if key.startswith(f"checked/{v}/warm/changed"))
        if n < 50:
            out.append(f"view {v} checked only {n} times after a write that changed it while its cache was warm")
    return out
