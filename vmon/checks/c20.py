"""C20 — performance metrics equal their definitions.

Reference-model monitor on generated net-value series: every metric function of demeter/result/metrics/calculator.py
and every entry of performance_metrics() is called on the real code and compared with the direct definition computed
from the net-value series itself in 60-digit Decimal arithmetic (vmon/oracles/metrics.py).

Clauses (mechanism key = C20 | metrics | <function> | <clause> | <site>):
  max_draw_down        range[0,1], never-falling-zero, definition, scale-invariant
  return_rate_series / return_multiple   first-element-neutral, definition (element by element)
  return_rate / return_value             definition; total-return forms (end points, gross series, rate series)
  annualized_return    compound: end points (numpy / python numbers), net_values, return_rates; single: end points,
                       net_values — each against log(1+APR) = 365/d * ln(v_n/v_0), hence against one another
  volatility, sharpe_ratio, alpha_beta   definition
  performance_metrics  one clause per returned entry
"""
import math
from decimal import Decimal

from .. import drive as Dr
from ..oracles import metrics as O

ID = "C20"
META = {
    "level": "exploration",
    "rule": "a case = one generated positive net-value series (21 shape classes x length 2..2000 x float64/Decimal/int64 "
    "x scale 1e-9..1e15) with a sampling interval (1 s .. 7 d), an annualisation duration, a risk-free rate and a "
    "benchmark series; every comparison of one real return value (or one returned series) with the reference is one "
    "evaluation. Non-trivial = the series has at least one decline and one rise; distinct by (shape, length bucket, "
    "dtype, drawdown class: largest-absolute-elsewhere / trough-last / first-pair / general).",
    "assumptions": [
        "float results are compared at 1e-9 relative plus the rounding a double computation of the same definition "
        "cannot avoid: 4 ulp per elementary operation, amplified by the exponent 365/duration for annualised figures "
        "(compared through log(1+APR)), by 1/g for a gross return g recovered from a rate (rate + 1), and by 1/std for "
        "volatility, beta and Sharpe; a figure whose admissible error exceeds 1e-3 relative is not compared "
        "(class 'ill-conditioned')",
        "an annualised figure whose logarithm exceeds ln(DBL_MAX) must be inf; OverflowError from python-float end "
        "points counts as that overflow",
        "year = 365 days; volatility = sample standard deviation (n-1) * sqrt(365/interval); "
        "performance_metrics: interval = first index gap (uniform indices only), duration = last - first + interval",
        "undefined figures are not compared: std/beta/Sharpe of a single return (n = 2), zero volatility, "
        "zero-variance benchmark",
        "Decimal-valued series are given only to max_draw_down, return_rate_series, return_multiple and "
        "performance_metrics (which converts to float); the power/ratio functions are float-only by signature",
        "the first element of return_rate_series / return_multiple (no predecessor) must be the neutral 0 / 1, "
        "which is what makes the series forms of total and annualised return equivalent to the end-point form",
        "drawdown tolerance 1e-12 absolute + 1e-9 relative (also between rescaled copies)",
    ],
}
NSHARDS = 16
U = O.U
D = O.D
REL = Decimal("1e-9")
DD_ABS = Decimal("1e-12")
ILL = Decimal("1e-3")

SHAPES = (
    "rising", "nondecreasing", "falling", "nonincreasing", "flat", "V", "lambda", "dips_rel_first", "dips_abs_first",
    "walk", "walk_up", "walk_down", "spike_up", "crash", "last_drop", "first_drop", "sawtooth", "tiny", "const_growth",
    "new_highs", "small_ints",
)
LENGTHS = ((2, 2, 8), (3, 3, 8), (4, 4, 6), (5, 5, 6), (6, 12, 20), (13, 40, 20), (41, 150, 14), (151, 400, 7), (401, 2000, 3))
INTERVALS = (1, 60, 300, 420, 900, 3600, 14400, 86400, 604800)  # seconds
BENCH = ("corr", "anti", "indep", "same", "scaled", "lowvar", "flat")


def plan(tier, seed):
    n = 1200 if tier == "quick" else 9000
    return [{"shard": i, "cases": n} for i in range(NSHARDS)]


# ---------------------------------------------------------------------------------------------- generators
def _len(rng):
    tot = sum(w for _, _, w in LENGTHS)
    x = rng.uniform(0, tot)
    for lo, hi, w in LENGTHS:
        x -= w
        if x <= 0:
            if hi > 400:
                return int(round(math.exp(rng.uniform(math.log(lo), math.log(hi)))))
            return rng.randint(lo, hi)
    return 2


def len_bucket(n):
    for b in (2, 3, 4, 8, 20, 60, 200, 600):
        if n <= b:
            return str(b)
    return "2000"


def gen_series(rng, shape, n):
    """Positive floats around 100; the declared shape is what the generator aims at, classes are recomputed."""
    vol = rng.choice([1e-4, 1e-3, 1e-2, 1e-2, 0.05, 0.2])
    up = lambda: 1 + abs(rng.gauss(0, vol)) + 1e-9  # noqa: E731
    dn = lambda: 1 / (1 + abs(rng.gauss(0, vol)) + 1e-9)  # noqa: E731
    v = [100.0 * rng.uniform(0.5, 2)]

    def ext(f, k):
        for _ in range(k):
            v.append(v[-1] * f())

    m = n - 1
    if shape == "rising":
        ext(up, m)
    elif shape == "nondecreasing":
        ext(lambda: 1.0 if rng.random() < 0.4 else up(), m)
    elif shape == "falling":
        ext(dn, m)
    elif shape == "nonincreasing":
        ext(lambda: 1.0 if rng.random() < 0.4 else dn(), m)
    elif shape == "flat":
        ext(lambda: 1.0, m)
    elif shape == "V":
        k = rng.randint(1, max(1, m - 1)) if m > 1 else 1
        ext(dn, k)
        ext(up, m - k)
    elif shape == "lambda":
        k = rng.randint(1, max(1, m - 1)) if m > 1 else 1
        ext(up, k)
        ext(dn, m - k)
    elif shape in ("dips_rel_first", "dips_abs_first"):
        # two declines: one at a low level (large relative, small absolute), one at a high level (small relative, large
        # absolute); the second variant makes the high-level decline the larger one in both senses
        d_small_lvl = rng.uniform(0.2, 0.8)
        d_big_lvl = rng.uniform(0.02, 0.9 * d_small_lvl) if shape == "dips_rel_first" else rng.uniform(d_small_lvl, 0.95)
        lift = rng.uniform(1.5, 2.0) * max(1.0, d_small_lvl / d_big_lvl) * rng.choice([1, 1, 10, 1000])
        segs = [m // 4, m // 4, m // 4]
        segs.append(m - sum(segs))
        if m < 4:
            segs = [1 if i < m else 0 for i in range(4)]
        a0 = v[0]
        plan_pts = []  # (segment length, target value at its end)
        plan_pts.append((segs[0], a0 * (1 - d_small_lvl)))
        plan_pts.append((segs[1], a0 * lift))
        plan_pts.append((segs[2], a0 * lift * (1 - d_big_lvl)))
        plan_pts.append((segs[3], a0 * lift * (1 - d_big_lvl) * rng.uniform(1.0, 1.2)))
        for k, target in plan_pts:
            if k <= 0:
                continue
            start = v[-1]
            for i in range(1, k + 1):
                v.append(start + (target - start) * i / k)
    elif shape in ("walk", "walk_up", "walk_down"):
        mu = {"walk": 0.0, "walk_up": vol / 3, "walk_down": -vol / 3}[shape]
        ext(lambda: math.exp(rng.gauss(mu, vol)), m)
    elif shape in ("spike_up", "crash"):
        k = rng.choice([3.0, 10.0, 1e3, 1e6])
        at = rng.randint(1, m)
        back = rng.random() < 0.7
        for i in range(1, n):
            f = math.exp(rng.gauss(0, vol))
            if i == at:
                f *= k if shape == "spike_up" else 1 / k
            elif i == at + 1 and back:
                f *= 1 / k if shape == "spike_up" else k
            v.append(v[-1] * f)
    elif shape == "last_drop":
        ext(up, m - 1)
        v.append(v[-1] * rng.uniform(0.05, 0.999))
    elif shape == "first_drop":
        v.append(v[0] * rng.uniform(0.05, 0.6))
        cap = v[0] * 0.97
        for _ in range(m - 1):
            nxt = v[-1] * math.exp(rng.gauss(vol / 4, vol / 2))
            v.append(min(max(nxt, v[1] * 1.0000001), cap))
    elif shape == "sawtooth":
        p = rng.randint(2, 6)
        for i in range(1, n):
            v.append(v[-1] * (dn() ** 3 if i % p == 0 else up()))
    elif shape == "tiny":
        eps = rng.choice([1e-13, 1e-11, 1e-9, 1e-7])
        ext(lambda: 1 + rng.uniform(-eps, eps), m)
    elif shape == "const_growth":
        g = 1 + rng.choice([-1, 1]) * rng.choice([1e-6, 1e-4, 1e-2])
        ext(lambda: g, m)
    elif shape == "new_highs":
        for i in range(1, n):
            v.append(v[-1] * (dn() ** 2 if rng.random() < 0.3 else up() ** 1.5))
    elif shape == "small_ints":
        v = [float(rng.randint(1, 6)) for _ in range(n)]
    else:
        raise ValueError(shape)
    return v[:n]


def gen_benchmark(rng, kind, vals):
    n = len(vals)
    g = [vals[t] / vals[t - 1] for t in range(1, n)]
    noise = rng.choice([1e-3, 1e-2])
    b = [rng.uniform(1, 3000)]
    if kind == "corr":
        k = rng.choice([0.5, 1.0, 2.0])
        for x in g:
            b.append(b[-1] * x**k * math.exp(rng.gauss(0, noise)))
    elif kind == "anti":
        for x in g:
            b.append(b[-1] / x * math.exp(rng.gauss(0, noise)))
    elif kind == "indep":
        for _ in g:
            b.append(b[-1] * math.exp(rng.gauss(0, 0.02)))
    elif kind == "same":
        b = list(vals)
    elif kind == "scaled":
        c = rng.choice([0.001, 3.0, 1e6])
        b = [x * c for x in vals]
    elif kind == "lowvar":
        for _ in g:
            b.append(b[-1] * (1 + rng.uniform(-1e-12, 1e-12)))
    elif kind == "flat":
        b = [b[0]] * n
    # keep benchmarks in a sane floating range
    if not all(1e-200 < x < 1e200 for x in b):
        b = [1000.0 * math.exp(0.01 * math.sin(i)) for i in range(n)]
    return b


# ---------------------------------------------------------------------------------------------- comparison helpers
def kind_of(x):
    """('nan'|'inf'|'-inf'|'fin', Decimal or None) of a real return value."""
    if isinstance(x, Decimal):
        if x.is_nan():
            return "nan", None
        if x.is_infinite():
            return ("inf" if x > 0 else "-inf"), None
        return "fin", x
    try:
        f = float(x)
    except (TypeError, ValueError):
        return "nan", None
    if f != f:
        return "nan", None
    if f in (math.inf, -math.inf):
        return ("inf" if f > 0 else "-inf"), None
    return "fin", Decimal(f)


class Ctx:
    """One case: carries the monitor and a short description for violation details."""

    def __init__(self, mon, desc, data):
        self.mon = mon
        self.desc = desc
        self.data = data

    def viol(self, op, clause, site, msg):
        self.mon.violation("metrics", op, clause, site, f"{msg} | {self.desc}", self.data)

    def call(self, op, site, fn, *a, **kw):
        """Call the real code; an exception is a violation (clause 'raises')."""
        try:
            return True, fn(*a, **kw)
        except Exception as e:  # noqa
            self.viol(op, "raises", f"{site}/{type(e).__name__}@{Dr.reject_site(e)}", f"{type(e).__name__}: {e}")
            return False, None

    def close(self, op, clause, site, got, want, tol):
        """|got - want| <= tol with got a real return value, want/tol Decimals."""
        self.mon.ev()
        self.mon.hit(f"{op}/{clause}")
        k, g = kind_of(got)
        if k != "fin":
            self.viol(op, clause, site, f"got {got!r}, reference {float(want)!r}")
            return False
        if abs(g - want) > tol:
            self.viol(op, clause, site, f"got {got!r}, reference {float(want)!r}, diff {float(g - want):.3e}, allowed {float(tol):.3e}")
            return False
        return True

    def apr(self, op, clause, site, got, want_log, tol_log):
        """Compound annualised figure against its logarithm."""
        self.mon.ev()
        self.mon.hit(f"{op}/{clause}")
        lo, hi, must_inf, may_inf = O.apr_interval(want_log, tol_log)
        k, g = kind_of(got) if not isinstance(got, str) else ("inf", None)
        if must_inf:
            self.mon.cls("apr/overflow-inf")
            if k != "inf":
                self.viol(op, clause, site + "/overflow", f"got {got!r}, log(1+APR) = {float(want_log):.6g} overflows a double")
                return False
            return True
        if k == "inf" and may_inf:
            return True
        if k != "fin" or g < lo or (hi is not None and g > hi):
            w = float(O.exp(want_log) - 1) if want_log < 700 else float("inf")
            self.viol(
                op, clause, site,
                f"got {got!r}, reference {w!r} (log(1+APR) {float(want_log):.12g} +- {float(tol_log):.2e})",
            )
            return False
        if want_log < -745:
            self.mon.cls("apr/underflow-minus-one")
        return True


def apr_tol_log(y, wl, ops):
    """Tolerance on log(1+APR): 1e-9 + exponent * (4 ulp per operation that produced the ratio) + exponent rounding."""
    return REL + y * (4 * U) * Decimal(ops) + abs(wl) * 4 * U


# ---------------------------------------------------------------------------------------------- one case
def run(spec, mon):
    O.selftest()
    import numpy as np  # noqa: F401
    import pandas as pd
    from demeter.result.metrics import calculator as C
    from demeter.result.metrics.core import performance_metrics
    from demeter.result.metrics import MetricEnum

    # max_draw_down_benchmark is documented as the by-definition comparison for max_draw_down; on this pandas it
    # cannot run (Series.iteritems is gone).  Recorded, not demanded (it reports nothing).
    try:
        C.max_draw_down_benchmark(pd.Series([3.0, 2.0, 4.0]))
        mon.note("max_draw_down_benchmark", "runs")
    except Exception as e:  # noqa
        mon.note("max_draw_down_benchmark", f"unusable: {type(e).__name__}: {e}")

    for c in range(spec["cases"]):
        rng = mon.case_rng(c)
        if not mon.want(c):
            continue
        one_case(mon, rng, c, pd, C, performance_metrics, MetricEnum)


def one_case(mon, rng, c, pd, C, performance_metrics, ME):
    shape = rng.choice(SHAPES)
    n = _len(rng)
    dtype = rng.choice(["float64"] * 3 + ["Decimal", "int64"])
    sexp = rng.choice([-9, -6, -3, 0, 0, 0, 2, 3, 6, 9, 12, 15])
    if dtype == "int64":
        sexp = rng.choice([0, 2, 3, 6, 9, 12])
    base = gen_series(rng, shape, n)
    raw = [x * 10.0**sexp for x in base]
    if dtype == "int64" and max(raw) > 1e18:
        dtype = "float64"
    if dtype == "int64":
        raw = [max(1, int(round(x))) for x in raw]
    elif dtype == "Decimal":
        # what an account status holds: Decimals with many digits
        raw = [Decimal(repr(x)) * (Decimal(1) + Decimal(rng.randint(0, 999)) / Decimal(10**22)) for x in raw]
    interval_s = rng.choice(INTERVALS)
    if rng.random() < 0.1:
        interval_s = rng.randint(2, 200000)
    bench_kind = rng.choice(BENCH[:5] * 3 + BENCH[5:])
    rf = rng.choice([0.0, 0.03, 0.03, 0.05, -0.01])
    use_dt_index = rng.random() < 0.6
    hostile_dur = rng.choice([365.0, 1.0, 0.5, 30.0, 1000.0, 36500.0, rng.uniform(0.01, 5000)])
    scale_picks = rng.sample(["1e-6", "1e6", "pow2", "rand", "3"], 2)
    pow2 = 2.0 ** rng.randint(-20, 20)
    randf = rng.uniform(0.1, 10)
    bench_decimal = rng.random() < 0.3
    vals_f = [float(x) for x in raw]
    bench = gen_benchmark(rng, bench_kind, vals_f)

    v = O.exact(raw)
    idx = pd.date_range("2023-03-01", periods=n, freq=pd.Timedelta(seconds=interval_s)) if use_dt_index else None
    series = pd.Series(raw, index=idx, dtype=("object" if dtype == "Decimal" else dtype))
    cx = Ctx(
        mon,
        f"shape {shape} n {n} dtype {dtype} x1e{sexp} interval {interval_s}s; head {[str(x)[:22] for x in raw[:6]]}",
        {"case": c, "shape": shape, "n": n, "dtype": dtype, "values": [str(x) for x in raw[:400]], "interval_s": interval_s},
    )

    # ------------------------------------------------------------------ reference values
    dd_want, ip, jt = O.max_drawdown(v)
    dd2 = O.max_drawdown_pairs(v)
    if abs(dd_want - dd2) > Decimal("1e-50") or (n <= 40 and abs(O.max_drawdown_brute(v) - dd_want) > Decimal("1e-50")):
        raise RuntimeError(f"reference forms of max drawdown disagree on case {c}")
    flat_or_up = O.never_falls(v)
    has_rise = any(v[t] > v[t - 1] for t in range(1, n))
    # is the largest absolute decline a different (smaller relative) one?
    if flat_or_up:
        dd_class = "never-falling"
    else:
        peak, best_abs, rel_of_abs = v[0], O.D0, O.D0
        for t in range(1, n):
            if v[t] > peak:
                peak = v[t]
            if peak - v[t] > best_abs:
                best_abs, rel_of_abs = peak - v[t], (peak - v[t]) / peak
        dd_class = "largest-absolute-elsewhere" if rel_of_abs < dd_want * (1 - Decimal("1e-6")) else "general"
        if dd_class == "general":
            if jt == n - 1:
                dd_class = "trough-last"
            elif ip == 0 and jt == 1:
                dd_class = "first-pair"
    mon.cls(f"dd/{dd_class}")
    mon.cls(f"shape/{shape}")
    mon.cls(f"dtype/{dtype}")
    g = O.gross_returns(v)
    r = O.simple_returns(v)
    ratio = O.total_ratio(v)
    inv_g = sum((max(O.D1, 1 / x) for x in g), O.D0)
    ops_end = 4
    ops_nv = 2 * n + 4
    ops_rates = 3 * n + 4 + 2 * inv_g
    gmax = max(g)
    nontrivial = (not flat_or_up) and has_rise

    # ------------------------------------------------------------------ A. max drawdown
    got_dd = None
    ok, got_dd = cx.call("max_draw_down", dtype, C.max_draw_down, series)
    if ok:
        kd, gd = kind_of(got_dd)
        mon.ev()
        mon.hit("max_draw_down/range[0,1]")
        if kd != "fin" or gd < 0 or gd > 1:
            cx.viol("max_draw_down", "range[0,1]", dd_class, f"got {got_dd!r}, reference {float(dd_want)!r}")
        if flat_or_up:
            mon.ev()
            mon.hit("max_draw_down/never-falling-zero")
            if kd != "fin" or gd != 0:
                cx.viol("max_draw_down", "never-falling-zero", shape if shape in ("flat", "rising") else "plateaus", f"got {got_dd!r} for a series that never falls")
        cx.close("max_draw_down", "definition", dd_class, got_dd, dd_want, DD_ABS + REL * dd_want)
        # rescaled copies
        for lab in scale_picks:
            if dtype == "Decimal":
                f = {"1e-6": Decimal("1e-6"), "1e6": Decimal(10**6), "pow2": Decimal(pow2), "rand": Decimal(repr(randf)), "3": Decimal(3)}[lab]
            elif dtype == "int64":
                f = {"1e-6": 1e-6, "1e6": 1e6, "pow2": pow2, "rand": randf, "3": 3}[lab]
            else:
                f = {"1e-6": 1e-6, "1e6": 1e6, "pow2": pow2, "rand": randf, "3": 3.0}[lab]
            ok2, got_s = cx.call("max_draw_down", f"{dtype}/x{lab}", C.max_draw_down, series * f)
            if ok2 and kd == "fin":
                cx.close("max_draw_down", "scale-invariant", f"x{lab}", got_s, gd, DD_ABS + REL * gd)

    # ------------------------------------------------------------------ B. return series
    ok, rrs = cx.call("return_rate_series", dtype, C.return_rate_series, series)
    rrs_ok = False
    if ok:
        mon.ev()
        mon.hit("return_rate_series/definition")
        lst = list(rrs)
        if len(lst) != n:
            cx.viol("return_rate_series", "length", dtype, f"{len(lst)} elements for {n} values")
        else:
            rrs_ok = True
            k0, g0 = kind_of(lst[0])
            if k0 != "fin" or g0 != 0:
                rrs_ok = False
                cx.viol("return_rate_series", "first-element-neutral", dtype, f"first element {lst[0]!r}, expected 0")
            for t in range(1, n):
                kt, gt = kind_of(lst[t])
                want = r[t - 1]
                if kt != "fin" or abs(gt - want) > REL * abs(want) + 8 * U * (1 + g[t - 1]):
                    rrs_ok = False
                    cx.viol("return_rate_series", "definition", dtype, f"element {t}: got {lst[t]!r}, reference {float(want)!r}")
                    break
    ok, rm = cx.call("return_multiple", dtype, C.return_multiple, series)
    rm_ok = False
    if ok:
        mon.ev()
        mon.hit("return_multiple/definition")
        lst = list(rm)
        if len(lst) != n:
            cx.viol("return_multiple", "length", dtype, f"{len(lst)} elements for {n} values")
        else:
            rm_ok = True
            k0, g0 = kind_of(lst[0])
            if k0 != "fin" or g0 != 1:
                rm_ok = False
                cx.viol("return_multiple", "first-element-neutral", dtype, f"first element {lst[0]!r}, expected 1")
            for t in range(1, n):
                kt, gt = kind_of(lst[t])
                if kt != "fin" or abs(gt - g[t - 1]) > REL * g[t - 1]:
                    rm_ok = False
                    cx.viol("return_multiple", "definition", dtype, f"element {t}: got {lst[t]!r}, reference {float(g[t - 1])!r}")
                    break

    if nontrivial:
        mon.nt(f"{shape}/{len_bucket(n)}/{dtype}/{dd_class}")
    if dtype == "Decimal":
        # the remaining functions are float-only; performance_metrics converts, as a user's account status would be
        perf_values = series if use_dt_index else pd.Series(raw, index=pd.date_range("2023-03-01", periods=n, freq=pd.Timedelta(seconds=interval_s)), dtype="object")
        fseries = None
    else:
        fseries = series
        perf_values = series if use_dt_index else pd.Series(raw, index=pd.date_range("2023-03-01", periods=n, freq=pd.Timedelta(seconds=interval_s)), dtype=dtype)

    interval_d = D(interval_s) / 86400
    nat_dur_f = n * interval_s / 86400
    durations = [("natural", nat_dur_f), ("other", hostile_dur)]
    total_tol = lambda ops: REL * abs(ratio - 1) + (4 * U) * Decimal(ops) * ratio + 4 * U * max(O.D1, ratio)  # noqa: E731

    if fseries is not None:
        init, final = fseries.iloc[0], fseries.iloc[-1]
        pinit, pfinal = (int(raw[0]), int(raw[-1])) if dtype == "int64" else (float(raw[0]), float(raw[-1]))
        # -------------------------------------------------------------- C. total return, three forms
        for lab, a, b in (("numpy", init, final), ("python", pinit, pfinal)):
            ok, got = cx.call("return_rate", lab, C.return_rate, a, b)
            if ok:
                cx.close("return_rate", "definition", f"end-points/{lab}", got, ratio - 1, total_tol(ops_end))
            ok, got = cx.call("return_value", lab, C.return_value, a, b)
            if ok:
                cx.close("return_value", "definition", f"end-points/{lab}", got, v[-1] - v[0], REL * abs(v[-1] - v[0]) + 4 * U * max(v[-1], v[0]))
        if rm_ok:
            cx.close("return_multiple", "total-return-form", "prod-1", rm.prod() - 1, ratio - 1, total_tol(ops_nv))
        if rrs_ok:
            cx.close("return_rate_series", "total-return-form", "prod(1+r)-1", (rrs + 1).prod() - 1, ratio - 1, total_tol(ops_rates))

        # -------------------------------------------------------------- D. annualised return, all forms
        for dlab, dur in durations:
            dur_d = D(dur)
            y = 365 / dur_d
            wl = O.log_growth(ratio, dur_d)
            site = dlab
            forms = [
                ("end-points/numpy", ops_end, lambda: C.annualized_return(dur, init, final)),
                ("end-points/python", ops_end, lambda: C.annualized_return(dur, pinit, pfinal)),
                ("net_values", ops_nv, lambda: C.annualized_return(dur, net_values=fseries)),
            ]
            if rrs_ok:
                forms.append(("return_rates", ops_rates, lambda: C.annualized_return(dur, return_rates=rrs)))
            for flab, ops, fn in forms:
                try:
                    got = fn()
                except OverflowError:
                    if flab != "end-points/python":
                        cx.viol("annualized_return", "raises", f"compound/{flab}/OverflowError", "OverflowError")
                        continue
                    mon.cls("apr/python-float-OverflowError")
                    got = "inf"
                except Exception as e:  # noqa
                    cx.viol("annualized_return", "raises", f"compound/{flab}/{type(e).__name__}", f"{type(e).__name__}: {e}")
                    continue
                cx.apr("annualized_return", f"compound/{flab}", site, got, wl, apr_tol_log(y, wl, ops))
            want_single = O.apr_single(ratio, dur_d)
            for flab, ops, fn in (
                ("end-points/numpy", ops_end, lambda: C.annualized_return(dur, init, final, interest_type="single")),
                ("end-points/python", ops_end, lambda: C.annualized_return(dur, pinit, pfinal, interest_type="single")),
                ("net_values", ops_end, lambda: C.annualized_return(dur, net_values=fseries, interest_type="single")),
            ):
                ok, got = cx.call("annualized_return", f"single/{flab}", fn)
                if ok:
                    cx.close("annualized_return", f"single/{flab}", site, got, want_single, REL * abs(want_single) + y * total_tol(ops))

        # -------------------------------------------------------------- E. volatility, Sharpe
        vol_want, vol_tol = vol_reference(r, g, interval_d, gmax)
        if vol_want is None:
            mon.cls("volatility/undefined-single-return")
        elif rrs_ok:
            ok, got = cx.call("volatility", dtype, C.volatility, rrs.iloc[1:], float(interval_d))
            if ok:
                cx.close("volatility", "definition", "rates-from-return_rate_series", got, vol_want, vol_tol)
        for dlab, dur in durations:
            ok, got = cx.call("sharpe_ratio", dlab, C.sharpe_ratio, float(interval_d), dur, fseries, rf)
            if ok:
                check_sharpe(cx, "sharpe_ratio", "definition", dlab, got, ratio, D(dur), ops_rates, vol_want, vol_tol, rf)

        # -------------------------------------------------------------- F. alpha, beta
        # the benchmark is "a series of the same sampling": its index labels need not be the net-value labels (bars stamped
        # at close instead of open, a plain RangeIndex), pairing is by position
        bidx_kind = rng.choice(["same", "same", "shifted", "range"])
        if bidx_kind == "shifted" and len(fseries.index) >= 2:
            bindex = fseries.index + (fseries.index[1] - fseries.index[0])
        elif bidx_kind == "range":
            bindex = pd.RangeIndex(len(bench))
        else:
            bidx_kind, bindex = "same", fseries.index
        mon.cls(f"alpha_beta/benchmark-index/{bidx_kind}")
        bseries = pd.Series(bench, index=bindex)
        bv = O.exact(bench)
        for dlab, dur in durations[: (2 if c % 2 else 1)]:
            ok, got = cx.call("alpha_beta", f"{dlab}/{bench_kind}/index-{bidx_kind}", C.alpha_beta, fseries, bseries, dur)
            if ok:
                check_alpha_beta(cx, "alpha_beta", bench_kind, got[0], got[1], v, bv, D(dur), ops_rates)

    # ------------------------------------------------------------------ G. performance_metrics
    with_bench = rng.random() < 0.75
    bser = None
    if with_bench:
        bser = pd.Series([Decimal(repr(x)) for x in bench] if bench_decimal else bench, index=perf_values.index)
    site = f"{dtype}/{'bench' if with_bench else 'nobench'}"
    ok, pm = cx.call("performance_metrics", site, performance_metrics, perf_values, rf, bser)
    if ok:
        # the function works on float(x) of every value
        vf = O.exact([float(x) for x in raw])
        gf, rfl = O.gross_returns(vf), O.simple_returns(vf)
        ratio_f = O.total_ratio(vf)
        dur_d = n * interval_d
        y = 365 / dur_d
        mon.ev(4)
        mon.hit("performance_metrics/periods")
        ix = perf_values.index
        if pm[ME.start_period] != ix[0] or pm[ME.end_period] != ix[-1]:
            cx.viol("performance_metrics", "Start/End period", site, f"{pm[ME.start_period]} .. {pm[ME.end_period]}")
        if pm[ME.duration] != (ix[-1] - ix[0]) + (ix[1] - ix[0]):
            cx.viol("performance_metrics", "Duration", site, f"{pm[ME.duration]} for {n} bars of {interval_s}s")
        if float(pm[ME.start_val]) != float(raw[0]) or float(pm[ME.end_val]) != float(raw[-1]):
            cx.viol("performance_metrics", "Start/End Value", site, f"{pm[ME.start_val]!r} .. {pm[ME.end_val]!r}")
        cx.close("performance_metrics", "Return", site, pm[ME.return_value], vf[-1] - vf[0], REL * abs(vf[-1] - vf[0]) + 4 * U * max(vf[-1], vf[0]))
        cx.close("performance_metrics", "Rate of Return", site, pm[ME.return_rate], ratio_f - 1, REL * abs(ratio_f - 1) + 20 * U * max(O.D1, ratio_f))
        wl = O.log_growth(ratio_f, dur_d)
        cx.apr("performance_metrics", "APR", site, pm[ME.annualized_return], wl, apr_tol_log(y, wl, ops_end))
        ddf = O.max_drawdown(vf)[0]
        cx.close("performance_metrics", "Max Draw Down", f"{site}/{dd_class}", pm[ME.max_draw_down], ddf, DD_ABS + REL * ddf)
        kd, gd = kind_of(pm[ME.max_draw_down])
        if kd == "fin" and (gd < 0 or gd > 1):
            cx.viol("performance_metrics", "Max Draw Down range[0,1]", site, f"got {pm[ME.max_draw_down]!r}")
        inv_gf = sum((max(O.D1, 1 / x) for x in gf), O.D0)
        ops_rf = 3 * n + 4 + 2 * inv_gf
        vol_want, vol_tol = vol_reference(rfl, gf, interval_d, max(gf))
        if vol_want is None:
            mon.cls("performance_metrics/volatility-undefined-single-return")
        else:
            cx.close("performance_metrics", "Volatility", site, pm[ME.volatility], vol_want, vol_tol)
        check_sharpe(cx, "performance_metrics", "Sharpe Ratio", site, pm[ME.sharpe_ratio], ratio_f, dur_d, ops_rf, vol_want, vol_tol, rf)
        if with_bench:
            bvf = O.exact([float(x) for x in (bser.tolist())])
            check_alpha_beta(cx, "performance_metrics", f"{site}/{bench_kind}", pm[ME.alpha], pm[ME.beta], vf, bvf, dur_d, ops_rf, entry=True)
            bratio = O.total_ratio(bvf)
            cx.close("performance_metrics", "Benchmark return rate", site, pm[ME.benchmark_rate], bratio - 1, REL * abs(bratio - 1) + 20 * U * max(O.D1, bratio))
            bwl = O.log_growth(bratio, dur_d)
            cx.apr("performance_metrics", "Benchmark APR", site, pm[ME.annualized_benchmark_rate], bwl, apr_tol_log(y, bwl, ops_end))

    # ------------------------------------------------------------------ G2. the same series with rows missing (an outage, closed
    # hours): the span it covers is still last - first + one interval, and that span annualises the return
    if ok and n >= 6 and rng.random() < 0.35:
        keep = [0, 1] + sorted(rng.sample(range(2, n - 1), rng.randint(1, max(1, min(n - 4, (n - 3) // 2))))) + [n - 1]
        gvals = perf_values.iloc[keep]
        gb = bser.iloc[keep] if bser is not None else None
        ok2, pm2 = cx.call("performance_metrics", site + "/gaps", performance_metrics, gvals, rf, gb)
        if ok2:
            mon.ev(2)
            mon.hit("performance_metrics/gapped-series")
            gix = gvals.index
            span = (gix[-1] - gix[0]) + (gix[1] - gix[0])
            if pm2[ME.duration] != span:
                cx.viol("performance_metrics", "Duration", site + "/gaps", f"{pm2[ME.duration]} for rows {keep[:12]} of {n} bars of {interval_s}s (span {span})")
            dur_g = D(int(span.total_seconds())) / 86400 if float(span.total_seconds()).is_integer() else D(repr(span.total_seconds())) / 86400
            vfg = O.exact([float(x) for x in raw])
            ratio_g = O.total_ratio([vfg[0], vfg[-1]])
            wlg = O.log_growth(ratio_g, dur_g)
            cx.apr("performance_metrics", "APR", site + "/gaps", pm2[ME.annualized_return], wlg, apr_tol_log(365 / dur_g, wlg, ops_end))
            cx.close("performance_metrics", "Rate of Return", site + "/gaps", pm2[ME.return_rate], ratio_g - 1, REL * abs(ratio_g - 1) + 20 * U * max(O.D1, ratio_g))

    mon.sample(
        {
            "shape": shape, "n": n, "dtype": dtype, "interval_s": interval_s, "values_head": [str(x) for x in raw[:8]],
            "max_draw_down": {"real": str(got_dd), "reference": str(dd_want)[:24], "peak_index": ip, "trough_index": jt, "class": dd_class},
            "total_return_reference": str(ratio - 1)[:24],
            "log(1+APR)_reference_natural_duration": str(O.log_growth(ratio, n * interval_d))[:24],
        },
        cls=f"{shape}/{dtype}" if nontrivial else None,
    )


def vol_reference(r, g, interval_d, gmax):
    """(volatility, admissible absolute error) from the exact simple returns; (None, None) when undefined."""
    s = O.sample_std(r)
    if s is None:
        return None, None
    ann = O.annualisation_factor(interval_d)
    want = s * ann
    # every return carries up to 2 ulp * (1 + g) of unavoidable error; std is 1-Lipschitz (times sqrt(n/(n-1)) <= 1.42)
    tol = REL * want + 64 * U * ann * (1 + gmax)
    return want, tol


def check_sharpe(cx, op, clause, site, got, ratio, dur_d, ops, vol_want, vol_tol, rf):
    mon = cx.mon
    if vol_want is None:
        mon.cls("sharpe/undefined-single-return")
        return
    if vol_want == 0:
        mon.cls("sharpe/undefined-zero-volatility")
        return
    vol_rel = vol_tol / vol_want
    if vol_rel > ILL:
        mon.cls("sharpe/ill-conditioned-volatility")
        return
    y = 365 / dur_d
    wl = O.log_growth(ratio, dur_d)
    lo, hi, must_inf, may_inf = O.apr_interval(wl, apr_tol_log(y, wl, ops))
    rfd = D(rf)
    if must_inf:
        mon.ev()
        mon.hit(f"{op}/{clause}")
        mon.cls("sharpe/overflow-inf")
        if kind_of(got)[0] != "inf":
            cx.viol(op, clause, site + "/overflow", f"got {got!r}; the annualised return overflows, the ratio must be inf")
        return
    if may_inf:
        mon.cls("sharpe/near-overflow-skipped")
        return
    apr = O.exp(wl) - 1
    want = (apr - rfd) / vol_want
    tol = (hi - lo) / 2 / vol_want * (1 + 2 * vol_rel) + abs(want) * vol_rel * 2 + REL * abs(want)
    if tol > ILL * max(O.D1, abs(want)):
        mon.cls("sharpe/ill-conditioned")
        return
    dbl_max = D("1.7976931348623157e308")
    if abs(want) - tol > dbl_max:
        # the annualised return fits a double but the ratio (divided by a volatility < 1) does not: it must be inf
        mon.ev()
        mon.hit(f"{op}/{clause}")
        mon.cls("sharpe/ratio-overflow-inf")
        if kind_of(got)[0] != "inf":
            cx.viol(op, clause, site + "/overflow", f"got {got!r}; (APR - rf) / volatility overflows a double, the ratio must be inf")
        return
    if abs(want) + tol > dbl_max:
        mon.cls("sharpe/near-overflow-skipped")
        return
    mon.cls("sharpe/compared")
    cx.close(op, clause, site, got, want, tol)


def check_alpha_beta(cx, op, site, got_alpha, got_beta, v, bv, dur_d, ops_p, entry=False):
    mon = cx.mon
    g, b = O.gross_returns(v), O.gross_returns(bv)
    var_b = O.sample_cov(b, b)
    if var_b is None:
        mon.cls("beta/undefined-single-return")
        return
    if var_b == 0:
        mon.cls("beta/undefined-flat-benchmark")
        return
    cov = O.sample_cov(g, b)
    beta = cov / var_b
    # first-order effect of 4 ulp on every gross return
    P, B = max(g), max(b)
    mg, mb = O.mean_abs_dev(g), O.mean_abs_dev(b)
    tol_beta = REL * abs(beta) + 16 * U * (P * mb + B * mg + 2 * abs(beta) * B * mb) / var_b
    if tol_beta > ILL * max(O.D1, abs(beta)):
        mon.cls("beta/ill-conditioned")
        return
    mon.cls("beta/compared")
    cl_b, cl_a = ("Beta", "Alpha") if entry else ("beta-definition", "alpha-definition")
    if not cx.close(op, cl_b, site, got_beta, beta, tol_beta):
        return
    y = 365 / dur_d
    n = len(v)
    inv_b = sum((max(O.D1, 1 / x) for x in b), O.D0)
    ops_b = 3 * n + 4 + 2 * inv_b
    wl_p = O.log_growth(O.total_ratio(v), dur_d)
    wl_b = O.log_growth(O.total_ratio(bv), dur_d)
    lo_p, hi_p, must_p, may_p = O.apr_interval(wl_p, apr_tol_log(y, wl_p, ops_p))
    lo_b, hi_b, must_b, may_b = O.apr_interval(wl_b, apr_tol_log(y, wl_b, ops_b))
    if may_p or may_b:
        mon.cls("alpha/overflow-skipped")
        return
    apr_p, apr_b = O.exp(wl_p) - 1, O.exp(wl_b) - 1
    want = apr_p - beta * apr_b
    tol = (hi_p - lo_p) / 2 + abs(beta) * (hi_b - lo_b) / 2 + tol_beta * abs(apr_b) + REL * (abs(apr_p) + abs(beta * apr_b)) + 8 * U * (abs(apr_p) + abs(beta * apr_b))
    if tol > ILL * max(O.D1, abs(want)) and tol > ILL * (abs(apr_p) + abs(beta * apr_b)):
        mon.cls("alpha/ill-conditioned")
        return
    big = D("1e300")
    if abs(beta * apr_b) > big or abs(apr_p) > big or abs(want) + tol > big:
        # a product or the difference leaves the double range (inf, or inf - inf = nan): outside what a float definition fixes
        mon.cls("alpha/overflow-skipped")
        return
    mon.cls("alpha/compared")
    cx.close(op, cl_a, site, got_alpha, want, tol)


def floors(merged, tier):
    out = []
    reach = merged["reach"]
    need = {
        "max_draw_down/definition": 300, "max_draw_down/scale-invariant": 300, "max_draw_down/never-falling-zero": 30,
        "return_rate_series/definition": 300, "return_multiple/definition": 300,
        "return_rate/definition": 200, "return_multiple/total-return-form": 100, "return_rate_series/total-return-form": 100,
        "annualized_return/compound/end-points/numpy": 200, "annualized_return/compound/net_values": 200,
        "annualized_return/compound/return_rates": 200, "annualized_return/single/net_values": 200,
        "volatility/definition": 100, "sharpe_ratio/definition": 100, "alpha_beta/beta-definition": 50,
        "alpha_beta/alpha-definition": 30, "performance_metrics/Max Draw Down": 300, "performance_metrics/APR": 300,
        "performance_metrics/Sharpe Ratio": 100, "performance_metrics/Volatility": 100, "performance_metrics/Beta": 50,
        "performance_metrics/Alpha": 30, "performance_metrics/Benchmark APR": 100,
    }
    for k, floor in need.items():
        if reach.get(k, 0) < floor:
            out.append(f"clause {k} evaluated {reach.get(k, 0)} times (< {floor})")
    cl = merged["classes"]
    for k, floor in (("dd/largest-absolute-elsewhere", 20), ("dd/never-falling", 30), ("dd/trough-last", 20), ("dd/first-pair", 10),
                     ("apr/overflow-inf", 20), ("dtype/Decimal", 50), ("dtype/int64", 50)):
        if cl.get(k, 0) < floor:
            out.append(f"class {k} seen {cl.get(k, 0)} times (< {floor})")
    return out
