"""C10 — Aave balances accrue exactly with the indices; operations move the stated amounts.

Reference model: a scaled-balance ledger in Fraction driven by the same accepted-operation stream, read after
every operation and every bar change.  Plus explicit split/merge pairs on twin markets."""
from decimal import Decimal
from fractions import Fraction

from .. import drive as Dr
from .. import worlds as W

ID = "C10"
META = {
    "level": "exploration",
    "rule": "a case = one random interleaving of supply/withdraw/borrow/repay (cash or collateral, partial/all) and "
    "bar changes on a generated index path, with a deep or (one token in five) a shallow wallet; every position read after an operation or bar change is one evaluation. "
    "Non-trivial = a read of a position after >=1 index change and >=2 operations on that token; distinct by "
    "(kind, ops-on-token bucket, index-changes bucket, last op, index kind, decimals).",
    "assumptions": [
        "amount tolerance 5e-19 absolute per read against the exact ledger (so two sequences agree within 1e-18)",
        "a wallet balance that lands within 1e-5 relative of zero may be snapped to zero (Asset.sub's documented dust rule)",
        "wallet deltas are exact up to the Decimal context precision (1e-33 relative to the balance)",
        "a rejected request (more than the wallet / the position holds, limits of C11) moves nothing: afterwards every position "
        "must still equal the ledger and the wallet must be where the accepted parts left it; the sequence then goes on",
        "a subtraction that leaves a *scaled* balance under 1e-18 clears the position (helper.sub_base_amount, the quantum the "
        "statement's 1e-18 comes from); the ledger does exactly the same for balances the operation lowered",
        "Market.update() (liquidation) is not called here; C12 covers it",
    ],
}
TOL = Fraction(5, 10**19)
NSHARDS = 16


def plan(tier, seed):
    n = 130 if tier == "quick" else 1500
    return [{"shard": i, "cases": n} for i in range(NSHARDS)]


def F(x):
    return Fraction(str(x)) if not isinstance(x, Fraction) else x


class Ledger:
    def __init__(self):
        self.sup = {}  # token name -> scaled Fraction
        self.bor = {}
        self.ops = {}  # token name -> count of ops
        self.idx_changes = {}
        self.last = {}


def run(spec, mon):
    for c in range(spec["cases"]):
        rng = mon.case_rng(c)
        if not mon.want(c):
            continue
        try:
            one_case(mon, rng, c)
        except Exception as e:  # harness or code crashed in an unexpected place
            import traceback

            mon.violation("aave", "sequence", "unexpected-exception", Dr.reject_site(e), traceback.format_exc()[-1500:])


CLAMP = Fraction(1, 10**18) - Fraction(1, 10**27)  # scaled balances below this are cleared by a subtraction


def wallet_move_ok(before: Decimal, after: Decimal, delta: Fraction):
    """after == before + delta exactly, or the dust snap of Asset.sub applied."""
    # the wallet is a Decimal at the context's 35 significant digits: allow that rounding, nothing more
    if abs(F(after) - F(before) - delta) <= max(abs(F(before)), abs(F(after)), 1) * Fraction(1, 10**33):
        return True
    if delta < 0 and after == 0 and before != 0 and abs((F(before) + delta) / F(before)) < Fraction(1, 10**5):
        return True
    return False


def one_case(mon, rng, c):
    index_kind = rng.choice(["flat", "slow", "jumpy", "jumpy"])
    n = rng.choice([30, 80, 220])
    toks = rng.sample([("WETH", 18), ("USDC", 6), ("WBTC", 8), ("DAI", 18), ("LINK", 18)], rng.randint(2, 4))
    hole = rng.random() < 0.3
    if hole:
        # the market also lists a reserve nobody touches whose file has a hole (no records for a stretch of minutes, NaN in
        # the joined frame): the other reserves' rows are their own all the same
        toks = list(toks) + [("HOLE", 18)]
    w = W.AaveWorld(rng, n=n, tokens=toks, index_kind=index_kind, all_flags=True, price_kind="walk")
    if hole:
        a = rng.randint(1, max(1, n // 3))
        b = rng.randint(a + 1, n - 1)
        f = w.data["HOLE"]
        w.data["HOLE"] = f[(f.index < w.index[a]) | (f.index >= w.index[b])]
        mon.cls("world/reserve-with-a-hole")
    m = w.market()
    if hole:
        w.tokens = [t for t in w.tokens if t.name != "HOLE"]
    # mostly a deep wallet; sometimes a shallow one, so that supplies (and repayments) larger than the wallet are requested
    big = {t: Decimal(10) ** rng.choice([12, 12, 12, 4, 1]) for t in w.tokens}
    bar = 0
    sib = None
    if rng.random() < 0.35:
        # Aave on a second chain under the same account: the same token names, other indices and risk rows
        from ..decoy import AaveSibling

        sib = AaveSibling(rng, w)
        mon.cls("sibling/aave")
    fz = Dr.Frozen([m] + ([sib.m] if sib else []), w.prices.iloc[0], None, big, w.index[0])
    from demeter._typing import USD

    fz.broker.quote_token = USD
    led = Ledger()
    flags = {}
    tok = {t.name: t for t in w.tokens}

    def idx(name, kind):
        return F(w.data[name].iloc[bar]["liquidity_index" if kind == "s" else "variable_borrow_index"])

    def price(name):
        return F(w.prices.iloc[bar][name])

    def read_all(after):
        # key sets
        sk = {k.name for k in m.supply_keys}
        bk = {k.name for k in m.borrow_keys}
        for kind, book, keys, getter in (("s", led.sup, sk, m.get_supply), ("b", led.bor, bk, m.get_borrow)):
            for name in set(book) | keys:
                want = book.get(name, Fraction(0)) * idx(name, kind)
                mon.ev()
                if name in keys:
                    got = F(getter(tok[name]).amount)
                    if abs(got - want) > TOL:
                        mon.violation(
                            "aave", "get_supply" if kind == "s" else "get_borrow", "amount-vs-ledger", after,
                            f"{name}: reported {float(got)!r} ledger {float(want)!r} diff {float(got - want):.3e} after {after}; "
                            f"index kind {index_kind}", {"case": c, "bar": bar},
                        )
                else:
                    if want > 2 * TOL:
                        mon.violation(
                            "aave", "get_supply" if kind == "s" else "get_borrow", "position-missing", after,
                            f"{name}: ledger holds {float(want)!r} but position is not listed after {after}",
                        )
                nops = led.ops.get(name, 0)
                nidx = led.idx_changes.get(name, 0)
                if nops >= 2 and nidx >= 1 and name in keys:
                    mon.nt(f"{kind}/{min(nops, 6)}/{min(nidx, 4)}/{led.last.get(name)}/{index_kind}/{tok[name].decimal}")
                    mon.cls(f"read/{kind}/{led.last.get(name)}")

    nops = rng.randint(6, 30)
    trace = []
    for step in range(nops):
        # maybe advance bars
        if rng.random() < 0.5 and bar < n - 1:
            bar = min(n - 1, bar + rng.choice([1, 1, 2, 5, 20, 60, 200]))
            fz.set_bar(w.index[bar], w.prices.iloc[bar])
            if sib is not None and rng.random() < 0.7:
                sib.poke(rng)
                mon.hit("sibling-poke")
            for name in set(led.sup) | set(led.bor):
                led.idx_changes[name] = led.idx_changes.get(name, 0) + 1
            read_all("new-bar")
        if sib is not None and rng.random() < 0.4:
            sib.poke(rng)
            mon.hit("sibling-poke")
        t = rng.choice(w.tokens)
        name = t.name
        scale = Decimal(10) ** rng.randint(-6, 6)
        amt = (Decimal(rng.randint(1, 10**9)) / Decimal(10**6) * scale).quantize(Decimal(10) ** -min(18, t.decimal))
        if amt == 0:
            amt = Decimal(1) / Decimal(10**t.decimal)
        if led.bor and rng.random() < 0.25:
            # the max-repay helper reports the debt (amount borrowed x borrow-index ratio), and nothing else
            dn = rng.choice(sorted(led.bor))
            r_h = Dr.call_op(m.get_max_repay_amount, tok[dn])
            mon.ev()
            mon.hit("max-repay-helper")
            want_h = led.bor[dn] * idx(dn, "b")
            if not r_h.ok:
                mon.violation("aave", "get_max_repay_amount", "raises", r_h.site or type(r_h.exc).__name__, f"{dn}: {r_h.exc!r}")
            elif abs(F(r_h.ret) - want_h) > TOL:
                mon.violation("aave", "get_max_repay_amount", "amount-vs-ledger", "helper",
                              f"{dn}: helper says {r_h.ret}, the debt is {float(want_h)!r} (index kind {index_kind})", {"case": c, "bar": bar})
        choices = ["supply"] * 3
        if led.sup.get(name):
            choices += ["withdraw", "withdraw_all", "withdraw_part3", "withdraw_zero"]
        if led.sup:
            choices += ["borrow"] * 2
        if led.bor:
            choices += ["repay", "repay_all", "repay_coll", "repay_half_twice", "repay_over", "repay_zero"]
        op = rng.choice(choices)
        wb = {k.name: v.balance for k, v in fz.broker.assets.items()}
        sup_before, bor_before = dict(led.sup), dict(led.bor)
        n_act = len(fz.actions)
        res = None
        zero_op = False
        paid = Fraction(0)
        exp_wallet = {}
        label = op
        if op in ("withdraw_zero", "repay_zero"):
            # an amount of exactly zero (a computed delta that came out 0) is not "everything": refused or a no-op, the
            # position and the wallet stay where they are (ledger untouched, no wallet move expected)
            zero = rng.choice([Decimal(0), 0, 0.0, Decimal("0.000000000000000000")])
            if op == "withdraw_zero":
                res = Dr.call_op(m.withdraw, t, zero)
            else:
                name = rng.choice(sorted(led.bor))
                res = Dr.call_op(m.repay, tok[name], zero)
            mon.hit(op)
            mon.cls(f"{op}/{'accepted' if res.ok else 'rejected'}")
            zero_op = True
        elif op == "supply":
            # the collateral flag is drawn once per position (a supply with the other flag is rejected, C04's subject)
            flag = flags.get(name) if name in led.sup else (rng.random() < 0.7)
            res = Dr.call_op(m.supply, t, amt, flag)
            if res.ok:
                flags[name] = flag
                label = "supply" if flag else "supply_plain"
                led.sup[name] = led.sup.get(name, Fraction(0)) + F(amt) / idx(name, "s")
                exp_wallet[name] = -F(amt)
        elif op in ("withdraw", "withdraw_all", "withdraw_part3"):
            cur = led.sup[name] * idx(name, "s")
            # stay far from the health-factor limit: only touch a small part unless there is no debt
            if op == "withdraw_all" and not led.bor:
                rep = m.get_supply(t).amount
                res = Dr.call_op(m.withdraw, t, None)
                if res.ok:
                    led.sup.pop(name)
                    exp_wallet[name] = F(rep)
                    if name in {k.name for k in m.supply_keys}:
                        mon.violation("aave", "withdraw", "full-withdraw-still-listed", "", f"{name} still listed after withdraw(None)")
            else:
                frac = Fraction(rng.randint(1, 30), 100) if (led.bor and flags.get(name, True)) else Fraction(rng.randint(1, 99), 100)
                a = Decimal(str(float(cur * frac))).quantize(Decimal(10) ** -18)
                if a <= 0:
                    continue
                if op == "withdraw_part3":
                    parts = [a / 3, a / 3, a - 2 * (a / 3)]
                else:
                    parts = [a]
                for pa in parts:
                    res = Dr.call_op(m.withdraw, t, pa)
                    if not res.ok:
                        break
                    led.sup[name] = led.sup[name] - F(pa) / idx(name, "s")
                    exp_wallet[name] = exp_wallet.get(name, Fraction(0)) + F(pa)
        elif op == "borrow":
            # 10 % of what the ledger says is borrowable, keeps HF comfortably above 1
            coll = sum(led.sup[k] * idx(k, "s") * price(k) * F(w.risk[k]["ltv"]) for k in led.sup if flags.get(k, True))
            debt = sum(led.bor[k] * idx(k, "b") * price(k) for k in led.bor)
            room = (coll - debt) * Fraction(rng.randint(1, 20), 100) / price(name)
            a = Decimal(str(float(room))).quantize(Decimal(10) ** -18) if room > 0 else Decimal(0)
            if a <= 0:
                continue
            res = Dr.call_op(m.borrow, t, a)
            if res.ok:
                led.bor[name] = led.bor.get(name, Fraction(0)) + F(a) / idx(name, "b")
                exp_wallet[name] = F(a)
        elif op in ("repay", "repay_all", "repay_coll", "repay_half_twice", "repay_over"):
            bname = rng.choice(sorted(led.bor))
            bt = tok[bname]
            cur = led.bor[bname] * idx(bname, "b")
            name = bname
            if op == "repay_over":
                # a repayment larger than the debt, by a hair (the debt rounded up to the token's own last decimal, a few 1e-18,
                # one part in 1e12) or by half: whatever is accepted must move exactly that amount out of the debt
                from decimal import ROUND_CEILING
                curd = Decimal(cur.numerator) / Decimal(cur.denominator)
                kind = rng.choice(["token-decimals", "token-decimals", "wei", "ppt", "half-more"])
                if kind == "token-decimals":
                    a = curd.quantize(Decimal(10) ** -bt.decimal, rounding=ROUND_CEILING)
                elif kind == "wei":
                    a = curd.quantize(Decimal(10) ** -18, rounding=ROUND_CEILING) + Decimal(rng.choice([1, 2, 7])) / Decimal(10**18)
                elif kind == "ppt":
                    a = curd * (1 + Decimal("1e-12"))
                else:
                    a = curd * Decimal("1.5")
                label = f"repay_over/{kind}"
                over_scaled = (F(a) - cur) / idx(bname, "b")
                if over_scaled <= 0:
                    continue
                # the code compares scaled balances rounded at 1e-18 (its quantum): only an excess beyond that must be refused
                must_reject = over_scaled > Fraction(3, 2) / 10**18
                res = Dr.call_op(m.repay, bt, a)  # cash (with collateral the contract lowers the repayment: repay_coll covers it)
                mon.ev()
                mon.cls(f"repay-over/{kind}/{'must-reject' if must_reject else 'within-quantum'}/{'accepted' if res.ok else 'rejected'}")
                mon.hit("repay_over")
                if res.ok and must_reject:
                    mon.violation("aave", "repay", "repayment-beyond-debt-accepted", f"{kind}/dec{bt.decimal}",
                                  f"repay({bname}, {a}) accepted with a debt of {float(cur)!r} (over by {float(F(a) - cur):.3e}, scaled "
                                  f"{float(over_scaled):.3e}): the payer is charged {a} while only the debt can disappear "
                                  f"(case {c}, trace {trace[-3:]})")
                    return
                if res.ok:
                    led.bor.pop(bname)
                    exp_wallet[bname] = -F(a)
            if op == "repay_over":
                pass  # done above; a rejection is handled like any other below
            elif op == "repay_all":
                rep = m.get_borrow(bt).amount
                res = Dr.call_op(m.repay, bt, None)
                if res.ok:
                    led.bor.pop(bname)
                    exp_wallet[bname] = -F(rep)
                    if bname in {k.name for k in m.borrow_keys}:
                        mon.violation("aave", "repay", "full-repay-still-listed", "", f"{bname} still listed after repay(None)")
            elif op == "repay_coll":
                cands = sorted(k for k in led.sup)
                cname = rng.choice(cands)
                a = Decimal(str(float(cur * Fraction(rng.randint(1, 120), 100)))).quantize(Decimal(10) ** -18)
                a = min(a, Decimal(str(float(cur))).quantize(Decimal(10) ** -18, rounding="ROUND_FLOOR"))
                if a <= 0:
                    continue
                need_c = F(a) * price(bname) / price(cname)
                have_c = led.sup[cname] * idx(cname, "s")
                res = Dr.call_op(m.repay, bt, a, True, tok[cname])
                label = "repay_coll_same" if cname == bname else "repay_coll_other"
                if res.ok:
                    if need_c > have_c:  # the contract lowers the repayment to what the collateral covers
                        paid = have_c * price(cname) / price(bname)
                        led.sup.pop(cname)
                        label += "_capped"
                    else:
                        paid = F(a)
                        led.sup[cname] = led.sup[cname] - need_c / idx(cname, "s")
                    led.bor[bname] = led.bor[bname] - paid / idx(bname, "b")
                    led.ops[cname] = led.ops.get(cname, 0) + 1
                    led.last[cname] = label
                    for k in list(fz.broker.assets.keys()):
                        exp_wallet.setdefault(k.name, Fraction(0))
            else:
                a = Decimal(str(float(cur * Fraction(rng.randint(1, 95), 100)))).quantize(Decimal(10) ** -18)
                if a <= 0:
                    continue
                parts = [a / 2, a - a / 2] if op == "repay_half_twice" else [a]
                for pa in parts:
                    res = Dr.call_op(m.repay, bt, pa)
                    if not res.ok:
                        break
                    led.bor[bname] = led.bor[bname] - F(pa) / idx(bname, "b")
                    exp_wallet[bname] = exp_wallet.get(bname, Fraction(0)) - F(pa)
        if res is None:
            continue
        trace.append((bar, label, name, str(amt)))
        if not res.ok:
            # a rejected request supplies / borrows / repays / withdraws nothing: positions still follow the ledger and the
            # wallet has moved only by the parts accepted before it (the sequence then goes on)
            mon.cls(f"rejected/{op}/{res.site}")
            mon.hit("rejected-then-continued")
            for k, v in fz.broker.assets.items():
                d = exp_wallet.get(k.name, Fraction(0))
                mon.ev()
                if not wallet_move_ok(wb[k.name], v.balance, d):
                    mon.violation(
                        "aave", label, "wallet-move-on-rejected-request", k.name,
                        f"rejected {label} {name} ({res.exc!r}): wallet {k.name} moved by {v.balance - wb[k.name]} expected {float(d)!r} "
                        f"(case {c}, trace {trace[-3:]})",
                    )
            read_all(f"rejected:{op}")
            continue
        mon.hit(label)
        # a subtraction that leaves a scaled balance under 1e-18 clears the position (helper.sub_base_amount, the quantum
        # behind the statement's 1e-18); mirror exactly that in the ledger: only for balances this operation lowered
        for book, before in ((led.sup, sup_before), (led.bor, bor_before)):
            for k in list(book):
                if k in before and book[k] < before[k] and book[k] < CLAMP:
                    book.pop(k)
        led.ops[name] = led.ops.get(name, 0) + 1
        led.last[name] = label
        # wallet moved by exactly the stated amounts; nothing else moved
        for k, v in fz.broker.assets.items():
            d = exp_wallet.get(k.name, Fraction(0))
            mon.ev()
            if not wallet_move_ok(wb[k.name], v.balance, d):
                mon.violation(
                    "aave", label, "wallet-move", k.name,
                    f"{label} {name}: wallet {k.name} moved by {v.balance - wb[k.name]} expected {float(d)!r} (case {c}, trace {trace[-3:]})",
                )
        # action record
        new = fz.actions[n_act:]
        mon.ev()
        if zero_op:
            pass  # an accepted zero request has nothing to record
        elif not new:
            mon.violation("aave", label, "no-action-record", "", f"{label} {name}: accepted but no action recorded")
        else:
            rec = sum((F(getattr(x, "amount", 0)) for x in new), Fraction(0))
            moved = paid if label.startswith("repay_coll") else abs(exp_wallet.get(name, Fraction(0)))
            if abs(rec - moved) > TOL:
                mon.violation(
                    "aave", label, "action-amount", "",
                    f"{label} {name}: action records sum to {float(rec)!r}, moved {float(moved)!r}",
                )
            tokens_rec = {getattr(x, "token", None) for x in new}
            if tokens_rec != {name}:
                mon.violation("aave", label, "action-token", "", f"{label} {name}: records name {tokens_rec}")
        read_all(label)
    mon.sample({"index_kind": index_kind, "tokens": [t[0] for t in toks], "trace": trace[:12]}, cls=index_kind)


def floors(merged, tier):
    out = []
    for need in ("supply", "withdraw", "borrow", "repay", "repay_all", "withdraw_all", "repay_half_twice", "withdraw_part3"):
        if merged["reach"].get(need, 0) < 3:
            out.append(f"operation {need} accepted fewer than 3 times")
    return out
