"""C07 — liquidity/amount math: no over-spend, maximal, one-sided out of range, exact.

Reference model (oracles/liqmath.py, Fraction on the protocol's integer sqrt ratios) next to the real
get_liquidity / get_amounts / get_amount0 / get_amount1 / V3CoreLib.new_position / close_position on generated
(decimals, tick pair, sqrt price, offers), plus add -> inspect -> remove round trips on a live UniLpMarket held at
one bar (a spy on V3CoreLib.new_position / close_position records the sqrt price the market really used)."""
import math
from decimal import Decimal
from fractions import Fraction

from ..oracles import liqmath as O

ID = "C07"
META = {
    "level": "exploration",
    "rule": "pure case = (decimals pair, tick pair, sqrt price, offered amounts) -> mint check (used <= offered, "
    "L <= real maximum, real maximum - L <= 1 + offered0/span, one-sidedness, closed form 1e-30), new/close round "
    "trip, a sorted price ladder over the same range (non-negative, monotone, one-sided, closed form at every rung) "
    "and liquidity multiples (proportionality); live case = add_liquidity_by_tick / add_liquidity then "
    "remove_liquidity (full, uncollected, in two parts, merged position) on a UniLpMarket at one bar, same clauses on "
    "the returned values and wallet deltas. Every clause comparison is one evaluation. Non-trivial = minted "
    "liquidity > 0; distinct by (pure|live op, range kind, price class relative to the range, decimals pair, "
    "binding side, offer mode, liquidity magnitude bucket).",
    "assumptions": [
        "sqrt ratios of ticks are the protocol's integers (TickMath.getSqrtRatioAtTick written from the Solidity "
        "source, self-checked against the 90-digit real value); their accuracy is C06's subject",
        "an offer is counted in whole atomic units (a fraction of a wei cannot be offered): real maximum and slack "
        "use floor(offer * 10^decimals)",
        "'used <= offered' carries the statement's 1e-30 relative arithmetic tolerance (Decimal prec-35 double "
        "rounding overshoots by <= 3e-35 relative next to MAX tick)",
        "monotonicity and proportionality are asserted up to 2e-30 relative (two values each within 1e-30 of the "
        "closed form)",
        "slack span above the range (token0 plays no role there) is the whole range's span (most lenient reading)",
        "empty ranges (tickA == tickB) are not generated (division by zero span; not a position)",
        "wallet deltas are exact up to the Decimal context precision (1e-33 relative to the balance); a balance that "
        "lands within 1e-5 relative of zero may be snapped to zero (Asset.sub's documented dust rule)",
        "on the live market the sqrt price derived from the bar's price must be within one tick of the exact root "
        "(finer accuracy of the helper is C06's subject); with tick=t it must be the tick's integer ratio",
        "offers are Decimals in [0, 1e12] tokens; negative offers and float offers are not generated",
        "the exact MIN/MAX tick (+-887272) as a range end is given to the math functions (get_liquidity, get_amounts, "
        "V3CoreLib), which know no spacing; through UniLpMarket only multiples of the pool's tick spacing are "
        "generated, so 'touching MIN/MAX' is the pool's lowest/highest usable tick (the exact +-887272 for the 0.01% "
        "tier, whose spacing here is 2): as in the protocol, a position end that is not a multiple of the spacing is "
        "rejected by _add_liquidity_by_tick or moved by trim_tick, and neither is this property's subject",
    ],
}
NSHARDS = 16
TOL = Fraction(1, 10**30)
TOL2 = 2 * TOL
DEC = (6, 8, 18)
SPACINGS = (1, 10, 60, 200)
MAX_TOKENS = Decimal(10) ** 12
LN_MIN = math.log(O.MIN_SQRT_RATIO)
LN_MAX = math.log(O.MAX_SQRT_RATIO)


def plan(tier, seed):
    if tier == "quick":
        pure, live = 7500, 200
    else:
        pure, live = 110000, 2500
    return [{"shard": i, "pure": pure, "live": live} for i in range(NSHARDS)]


def F(x):
    return x if isinstance(x, Fraction) else Fraction(x)


# ------------------------------------------------------------------------------------------------ generators
def gen_range(rng, sp=None, center=None, exact_ends=True):
    """(tickA, tickB, kind) with tickA < tickB, both multiples of the spacing (or, with exact_ends, the exact MIN/MAX
    tick: the pure math functions know no spacing; a pool of spacing sp only has positions on multiples of sp, so for
    it "touching MIN/MAX" means its lowest/highest usable tick)."""
    sp = sp or rng.choice(SPACINGS)
    lo_m = -(-O.MIN_TICK // sp) * sp
    hi_m = (O.MAX_TICK // sp) * sp
    k = rng.random()
    if k < 0.07:
        if sp == 1 or rng.random() < 0.5 or not exact_ends:
            return lo_m, hi_m, "full"
        return O.MIN_TICK, O.MAX_TICK, "full"
    widths = {"one": 1, "narrow": rng.randint(2, 20), "medium": rng.randint(21, 2000), "wide": rng.randint(2001, 2001 + 400000 // sp)}
    wk = rng.choice(["one", "one", "narrow", "narrow", "medium", "medium", "wide"])
    width = widths[wk] * sp
    if k < 0.17:
        ta = lo_m if (sp == 1 or rng.random() < 0.6 or not exact_ends) else O.MIN_TICK
        tb = min(hi_m, lo_m + width)
        return ta, tb, "touch-min"
    if k < 0.27:
        tb = hi_m if (sp == 1 or rng.random() < 0.6 or not exact_ends) else O.MAX_TICK
        ta = max(lo_m, hi_m - width)
        return ta, tb, "touch-max"
    if center is None:
        c = rng.random()
        if c < 0.35:
            center = rng.randint(O.MIN_TICK, O.MAX_TICK)
        elif c < 0.75:
            center = rng.randint(-330000, 330000)
        elif c < 0.85:
            center = rng.randint(-3 * sp, 3 * sp)
        else:
            center = rng.choice([O.MIN_TICK, O.MAX_TICK]) + rng.randint(-20000, 20000)
    ta = (center - width // 2) // sp * sp
    ta = max(lo_m, min(hi_m - width, ta))
    return ta, ta + width, wk


def range_loc(ta, tb):
    if ta < 0 < tb:
        return "x0"
    if tb <= 0:
        return "neg-far" if tb < -300000 else "neg"
    return "pos-far" if ta > 300000 else "pos"


PRICE_KINDS = (
    "min-ratio", "far-below", "near-below", "a-1", "on-a", "a+1", "in-low", "in-mid", "in-mid", "in-high", "in-tick",
    "b-1", "on-b", "b+1", "near-above", "far-above", "max-ratio-1", "max-ratio",
)


def gen_price(rng, kind, sa, sb, ta, tb):
    span = sb - sa
    if kind == "min-ratio":
        s = O.MIN_SQRT_RATIO
    elif kind == "max-ratio":
        s = O.MAX_SQRT_RATIO
    elif kind == "max-ratio-1":
        s = O.MAX_SQRT_RATIO - 1
    elif kind == "far-below":
        s = int(math.exp(rng.uniform(LN_MIN, math.log(sa))))
        s = min(s, sa - 2)
    elif kind == "far-above":
        s = int(math.exp(rng.uniform(math.log(sb), LN_MAX)))
        s = max(s, sb + 2)
    elif kind == "near-below":
        s = sa - rng.randint(2, span // 10 + 3)
    elif kind == "near-above":
        s = sb + rng.randint(2, span // 10 + 3)
    elif kind == "a-1":
        s = sa - 1
    elif kind == "on-a":
        s = sa
    elif kind == "a+1":
        s = sa + 1
    elif kind == "b-1":
        s = sb - 1
    elif kind == "on-b":
        s = sb
    elif kind == "b+1":
        s = sb + 1
    elif kind == "in-low":
        s = sa + rng.randint(2, span // 1000 + 3)
    elif kind == "in-high":
        s = sb - rng.randint(2, span // 1000 + 3)
    elif kind == "in-tick" and tb - ta > 1:
        s = O.sqrt_ratio_at_tick(rng.randint(ta + 1, tb - 1))
    else:
        s = sa + rng.randint(1, span - 1)
    return max(O.MIN_SQRT_RATIO, min(O.MAX_SQRT_RATIO, s))


def price_class(s, sa, sb):
    """Class of a sqrt price relative to [sa, sb], from the actual integers."""
    span = sb - sa
    end = "@min" if s == O.MIN_SQRT_RATIO else ("@max" if s >= O.MAX_SQRT_RATIO - 1 else "")
    if s < sa:
        c = "a-1" if sa - s == 1 else ("near-below" if sa - s <= span else "far-below")
    elif s == sa:
        c = "on-a"
    elif s < sb:
        if s - sa == 1:
            c = "a+1"
        elif sb - s == 1:
            c = "b-1"
        elif (s - sa) * 100 < span:
            c = "in-low"
        elif (sb - s) * 100 < span:
            c = "in-high"
        else:
            c = "in-mid"
    elif s == sb:
        c = "on-b"
    else:
        c = "b+1" if s - sb == 1 else ("near-above" if s - sb <= span else "far-above")
    return c + end


AMOUNT_CLASSES = ("0", "1wei", "dust", "small", "typ", "typ", "big", "max", "subwei", "subwei")


def gen_amount(rng, d, cls):
    if cls == "0":
        return Decimal(0)
    if cls == "max":
        return MAX_TOKENS
    if cls == "1wei":
        wei = 1
    elif cls == "dust":
        wei = rng.randint(2, 10000)
    elif cls == "small":
        wei = int(10 ** (rng.uniform(-6, 0) + d))
    elif cls == "big":
        wei = int(10 ** (rng.uniform(6, 12) + d))
    else:
        wei = int(10 ** (rng.uniform(0, 6) + d))
    wei = max(1, min(wei, 10 ** (12 + d)))
    a = Decimal(wei).scaleb(-d)
    if cls == "subwei":  # a fraction of an atomic unit on top (truncated by the code, never usable)
        a = a + Decimal(rng.randint(1, 999)).scaleb(-d - 3)
    return a


def ceil_frac(x: Fraction) -> int:
    return -((-x.numerator) // x.denominator)


def gen_offers(rng, s, sa, sb, d0, d1):
    """(amount0, amount1, mode).  'bal*' modes place both offers next to the ratio the range needs at this price,
    so that either side can be the binding one."""
    if sa < s < sb and rng.random() < 0.35:
        lt = int(10 ** rng.uniform(0, 34))
        w0, w1 = O.amounts_wei(s, sa, sb, lt)
        cap0, cap1 = 10 ** (12 + d0), 10 ** (12 + d1)
        big = max(w0 / cap0, w1 / cap1)
        if big > 1:
            lt = max(1, int(lt / big) - 1)
            w0, w1 = O.amounts_wei(s, sa, sb, lt)
        mode = rng.choice(["bal-exact", "bal-0short", "bal-1short", "bal-0short", "bal-1short", "bal-x3"])
        i0, i1 = ceil_frac(w0), ceil_frac(w1)
        if mode == "bal-0short":
            i1 = i1 + max(1, i1 // rng.choice([10**3, 10**9, 10**15, 10**24]))
        elif mode == "bal-1short":
            i0 = i0 + max(1, i0 // rng.choice([10**3, 10**9, 10**15, 10**24]))
        elif mode == "bal-x3":
            if rng.random() < 0.5:
                i0 *= 3
            else:
                i1 *= 3
        i0, i1 = min(i0, cap0), min(i1, cap1)
        return Decimal(i0).scaleb(-d0), Decimal(i1).scaleb(-d1), mode
    c0, c1 = rng.choice(AMOUNT_CLASSES), rng.choice(AMOUNT_CLASSES)
    return gen_amount(rng, d0, c0), gen_amount(rng, d1, c1), f"indep/{c0}/{c1}"


def liq_bucket(L):
    if L < 10**6:
        return "L<1e6"
    if L < 10**20:
        return "L<1e20"
    if L < 2**128:
        return "L<2^128"
    return "L>=2^128"


# ------------------------------------------------------------------------------------------------ clause monitors
def check_amounts(mon, op, s, sa, sb, L, d0, d1, g0, g1, ctx):
    """non-negative, one-sided, closed form of the amounts reported for liquidity L at sqrt price s."""
    w0, w1 = O.amounts(s, sa, sb, L, d0, d1)
    reg = O.region(s, sa, sb)
    for tok, g, w in (("token0", g0, w0), ("token1", g1, w1)):
        g = F(g)
        mon.ev(3)
        if g < 0:
            mon.violation("uniswap", op, "negative-amount", f"{tok}/{reg}", f"{tok} amount {float(g)!r} < 0; {ctx()}")
        if w == 0 and g != 0:
            mon.violation(
                "uniswap", op, "one-sided", f"{tok}-nonzero/{reg}",
                f"price is {reg} the range, {tok} must be 0 but is {float(g)!r}; {ctx()}",
            )
        elif w > 0 and g == 0:
            mon.violation(
                "uniswap", op, "one-sided", f"{tok}-zero/{reg}",
                f"price is {reg} the range with liquidity {L}, {tok} must be > 0 (closed form {float(w)!r}) but is 0; {ctx()}",
            )
        r = O.rel_err(g, w)
        if r > TOL:
            mon.violation(
                "uniswap", op, "closed-form", f"{tok}/{reg}",
                f"{tok}: got {float(g)!r}, closed form {float(w)!r}, rel {float(r):.3e}; {ctx()}",
            )
    return w0, w1


def check_mint(mon, op, s, sa, sb, a0, a1, d0, d1, L, u0, u1, ctx):
    """no over-spend, L <= real maximum, maximal up to the stated slack, then the amount clauses for (u0, u1)."""
    reg = O.region(s, sa, sb)
    mon.ev()
    if isinstance(L, bool) or not isinstance(L, int) or L < 0:
        mon.violation("uniswap", op, "liquidity-not-a-nonnegative-int", reg, f"liquidity {L!r}; {ctx()}")
        return None
    a0w, a1w = O.to_wei_floor(a0, d0), O.to_wei_floor(a1, d1)
    for tok, u, a in (("token0", u0, a0), ("token1", u1, a1)):
        mon.ev()
        if F(u) > F(a) * (1 + TOL):
            mon.violation(
                "uniswap", op, "over-spend", f"{tok}/{reg}",
                f"{tok}: used {u} > offered {a} (excess {float(F(u) - F(a)):.3e}); {ctx()}",
            )
    lstar, side = O.max_liquidity(s, sa, sb, a0w, a1w)
    mon.ev(2)
    if L > lstar:
        mon.violation(
            "uniswap", op, "exceeds-real-maximum", f"side{side}/{reg}",
            f"liquidity {L} > real-valued maximum {float(lstar)!r} that fits the offers (excess {float(L - lstar):.3e}); {ctx()}",
        )
    sl = O.slack(s, sa, sb, a0w)
    if lstar - L > sl:
        mon.violation(
            "uniswap", op, "not-maximal", f"side{side}/{reg}",
            f"liquidity {L} is {float(lstar - L):.6e} below the real-valued maximum {float(lstar)!r}; allowed slack {float(sl):.6e}; {ctx()}",
        )
    check_amounts(mon, op, s, sa, sb, L, d0, d1, u0, u1, ctx)
    return side


def wallet_move_ok(before: Decimal, after: Decimal, delta: Fraction):
    if abs(F(after) - F(before) - delta) <= max(abs(F(before)), abs(F(after)), 1) * Fraction(1, 10**33):
        return True
    if delta < 0 and after == 0 and before != 0 and abs((F(before) + delta) / F(before)) < Fraction(1, 10**5):
        return True
    return False


# ------------------------------------------------------------------------------------------------ spy
class Spy:
    def __init__(self):
        self.new = []
        self.close = []

    def clear(self):
        self.new.clear()
        self.close.clear()


_spy = None


def install_spy():
    """Wrap V3CoreLib.new_position / close_position (class attributes, so market.py sees the wrappers)."""
    global _spy
    if _spy is not None:
        return _spy
    from demeter.uniswap.core import V3CoreLib

    _spy = Spy()
    orig_new, orig_close = V3CoreLib.new_position, V3CoreLib.close_position

    def new_position(pool, token0_amount, token1_amount, lower_tick, upper_tick, sqrt_price_x96):
        r = orig_new(pool, token0_amount, token1_amount, lower_tick, upper_tick, sqrt_price_x96)
        _spy.new.append(((token0_amount, token1_amount, lower_tick, upper_tick, sqrt_price_x96), r))
        return r

    def close_position(pool, position_info, liquidity, sqrt_price_x96):
        r = orig_close(pool, position_info, liquidity, sqrt_price_x96)
        _spy.close.append(((position_info, liquidity, sqrt_price_x96), r))
        return r

    V3CoreLib.new_position = staticmethod(new_position)
    V3CoreLib.close_position = staticmethod(close_position)
    _spy.orig_new, _spy.orig_close = orig_new, orig_close
    return _spy


# ------------------------------------------------------------------------------------------------ run
_pools = {}


def pool_for(d0, d1):
    if (d0, d1) not in _pools:
        from demeter import TokenInfo
        from demeter.uniswap import UniV3Pool

        t0, t1 = TokenInfo("TKA", d0), TokenInfo("TKB", d1)
        _pools[(d0, d1)] = UniV3Pool(t0, t1, 0.05, t0)
    return _pools[(d0, d1)]


_spacings = {}


def spacing_of(fee):
    """tick spacing the real pool class assigns to a fee tier."""
    if fee not in _spacings:
        from demeter import TokenInfo
        from demeter.uniswap import UniV3Pool

        t0 = TokenInfo("TKA", 18)
        _spacings[fee] = int(UniV3Pool(t0, TokenInfo("TKB", 18), fee, t0).tick_spacing)
    return _spacings[fee]


def run(spec, mon):
    O.selfcheck()
    install_spy()
    tier = spec["tier"]
    for c in range(spec["pure"]):
        cid = ["p", c]
        if not mon.want(cid):
            continue
        rng = mon.case_rng(f"p{c}")
        try:
            pure_case(mon, rng, c, tier)
        except Exception as e:  # harness trouble must not look like a pass
            import traceback

            mon.violation("uniswap", "pure-case", "unexpected-exception", type(e).__name__, traceback.format_exc()[-1500:])
    for c in range(spec["live"]):
        cid = ["l", c]
        if not mon.want(cid):
            continue
        rng = mon.case_rng(f"l{c}")
        try:
            live_case(mon, rng, c, tier)
        except Exception as e:
            import traceback
            from .. import drive as Dr

            mon.violation("uniswap", "live-case", "unexpected-exception", Dr.reject_site(e), traceback.format_exc()[-1500:])


def _call(mon, op, reg, ctx, fn, *args):
    try:
        return True, fn(*args)
    except Exception as e:  # noqa
        mon.violation("uniswap", op, "raises", f"{type(e).__name__}/{reg}", f"{e!r}; {ctx()}")
        return False, None


def pure_case(mon, rng, c, tier):
    from demeter.uniswap import liquitidy_math as LM
    from demeter.uniswap.core import V3CoreLib

    d0, d1 = rng.choice(DEC), rng.choice(DEC)
    ta, tb, rkind = gen_range(rng)
    sa, sb = O.sqrt_ratio_at_tick(ta), O.sqrt_ratio_at_tick(tb)
    s = gen_price(rng, rng.choice(PRICE_KINDS), sa, sb, ta, tb)
    a0, a1, mode = gen_offers(rng, s, sa, sb, d0, d1)
    reverse = rng.random() < 0.06  # the functions accept the two ticks in either order
    tA, tB = (tb, ta) if reverse else (ta, tb)
    pc = price_class(s, sa, sb)
    reg = O.region(s, sa, sb)
    info = {"decimals": [d0, d1], "ticks": [tA, tB], "sqrt_price_x96": s, "amount0": a0, "amount1": a1}

    def ctx():
        return f"dec=({d0},{d1}) ticks=({tA},{tB}) sqrtA={sa} sqrtB={sb} sqrt={s} [{pc}] offers=({a0},{a1})"

    if rkind == "full" or ta <= O.MIN_TICK + 200 or tb >= O.MAX_TICK - 200:
        mon.cls("range-touches-" + ("both" if rkind == "full" else ("min" if ta <= O.MIN_TICK + 200 else "max")))
    # ---- mint through the functions
    ok, L = _call(mon, "get_liquidity", reg, ctx, LM.get_liquidity, s, tA, tB, a0, a1, d0, d1)
    mon.hit("get_liquidity")
    if not ok:
        return
    ok, used = _call(mon, "get_amounts", reg, ctx, LM.get_amounts, s, tA, tB, L, d0, d1)
    mon.hit("get_amounts")
    if not ok:
        return
    u0, u1 = used
    side = check_mint(mon, "get_liquidity", s, sa, sb, a0, a1, d0, d1, L, u0, u1, ctx)
    if side is None:
        return
    mode_key = mode.split("/")[0] if mode.startswith("indep") else mode
    mon.cls(f"pure/{reg}/side{side}/{mode_key}" + ("/L=0" if L == 0 else ""))
    mon.cls(f"price/{pc}")
    if reverse:
        mon.cls("ticks-given-in-reverse-order")
    if "subwei" in mode:
        mon.cls("offer-with-sub-wei-fraction")
    if L > 0:
        mon.nt(f"p/{rkind}/{pc}/{d0}-{d1}/s{side}/{mode_key}/{liq_bucket(L)}")
        mon.sample(dict(info, liquidity=L, used0=u0, used1=u1, price_class=pc, mode=mode), cls=f"p/{reg}/{mode_key}")
    # ---- V3CoreLib.new_position / close_position: same clauses on its return values, exact round trip
    pool = pool_for(d0, d1)
    ok, r = _call(mon, "new_position", reg, ctx, _spy.orig_new, pool, a0, a1, tA, tB, s)
    mon.hit("new_position")
    if ok:
        n0, n1, nL, pinfo = r
        if (nL, n0, n1) != (L, u0, u1):  # different numbers: judge them on their own
            check_mint(mon, "new_position", s, sa, sb, a0, a1, d0, d1, nL, n0, n1, ctx)
        else:
            mon.ev()
        ok, r2 = _call(mon, "close_position", reg, ctx, _spy.orig_close, pool, pinfo, nL, s)
        mon.hit("close_position")
        if ok:
            for tok, dep, got in (("token0", n0, r2[0]), ("token1", n1, r2[1])):
                mon.ev()
                if F(got) != F(dep):
                    mon.violation(
                        "uniswap", "close_position", "round-trip-not-exact", f"{tok}/{reg}",
                        f"{tok}: deposited {dep}, withdrawing liquidity {nL} at the same sqrt price returns {got}; {ctx()}",
                    )
    # ---- ladder of prices over the same range with one liquidity
    Ll = L if (L > 0 and rng.random() < 0.7) else int(10 ** rng.uniform(0, 40)) + rng.randint(0, 9)
    n_in = 3 if tier == "quick" else 4
    rungs = {O.MIN_SQRT_RATIO, sa - 1, sa, sa + 1, sb - 1, sb, sb + 1, O.MAX_SQRT_RATIO, s}
    rungs.add(gen_price(rng, "far-below", sa, sb, ta, tb))
    rungs.add(gen_price(rng, "far-above", sa, sb, ta, tb))
    for _ in range(n_in):
        rungs.add(gen_price(rng, rng.choice(["in-low", "in-mid", "in-high", "in-tick"]), sa, sb, ta, tb))
    rungs = sorted(x for x in rungs if O.MIN_SQRT_RATIO <= x <= O.MAX_SQRT_RATIO)
    prev = None
    for x in rungs:
        xr = O.region(x, sa, sb)

        def lctx(x=x):
            return f"dec=({d0},{d1}) ticks=({tA},{tB}) sqrtA={sa} sqrtB={sb} sqrt={x} [{price_class(x, sa, sb)}] liquidity={Ll}"

        ok, g = _call(mon, "get_amounts", xr, lctx, LM.get_amounts, x, tA, tB, Ll, d0, d1)
        if not ok:
            prev = None
            continue
        check_amounts(mon, "get_amounts", x, sa, sb, Ll, d0, d1, g[0], g[1], lctx)
        mon.cls(f"ladder/{price_class(x, sa, sb)}")
        if prev is not None:
            px, pr, pg = prev
            mon.ev(2)
            if F(g[0]) > F(pg[0]) * (1 + TOL2):
                mon.violation(
                    "uniswap", "get_amounts", "monotone", f"token0-increases/{pr}->{xr}",
                    f"token0 {pg[0]} at sqrt {px} -> {g[0]} at sqrt {x}; {lctx()}",
                )
            if F(g[1]) * (1 + TOL2) < F(pg[1]):
                mon.violation(
                    "uniswap", "get_amounts", "monotone", f"token1-decreases/{pr}->{xr}",
                    f"token1 {pg[1]} at sqrt {px} -> {g[1]} at sqrt {x}; {lctx()}",
                )
        prev = (x, xr, g)
    if Ll > 0:
        mon.nt(f"ladder/{rkind}/{range_loc(ta, tb)}/{d0}-{d1}/{liq_bucket(Ll)}")
    # ---- proportional to liquidity (at the case's price)
    ok, base = _call(mon, "get_amounts", reg, ctx, LM.get_amounts, s, tA, tB, Ll, d0, d1)
    if ok:
        for k in (2, 10**6, rng.randint(3, 10**12)):
            ok, g = _call(mon, "get_amounts", reg, ctx, LM.get_amounts, s, tA, tB, k * Ll, d0, d1)
            if not ok:
                continue
            for tok, b, gk in (("token0", base[0], g[0]), ("token1", base[1], g[1])):
                mon.ev()
                r = O.rel_err(F(gk), k * F(b))
                if r > TOL2:
                    mon.violation(
                        "uniswap", "get_amounts", "proportional", f"{tok}/{reg}",
                        f"{tok}: amount({k}*L)={gk} vs {k}*amount(L)={k}*{b}, rel {float(r):.3e}; L={Ll}; {ctx()}",
                    )
        mon.nt(f"prop/{rkind}/{pc}/{d0}-{d1}")
    # ---- the single-token functions with the ratios in either order
    if rng.random() < 0.3:
        p = O.clamp(s, sa, sb)
        pairs = []
        if p < sb:
            pairs.append(("get_amount0", LM.get_amount0, p, sb, d0, 0))
        if p > sa:
            pairs.append(("get_amount1", LM.get_amount1, sa, p, d1, 1))
        w = O.amounts(s, sa, sb, Ll, d0, d1)
        for name, fn, x, y, d, i in pairs:
            for args in ((x, y), (y, x)):
                ok, g = _call(mon, name, reg, ctx, fn, args[0], args[1], Ll, d)
                if not ok:
                    continue
                mon.ev()
                r = O.rel_err(F(g), w[i])
                if r > TOL:
                    mon.violation(
                        "uniswap", name, "closed-form", "args-in-order" if args == (x, y) else "args-reversed",
                        f"{name}({args[0]},{args[1]},{Ll},{d}) = {g}, closed form {float(w[i])!r}, rel {float(r):.3e}",
                    )
            mon.hit(name)


# ------------------------------------------------------------------------------------------------ live market
def live_case(mon, rng, c, tier):
    from .. import drive as Dr
    from .. import worlds as W
    from demeter.uniswap.helper import get_price_from_data

    d0, d1 = rng.choice(DEC), rng.choice(DEC)
    q0 = rng.random() < 0.5
    fee = rng.choice([0.01, 0.05, 0.3, 1])
    sp = spacing_of(fee)
    ck = rng.random()
    if ck < 0.6:
        center = rng.randint(-330000, 330000)
    elif ck < 0.7:
        center = rng.randint(-3 * sp, 3 * sp)
    elif ck < 0.85:
        center = O.MIN_TICK + rng.randint(300, 30000)
    else:
        center = O.MAX_TICK - rng.randint(300, 30000)
    ta, tb, rkind = gen_range(rng, sp, center, exact_ends=False)
    n = 5
    w = W.UniWorld(
        rng, n=n, d0=d0, d1=d1, token0_is_quote=q0, fee=fee, path="anchors", anchors=[ta, tb], center=center,
        step=sp * rng.choice([1, 2, 5]), tick_dtype=rng.choice(["float", "int"]),
    )
    if w.spacing != sp:
        raise RuntimeError(f"harness: spacing {sp} != world's {w.spacing}")
    m = w.market()
    prices, quote = get_price_from_data(m.data, w.pool)
    wallet0 = {w.t0: MAX_TOKENS, w.t1: MAX_TOKENS}
    fz = Dr.Frozen([m], prices.iloc[0], quote, wallet0, w.index[0])
    lo_m = -(-O.MIN_TICK // sp) * sp
    hi_m = (O.MAX_TICK // sp) * sp
    sib = None
    if rng.random() < 0.35:
        # a sibling pool (other decimals / quote side) in the same process that sees the same Decimal price first
        from ..decoy import UniSibling

        sib = UniSibling(rng, w, m)
        mon.cls(f"sibling/{sib.tag}")

    def bal(t):
        return fz.broker.get_token_balance(t)

    def to_pair(base, quote_):  # (base, quote) -> (token0, token1)
        return (quote_, base) if q0 else (base, quote_)

    for bar in range(n):
        fz.set_bar(w.index[bar], prices.iloc[bar])
        for t in (w.t0, w.t1):
            fz.broker.set_balance(t, MAX_TOKENS)
        for pos in list(m.positions):  # leftovers of a case that went wrong must not leak into the next bar
            del m.positions[pos]
        price = m.market_status.data.price
        cur_tick = int(m.data["closeTick"].iloc[bar - 1]) if bar > 0 else w.center
        # range: the world's anchored one, or a fresh one placed relative to the current tick
        if rng.random() < 0.6:
            lo, up, rk = ta, tb, rkind
        else:
            lo, up, rk = gen_range(rng, sp, cur_tick + rng.choice([0, 0, 1, -1]) * rng.randint(0, 3000) * sp, exact_ends=False)
        sa, sb = O.sqrt_ratio_at_tick(lo), O.sqrt_ratio_at_tick(up)
        variant = rng.choice(["default", "default", "default", "sqrt", "sqrt", "tick", "by-price"])
        if variant == "by-price" and (up - lo < 3 * sp or lo <= lo_m or up >= hi_m):
            variant = "default"
        sqrt_arg, tick_arg = -1, -1
        if variant == "sqrt":
            sqrt_arg = gen_price(rng, rng.choice(PRICE_KINDS), sa, sb, lo, up)
        elif variant == "tick":
            tick_arg = rng.choice([lo, up, lo - 1, up - 1, lo + 1, up + 1, rng.randint(lo, up), cur_tick])
            tick_arg = max(O.MIN_TICK, min(O.MAX_TICK, tick_arg))
            if tick_arg == -1:
                tick_arg = 0
        s_guess = sqrt_arg if variant == "sqrt" else O.sqrt_ratio_at_tick(tick_arg if variant == "tick" else cur_tick)
        a0, a1, mode = gen_offers(rng, s_guess, sa, sb, d0, d1)
        use_none = rng.random() < 0.08  # None = whole balance of that token
        base_amt, quote_amt = (a1, a0) if q0 else (a0, a1)
        if use_none:
            if rng.random() < 0.5:
                base_amt = None
            else:
                quote_amt = None
            a0, a1 = to_pair(MAX_TOKENS if base_amt is None else base_amt, MAX_TOKENS if quote_amt is None else quote_amt)
            mode = "whole-balance"
        removal = rng.choice(["full", "full", "no-collect", "two-parts", "merged"])
        fz.cur_tick = cur_tick
        if sib is not None:
            sib.poke(rng, w.index[bar], None, lo, up)
            mon.hit("sibling-poke")
        _round_trip(
            mon, rng, Dr, w, m, fz, bal, to_pair, variant, removal, lo, up, rk, sp, base_amt, quote_amt, a0, a1, mode,
            sqrt_arg, tick_arg, price, d0, d1, q0, c, bar,
        )


def _round_trip(mon, rng, Dr, w, m, fz, bal, to_pair, variant, removal, lo, up, rk, sp, base_amt, quote_amt, a0, a1,
                mode, sqrt_arg, tick_arg, price, d0, d1, q0, c, bar):
    spy = _spy
    ori = "q0" if q0 else "q1"
    mode_key = mode.split("/")[0] if mode.startswith("indep") else mode

    def add_once(x0, x1, b_amt, q_amt):
        """one add; returns None after a violation that makes the rest meaningless, else a dict."""
        spy.clear()
        for t in (w.t0, w.t1):  # every deposit starts from the full wallet (a whole-balance deposit may have emptied it)
            fz.broker.set_balance(t, MAX_TOKENS)
        wb = (bal(w.t0), bal(w.t1))
        liq_before = {k: v.liquidity for k, v in m.positions.items()}
        if variant == "by-price":
            p_lo, p_up = sorted([m.tick_to_price(lo), m.tick_to_price(up)])
            op = "add_liquidity"
            res = Dr.call_op(m.add_liquidity, p_lo, p_up, q_amt, b_amt)
        else:
            op = "add_liquidity_by_tick"
            # ticks may be handed over in either order; trimming must be a no-op on multiples of the spacing
            t1_, t2_ = (up, lo) if rng.random() < 0.1 else (lo, up)
            res = Dr.call_op(m.add_liquidity_by_tick, t1_, t2_, b_amt, q_amt, sqrt_arg, tick_arg, rng.random() < 0.7)
        mon.hit(op)

        def ctx():
            return (
                f"case l{c} bar {bar} dec=({d0},{d1}) token0_is_quote={q0} fee spacing {sp} ticks=({lo},{up}) variant={variant} "
                f"sqrt_arg={sqrt_arg} tick_arg={tick_arg} pool price={price} offers token0={x0} token1={x1}"
            )

        if not res.ok:
            mon.violation("uniswap", op, "raises", f"{type(res.exc).__name__}@{res.site}", f"{res.exc!r}; {ctx()}")
            return None
        pos, base_used, quote_used, L = res.ret
        u0, u1 = to_pair(base_used, quote_used)
        mon.ev()
        if len(spy.new) != 1:
            mon.violation("uniswap", op, "new_position-not-called-once", "", f"{len(spy.new)} calls; {ctx()}")
            return None
        (sp_a0, sp_a1, sp_lo, sp_up, s), sp_ret = spy.new[0]
        s = int(s)
        plo, pup = int(pos.lower_tick), int(pos.upper_tick)
        if variant != "by-price":
            mon.ev()
            if (plo, pup) != (lo, up):
                mon.violation("uniswap", op, "position-range", "", f"asked ({lo},{up}) got ({plo},{pup}); {ctx()}")
                return None
        psa, psb = O.sqrt_ratio_at_tick(plo), O.sqrt_ratio_at_tick(pup)
        # which sqrt price did the market use?
        mon.ev()
        if variant == "sqrt":
            if s != sqrt_arg:
                mon.violation("uniswap", op, "sqrt-price-used", "explicit-sqrt-ignored", f"used {s}; {ctx()}")
        elif variant == "tick":
            if s != O.sqrt_ratio_at_tick(tick_arg):
                mon.violation("uniswap", op, "sqrt-price-used", "tick-argument", f"used {s}, ratio of tick is {O.sqrt_ratio_at_tick(tick_arg)}; {ctx()}")
        else:
            if not O.sqrt_matches_price(s, Decimal(str(price)), d0, d1, q0):
                mon.violation(
                    "uniswap", op, "sqrt-price-used", f"from-bar-price/{ori}",
                    f"used sqrt {s}, more than one tick away from the root of the bar's price; {ctx()}",
                )
        pc = price_class(s, psa, psb)
        reg = O.region(s, psa, psb)
        if variant in ("default", "by-price"):
            # the bar's price is the price of tick T (that is what the preparation writes): a bound of the range is a tick too, so
            # T decides on which side of each bound the price is; the sqrt price the market derives must say the same
            T = fz.cur_tick
            want = "on-lower" if T == plo else ("on-upper" if T == pup else ("below" if T < plo else ("above" if T > pup else "inside")))
            mon.ev()
            mon.cls(f"live/tick-price-vs-range/{want}")
            if reg != want:
                mon.violation(
                    "uniswap", op, "sqrt-price-used", f"tick-price-on-the-wrong-side-of-a-bound/{want}->{reg}",
                    f"the bar's price is the price of tick {T}, range ({plo},{pup}): expected {want}, the sqrt price used ({s}) is {reg} "
                    f"(ratio(lower) {psa}, ratio(upper) {psb}); {ctx()}",
                )

        def ctx2():
            return ctx() + f" -> position ({plo},{pup}) sqrt used {s} [{pc}] liquidity {L} used token0={u0} token1={u1}"

        side = check_mint(mon, op, s, psa, psb, x0, x1, d0, d1, L, u0, u1, ctx2)
        if side is None:
            return None
        # wallet paid exactly what was reported as used
        wa = (bal(w.t0), bal(w.t1))
        for tok, b, a, u in (("token0", wb[0], wa[0], u0), ("token1", wb[1], wa[1], u1)):
            mon.ev()
            if not wallet_move_ok(b, a, -F(u)):
                mon.violation(
                    "uniswap", op, "wallet-delta", f"{tok}/{reg}",
                    f"{tok}: wallet {b} -> {a}, reported used {u}; {ctx2()}",
                )
        mon.ev()
        held = m.positions[pos].liquidity if pos in m.positions else None
        held_before = liq_before.get(pos, 0)
        if held != held_before + L:
            mon.violation("uniswap", op, "position-liquidity", "", f"position holds {held}, had {held_before}, minted {L}; {ctx2()}")
        mon.cls(f"live/{op}/{variant}/{reg}/side{side}" + ("/L=0" if L == 0 else ""))
        mon.cls(f"live-price/{pc}")
        if plo - sp < O.MIN_TICK or pup + sp > O.MAX_TICK:  # lowest / highest tick a pool of this spacing can use
            mon.cls("live-range-touches-" + ("both" if (plo - sp < O.MIN_TICK and pup + sp > O.MAX_TICK) else ("min" if plo - sp < O.MIN_TICK else "max")))
            if plo == O.MIN_TICK or pup == O.MAX_TICK:
                mon.cls("live-range-on-exact-MIN/MAX-tick")
        if L > 0:
            mon.nt(f"l/{variant}/{rk}/{pc}/{d0}-{d1}/{ori}/s{side}/{mode_key}/{removal}")
            mon.sample(
                {"live": op, "variant": variant, "decimals": [d0, d1], "token0_is_quote": q0, "ticks": [plo, pup], "sqrt_used": s,
                 "offer0": x0, "offer1": x1, "liquidity": L, "used0": u0, "used1": u1, "price_class": pc, "removal": removal},
                cls=f"l/{variant}/{reg}",
            )
        return {"pos": pos, "L": L, "u0": u0, "u1": u1, "s": s, "reg": reg, "pc": pc, "psa": psa, "psb": psb, "ctx": ctx2, "op": op}

    first = add_once(a0, a1, base_amt, quote_amt)
    if first is None:
        return
    pos, s, reg, ctx = first["pos"], first["s"], first["reg"], first["ctx"]
    rm_sqrt = sqrt_arg if variant == "sqrt" else (s if variant == "tick" else -1)  # withdraw at the deposit price
    same_price = variant in ("default", "by-price")

    # the position reports the deposit as its holdings (same bar, default derivation)
    if same_price and removal != "merged" and pos in m.positions:
        ok, held = _call(mon, "get_position_amount", reg, ctx, m.get_position_amount, pos)
        if ok:
            for tok, dep, got in (("token0", first["u0"], held[0]), ("token1", first["u1"], held[1])):
                mon.ev()
                if F(got) != F(dep):
                    mon.violation(
                        "uniswap", "get_position_amount", "holdings-differ-from-deposit", f"{tok}/{reg}",
                        f"{tok}: deposited {dep}, position reports {got} at the same bar; {ctx()}",
                    )

    def remove(liq, collect, label, deposits, exact=True):
        """remove `liq` (None = all); returns (token0, token1) the call reports, or None."""
        spy.clear()
        wb = (bal(w.t0), bal(w.t1))
        res = Dr.call_op(m.remove_liquidity, pos, liq, collect, rm_sqrt)
        mon.hit("remove_liquidity")
        if not res.ok and label == "full-overasked" and type(res.exc).__name__ == "DemeterError":
            mon.cls("live/remove/over-ask-refused")  # refusing is as good as capping: nothing beyond the holding is paid
            return None
        if not res.ok:
            mon.violation("uniswap", "remove_liquidity", "raises", f"{type(res.exc).__name__}@{res.site}", f"{res.exc!r}; {label}; {ctx()}")
            return None
        g0, g1 = to_pair(res.ret[0], res.ret[1])
        mon.ev()
        if len(spy.close) != 1:
            mon.violation("uniswap", "remove_liquidity", "close_position-not-called-once", "", f"{len(spy.close)} calls; {ctx()}")
            return None
        s_rm = int(spy.close[0][0][2])
        if s_rm != s:
            mon.violation(
                "uniswap", "remove_liquidity", "sqrt-price-differs-from-add", variant,
                f"add used sqrt {s}, remove at the same bar used {s_rm}; {label}; {ctx()}",
            )
        wa = (bal(w.t0), bal(w.t1))
        if collect:
            for tok, b, a, g in (("token0", wb[0], wa[0], g0), ("token1", wb[1], wa[1], g1)):
                mon.ev()
                if not wallet_move_ok(b, a, F(g)):
                    mon.violation(
                        "uniswap", "remove_liquidity", "wallet-delta", f"{tok}/{reg}",
                        f"{tok}: wallet {b} -> {a}, reported returned {g}; {label}; {ctx()}",
                    )
        else:
            mon.ev()
            if wa != wb:
                mon.violation("uniswap", "remove_liquidity", "wallet-delta", "moved-without-collect", f"{wb} -> {wa}; {ctx()}")
        if deposits is not None:
            for tok, dep, got in (("token0", deposits[0], g0), ("token1", deposits[1], g1)):
                mon.ev()
                if not exact:
                    # a share of a merged position: only the closed form / proportionality bound applies (the share's
                    # liquidity reaches the formulas as a Decimal, which rounds once more than the deposit did)
                    r = O.rel_err(F(got), F(dep))
                    if r > TOL2:
                        mon.violation(
                            "uniswap", "remove_liquidity", "share-of-merged-position", f"{tok}/{reg}/{label}",
                            f"{tok}: deposited {dep}, taking that liquidity out of the merged position returns {got} (rel {float(r):.3e}); {ctx()}",
                        )
                elif F(got) != F(dep):
                    mon.violation(
                        "uniswap", "remove_liquidity", "round-trip-not-exact", f"{tok}/{reg}/{label}",
                        f"{tok}: deposited {dep}, withdrawing at the deposit price returns {got} "
                        f"(rel {float(O.rel_err(F(got), F(dep))):.3e}); {label}; {ctx()}",
                    )
        mon.cls(f"live/remove/{label}/{reg}")
        return g0, g1

    if removal == "full" or first["L"] == 0:
        k = rng.random()
        if k < 0.25 and first["L"] > 0:
            # more liquidity asked for than the position holds (a figure from estimate_liquidity, or a stale one): the position
            # can pay what it holds, i.e. exactly the deposit, and no more
            remove(first["L"] * rng.choice([1, 2, 10]) + rng.choice([1, 7, first["L"]]), True, "full-overasked", (first["u0"], first["u1"]))
        else:
            remove(None if k < 0.6 else first["L"], True, "full", (first["u0"], first["u1"]))
    elif removal == "no-collect":
        got = remove(None, False, "no-collect", (first["u0"], first["u1"]))
        if got is not None and pos in m.positions:
            wb = (bal(w.t0), bal(w.t1))
            res = Dr.call_op(m.collect_fee, pos)
            mon.hit("collect_fee")
            if not res.ok:
                mon.violation("uniswap", "collect_fee", "raises", f"{type(res.exc).__name__}@{res.site}", f"{res.exc!r}; {ctx()}")
            else:
                c0, c1 = to_pair(res.ret[0], res.ret[1])
                wa = (bal(w.t0), bal(w.t1))
                for tok, dep, gc, b, a in (("token0", first["u0"], c0, wb[0], wa[0]), ("token1", first["u1"], c1, wb[1], wa[1])):
                    mon.ev(2)
                    if F(gc) != F(dep):
                        mon.violation(
                            "uniswap", "collect_fee", "round-trip-not-exact", f"{tok}/{reg}",
                            f"{tok}: deposited {dep}, collected after removal {gc}; {ctx()}",
                        )
                    if not wallet_move_ok(b, a, F(gc)):
                        mon.violation("uniswap", "collect_fee", "wallet-delta", f"{tok}/{reg}", f"{tok}: wallet {b} -> {a}, collected {gc}; {ctx()}")
    elif removal == "two-parts":
        L = first["L"]
        l1 = max(1, min(L - 1, L * rng.randint(1, 99) // 100)) if L > 1 else L
        p1 = remove(l1, True, "part1", None)
        p2 = remove(None, True, "part2", None) if (p1 is not None and L > l1) else None
        if p1 is not None and (p2 is not None or L == l1):
            p2 = p2 or (Decimal(0), Decimal(0))
            for i, tok in ((0, "token0"), (1, "token1")):
                dep = F(first["u0"] if i == 0 else first["u1"])
                mon.ev(2)
                r = O.rel_err(F(p1[i]) + F(p2[i]), dep)
                if r > TOL2:
                    mon.violation(
                        "uniswap", "remove_liquidity", "parts-do-not-add-up", f"{tok}/{reg}",
                        f"{tok}: deposited {float(dep)!r}, parts return {p1[i]} + {p2[i]}, rel {float(r):.3e}; {ctx()}",
                    )
                # each part is the closed form of its own liquidity
                want = O.amounts(s, first["psa"], first["psb"], l1, d0, d1)[i]
                if O.rel_err(F(p1[i]), want) > TOL:
                    mon.violation(
                        "uniswap", "remove_liquidity", "closed-form", f"{tok}/{reg}/partial",
                        f"{tok}: removing {l1} of {L} returned {p1[i]}, closed form {float(want)!r}; {ctx()}",
                    )
    else:  # merged: a second deposit into the same range at the same price, then each taken out again
        b0, b1, _ = gen_offers(rng, s, first["psa"], first["psb"], d0, d1)
        b_base, b_quote = (b1, b0) if q0 else (b0, b1)
        second = add_once(b0, b1, b_base, b_quote)
        if second is None or second["pos"] != pos:
            return
        mon.cls("live/merged-second-add" + ("/L=0" if second["L"] == 0 else ""))
        if second["L"] > 0 and first["L"] > 0:
            got2 = remove(second["L"], True, "merged-second", (second["u0"], second["u1"]), exact=False)
            if got2 is not None and pos in m.positions:
                remove(None, True, "merged-first", (first["u0"], first["u1"]), exact=False)
        elif pos in m.positions:
            remove(None, True, "full", (first["u0"] + second["u0"], first["u1"] + second["u1"]))


# ------------------------------------------------------------------------------------------------ floors
def floors(merged, tier):
    out = []
    r, cl = merged["reach"], merged["classes"]
    for need, n in (("get_liquidity", 2000), ("new_position", 2000), ("close_position", 2000), ("add_liquidity_by_tick", 100),
                    ("remove_liquidity", 100), ("add_liquidity", 5), ("collect_fee", 5)):
        if r.get(need, 0) < n:
            out.append(f"{need} reached {r.get(need, 0)} times (< {n})")

    def tot(prefix):
        return sum(v for k, v in cl.items() if k.startswith(prefix))

    for prefix, n in (
        ("price/on-a", 50), ("price/on-b", 50), ("price/a-1", 30), ("price/a+1", 30), ("price/b-1", 30), ("price/b+1", 30),
        ("price/in-", 500), ("price/far-below", 50), ("price/far-above", 50), ("pure/inside/side0", 100), ("pure/inside/side1", 100),
        ("range-touches-min", 50), ("range-touches-max", 50), ("range-touches-both", 30), ("offer-with-sub-wei-fraction", 100),
        ("live/remove/full", 20), ("live/remove/part2", 5), ("live/remove/merged-second", 5), ("live/remove/no-collect", 5),
        ("live-price/on-", 5), ("live-price/in-", 30), ("live-price/far-", 10), ("live-range-touches-m", 20),
        ("live-range-touches-both", 5), ("live-range-on-exact-MIN/MAX-tick", 5), ("live/merged-second-add", 5),
    ):
        if tot(prefix) < n:
            out.append(f"class {prefix}* observed {tot(prefix)} times (< {n})")
    return out
