"""C01 — reported net value = independent valuation of wallet plus positions, every holding counted once.

Reference model at every observation point.  Two drivers:

 * Actuator path: multi-market accounts (uni+aave+gmx, squeeth + its oSQTH/WETH pool with LP collateral moved in
   and out of a vault, deribit (ETH/BTC quoted) + a minutely uniswap co-market, all six market types + GMX v2,
   gmx+gmx2) run through the real Actuator.run with random operations in initialize / before_bar / trigger / on_bar /
   after_bar.  An instance wrapper around Broker.get_account_status records, at the very moment the bar loop asks for
   the status, the returned AccountStatus and the state projection; afterwards every bar is recomputed by
   vmon/oracles/valuation.py from the projection, the *harness's own copy* of the raw market rows and of the price
   frame, and the ownership ledger replayed from the action records.  account_status_df rows are compared with the
   AccountStatus objects.
 * Direct path: frozen scenes (vmon/scenes.py), Broker.get_account_status after the build, after every bar move and
   after every accepted or rejected operation.

Clauses: asset_value, each market's net value (market quote), the total, the sum formula with the quote conversion,
wallet balances in the status, the status of a bar being computed on the holdings at the end of after_bar, data-frame
rows; exceptions out of the valuation."""
import copy
import traceback
from datetime import timedelta
from decimal import Decimal
from fractions import Fraction

import pandas as pd

from .. import drive as Dr
from .. import opsgen as G
from .. import scenes as S
from .. import worlds as W
from ..oracles import squeeth as OSQ
from ..oracles import valuation as V

ID = "C01"
META = {
    "level": "exploration",
    "rule": "a case = one Actuator run (12-120 bars, 1-min or 5-min; mixes uni+aave+gmx, squeeth+pool with LP lent to a vault, "
    "deribit+uni, all market types, gmx+gmx2, real-data slices of tests/data (polygon pool + aave WETH + squeeth + its pool); "
    "account quote equal to / different from the markets' quotes; price frames equal to or deviating from pool prices; one run in "
    "five with allow_negative_balance=True so that the wallet is overdrawn) or one "
    "frozen scene (15-50 operations, status after each). One evaluation = one comparison of a reported figure (asset value, "
    "wallet balances, one market's net value, total, sum formula, bar-end holdings, a data-frame row) with the independent valuation. "
    "Non-trivial = an observation point with >= 2 non-zero holdings; distinct by (path, market mix, per-market quote "
    "relation, set of non-zero holding kinds, lent/free position pattern, open/closed deribit bar).",
    "assumptions": [
        "tolerance 1e-12 x (sum of |components|) on every figure; the sum formula on reported components 1e-25 relative",
        "aave reports supplies and borrows rounded to 1e-4 each: 1e-4 (market quote) allowed on its net value",
        "deribit rounds the mark to the fee step (ETH 1e-6, BTC 1e-8): half a step per contract allowed",
        "on a bar where the hourly option market is closed options are worth the mark of the latest open bar that was "
        "valued; an option absent from an open bar's book may be worth anything between 0 and its last mark (statement silent)",
        "squeeth: the oSQTH part of LP collateral uses a float TWAP: 1e-9 relative on that part; TWAP = geometric mean "
        "of the ETH price rows in the trailing 7-minute window on the bar grid",
        "gmx v2 holds floats: 1e-9 relative",
        "the bar's pool price of a uniswap market is the `price` field of its data row for that bar (copied by the "
        "harness before the run); wallet tokens are valued at the harness's copy of the price frame row of that bar",
        "ownership of a liquidity position is taken from the action records (deposit into / withdrawal from a vault, "
        "redemption at debt reduction)",
        "Actuator.init_account_status is only checked when the price frame starts at the first bar (it is not a bar)",
        "runs aborted by an exception from update()/operations of another property are evaluated up to the abort",
    ],
}
NSHARDS = 16
F = V.F
REL = Fraction(1, 10**12)
REL_SUM = Fraction(1, 10**25)
T0 = W.T0

# per-shard schedule: (path, mix); cost-balanced
BLOCK = (
    ("act", "uag"), ("dir", None), ("act", "sq"), ("dir", None), ("act", "der"), ("dir", None), ("act", "all"), ("dir", None),
    ("act", "gg"), ("dir", None), ("act", "sq"), ("dir", None), ("act", "der"), ("dir", None), ("act", "real"), ("dir", None),
)


def plan(tier, seed):
    n = 48 if tier == "quick" else 900
    return [{"shard": i, "cases": n} for i in range(NSHARDS)]


def run(spec, mon):
    for c in range(spec["cases"]):
        rng = mon.case_rng(c)
        if not mon.want(c):
            continue
        path, mix = BLOCK[(c + spec.get("shard", 0)) % len(BLOCK)]
        try:
            if path == "act":
                act_case(mon, rng, c, mix)
            else:
                dir_case(mon, rng, c)
        except Exception as e:  # harness trouble must be visible, never silently skipped
            blame = "demeter" if "/demeter/" in "".join(traceback.format_tb(e.__traceback__)[-1:]) else "harness"
            mon.violation(blame, f"{path}:{mix}", "unexpected-exception", Dr.reject_site(e), traceback.format_exc()[-1800:],
                          {"case": c})


# ================================================================================================ raw-data references
def TS(x):
    return pd.Timestamp(x)


class UniRef:
    kind = "uni"

    def __init__(self, m):
        p = m.pool_info
        self.name = m.market_info.name
        self.pool = {"d0": int(p.token0.decimal), "d1": int(p.token1.decimal), "q0": bool(p.is_token0_quote)}
        self.quote = m.quote_token.name
        self.price = {TS(t): Decimal(str(v)) for t, v in zip(m.data.index, m.data["price"])}
        self.lender = None  # name of the squeeth market that may hold its positions


class AaveRef:
    kind = "aave"

    def __init__(self, m, tokens):
        self.name = m.market_info.name
        self.quote = m.quote_token.name
        self.index = {}
        for t in tokens:
            li = m.data[(t.name, "liquidity_index")]
            bi = m.data[(t.name, "variable_borrow_index")]
            self.index[t.name] = {TS(ts): (Decimal(str(a)), Decimal(str(b))) for ts, a, b in zip(m.data.index, li, bi)}


class SqueethRef:
    kind = "squeeth"

    def __init__(self, m, uni_name):
        self.name = m.market_info.name
        self.quote = m.quote_token.name
        self.uni = uni_name
        d = m.data
        self.rows = {TS(t): (Decimal(str(nf)), Decimal(str(w)), Decimal(str(o))) for t, nf, w, o in
                     zip(d.index, d["norm_factor"], d["WETH"], d["OSQTH"])}
        self.order = [TS(t) for t in d.index]
        self._tables = {}

    def twap_eth(self, ts, step_minutes):
        """geometric mean over the rows of the bar grid inside the trailing 7-minute window"""
        tab = self._tables.get(step_minutes)
        if tab is None:
            t0 = self.order[0]
            rows = [(t.to_pydatetime(), self.rows[t][1]) for t in self.order
                    if int((t - t0).total_seconds()) % (60 * step_minutes) == 0]
            tab = self._tables[step_minutes] = OSQ.TwapTable(rows)
        return tab.twap(TS(ts).to_pydatetime())


class DeribitRef:
    kind = "deribit"

    def __init__(self, m):
        self.name = m.market_info.name
        self.quote = m.quote_token.name
        self.step = Fraction(1, 10**6) if m.token.name == "ETH" else Fraction(1, 10**8)
        self.marks = {}
        d = m.data
        for (t, name), mark in zip(d.index, d["mark_price"]):
            self.marks.setdefault(TS(t), {})[str(name)] = F(float(mark))
        self.memory = {}  # instrument -> (lo, hi) mark of the latest open bar that was valued

    @staticmethod
    def on_hour(ts):
        ts = TS(ts)
        return ts == ts.floor("1h")


class GmxRef:
    kind = "gmx"

    def __init__(self, m):
        self.name = m.market_info.name
        self.quote = m.quote_token.name
        d = m.data
        self.rows = {TS(t): (a, b) for t, a, b in zip(d.index, list(d["glp_price"]), list(d["wavax_price"]))}


class Gmx2Ref:
    kind = "gmx2"

    def __init__(self, m):
        self.name = m.market_info.name
        self.quote = m.quote_token.name
        d = m.data
        self.rows = {TS(t): (float(a), float(b)) for t, a, b in zip(d.index, d["poolValue"], d["marketTokensSupply"])}


def make_ref(m, refs_by_name):
    from demeter import MarketTypeEnum as T

    t = m.market_info.type
    if t == T.uniswap_v3:
        return UniRef(m)
    if t == T.aave_v3:
        return AaveRef(m, sorted(m.tokens, key=lambda x: x.name))
    if t == T.squeeth:
        r = SqueethRef(m, m.squeeth_uni_pool.market_info.name)
        return r
    if t == T.deribit_option:
        return DeribitRef(m)
    if t == T.gmx_v1:
        return GmxRef(m)
    if t == T.gmx_v2:
        return Gmx2Ref(m)
    raise ValueError(t)


# ================================================================================================ state projection
def read_state(broker):
    """through public accessors only (see DESIGN section 3)"""
    from demeter import MarketTypeEnum as T

    st = {"wallet": {k.name: Decimal(v.balance) for k, v in broker.assets.items()}, "m": {}}
    for info, m in broker.markets.items():
        t = m.market_info.type
        if t == T.uniswap_v3:
            st["m"][info.name] = [
                {"lower": int(k.lower_tick), "upper": int(k.upper_tick), "liquidity": int(p.liquidity),
                 "pending0": Decimal(p.pending_amount0), "pending1": Decimal(p.pending_amount1), "transferred": bool(p.transferred)}
                for k, p in m.positions.items()
            ]
        elif t == T.aave_v3:
            st["m"][info.name] = {
                "supplies": {k.name: Decimal(m.get_supply(k).base_amount) for k in m.supply_keys},
                "borrows": {k.name: Decimal(m.get_borrow(k).base_amount) for k in m.borrow_keys},
            }
        elif t == T.squeeth:
            st["m"][info.name] = {
                int(v.id): (Decimal(v.collateral_amount), Decimal(v.osqth_short_amount),
                            None if v.uni_nft_id is None else (int(v.uni_nft_id.lower_tick), int(v.uni_nft_id.upper_tick)))
                for v in m.vault.values()
            }
        elif t == T.deribit_option:
            st["m"][info.name] = {"cash": Decimal(m.balance), "positions": {str(k): Decimal(p.amount) for k, p in m.positions.items()}}
        elif t == T.gmx_v1:
            st["m"][info.name] = {"glp": Decimal(m.glp_amount), "reward": Decimal(m.reward)}
        elif t == T.gmx_v2:
            st["m"][info.name] = {"gm": float(m.amount)}
    return st


LP_ACTIONS = {"DepositLpAction": "deposit", "WithdrawLpAction": "withdraw", "ReduceDebtAction": "redeem"}


# ================================================================================================ evaluation context
class Ctx:
    def __init__(self, mon, markets, frame, quote_name, mix, path, step_minutes=1, info=None):
        self.mon = mon
        self.refs = {}
        for m in markets:
            r = make_ref(m, self.refs)
            self.refs[r.name] = r
        for r in self.refs.values():
            if r.kind == "squeeth" and r.uni in self.refs:
                self.refs[r.uni].lender = r.name
        self.ledgers = {r.name: V.Ledger() for r in self.refs.values() if r.kind == "squeeth"}
        self.frame = {TS(t): {c: Decimal(str(frame.at[t, c])) for c in frame.columns} for t in frame.index}
        for row in self.frame.values():
            row.setdefault("USD", Decimal(1))
        self.quote = quote_name
        self.mix = mix
        self.path = path
        self.step = step_minutes
        self.info = info or {}
        self.seen_actions = 0
        self.trace = []
        self.prev_state = None
        self.had_lent = False

    def feed_actions(self, actions, upto=None):
        upto = len(actions) if upto is None else upto
        for a in actions[self.seen_actions:upto]:
            kind = LP_ACTIONS.get(type(a).__name__)
            if kind is not None and a.market.name in self.ledgers:
                self.ledgers[a.market.name].apply(kind, a.vault_id, (a.position.lower_tick, a.position.upper_tick))
        self.seen_actions = max(self.seen_actions, upto)


def holding_kinds(st, ctx):
    kinds = set()
    if any(v != 0 for v in st["wallet"].values()):
        kinds.add("wallet")
    for name, r in ctx.refs.items():
        s = st["m"].get(name)
        if s is None:
            continue
        if r.kind == "uni":
            if any(p["liquidity"] > 0 for p in s):
                kinds.add("liq")
            if any(p["pending0"] != 0 or p["pending1"] != 0 for p in s):
                kinds.add("fee")
        elif r.kind == "aave":
            if any(v != 0 for v in s["supplies"].values()):
                kinds.add("supply")
            if any(v != 0 for v in s["borrows"].values()):
                kinds.add("debt")
        elif r.kind == "squeeth":
            if any(v[0] != 0 for v in s.values()):
                kinds.add("vault-eth")
            if any(v[1] != 0 for v in s.values()):
                kinds.add("short")
            if any(v[2] is not None for v in s.values()):
                kinds.add("vault-lp")
        elif r.kind == "deribit":
            if s["cash"] != 0:
                kinds.add("opt-cash")
            if s["positions"]:
                kinds.add("options")
        elif r.kind == "gmx":
            if s["glp"] != 0:
                kinds.add("glp")
            if s["reward"] != 0:
                kinds.add("reward")
        elif r.kind == "gmx2":
            if s["gm"] != 0:
                kinds.add("gm")
    return kinds


def oracle_markets(ctx, st, ts):
    """{market name: (Val in market quote, diag dict)}"""
    ts = TS(ts)
    prices = ctx.frame[ts]
    out = {}
    for name, r in ctx.refs.items():
        s = st["m"][name]
        diag = {}
        if r.kind == "uni":
            price = r.price[ts]
            led = ctx.ledgers.get(r.lender) if r.lender else None
            own, lent = [], []
            for p in s:
                (lent if (led is not None and led.vault_of((p["lower"], p["upper"])) is not None) else own).append(p)
            val = V.uni_value(r.pool, price, own)
            diag["lent"] = len(lent)
            diag["free"] = len(own)
            if lent:
                diag["alt_all"] = V.uni_value(r.pool, price, own + lent).value
            flagged = [p for p in s if p["transferred"]]
            if len(flagged) != len(lent):
                diag["flag_mismatch"] = (len(flagged), len(lent))
        elif r.kind == "aave":
            idx = {t: r.index[t][ts] for t in set(s["supplies"]) | set(s["borrows"])}
            val = V.aave_value(s["supplies"], s["borrows"], idx, prices)
        elif r.kind == "squeeth":
            nf, weth, osq = r.rows[ts]
            led = ctx.ledgers[name]
            ur = ctx.refs.get(r.uni)
            upos = {(p["lower"], p["upper"]): p for p in st["m"].get(r.uni, [])}
            vaults = {vid: (v[0], v[1]) for vid, v in s.items()}
            lp = {}
            twap = None
            for key, vid in led.lent().items():
                p = upos.get(key)
                if p is None:
                    diag.setdefault("lent_missing", []).append(key)
                    continue
                if vid not in s:
                    diag.setdefault("vault_missing", []).append(vid)
                    continue
                t0, t1 = V.position_holdings(ur.pool, ur.price[ts], p)
                # the squeeth pool is token0 = WETH, token1 = oSQTH
                e, o = (t0, t1) if ur.pool["q0"] else (t1, t0)
                a = lp.get(vid, (Fraction(0), Fraction(0)))
                lp[vid] = (a[0] + e, a[1] + o)
            if lp:
                twap = r.twap_eth(ts, ctx.step)
            val = V.squeeth_value(vaults, lp, nf, twap if twap is not None else Fraction(0), weth, osq)
            diag["lp"] = len(lp)
            if lp:
                diag["alt_nolp"] = V.squeeth_value(vaults, {}, nf, Fraction(0), weth, osq).value
            refd = {v[2] for v in s.values() if v[2] is not None}
            if refd != set(led.lent().keys()):
                diag["reference_mismatch"] = (sorted(refd), sorted(led.lent().keys()))
        elif r.kind == "deribit":
            is_open = r.on_hour(ts)
            book = r.marks.get(ts.floor("1h"), {}) if is_open else None
            if is_open:
                for inst in s["positions"]:
                    if inst in book:
                        r.memory[inst] = (book[inst], book[inst])
                    else:
                        prev = r.memory.get(inst, (Fraction(0), Fraction(0)))
                        r.memory[inst] = (Fraction(0), prev[1])
                        diag["absent"] = diag.get("absent", 0) + 1
            val = V.deribit_value(s["cash"], s["positions"], r.memory, r.step)
            diag["open"] = is_open
        elif r.kind == "gmx":
            gp, wp = r.rows[ts]
            val = V.gmx_value(s["glp"], s["reward"], gp, wp)
        elif r.kind == "gmx2":
            pv, sup = r.rows[ts]
            val = V.gmx2_value(s["gm"], pv, sup)
        out[name] = (val, diag)
    return out


def _plain(d):
    return {k: (float(v) if isinstance(v, Fraction) else v) for k, v in d.items()}


def evaluate(ctx, status, st, ts, op="bar-end", extra=None):
    """compare one AccountStatus with the independent valuation of state `st` at bar `ts`"""
    mon = ctx.mon
    ts = TS(ts)
    prices = ctx.frame[ts]
    where = ctx.path
    data = {"mix": ctx.mix, "path": where, "ts": str(ts), "op": op, "info": ctx.info, "trace": ctx.trace[-10:]}
    if extra:
        data.update(extra)

    # ---- wallet
    wv = V.wallet_value(st["wallet"], prices)
    if any(v < 0 for v in st["wallet"].values()):
        mon.hit("observations-with-overdrawn-wallet")
    obs_asset = F(status.asset_value)
    mon.ev()
    if abs(obs_asset - wv.value) > REL * wv.gross:
        mon.violation("broker", op, "asset-value", "wallet-at-bar-prices",
                      f"asset_value {status.asset_value} != sum balance*price {float(wv.value)!r} at {ts} ({ctx.mix}, {where}); "
                      f"wallet {st['wallet']}, prices { {k: str(prices[k]) for k in st['wallet']} }", data)
    bal = {k.name: v for k, v in status.asset_balances.items()}
    mon.ev()
    if {k: F(v) for k, v in bal.items()} != {k: F(v) for k, v in st["wallet"].items()}:
        mon.violation("broker", op, "asset-balances", "status-vs-wallet", f"asset_balances {bal} != wallet {st['wallet']}", data)

    # ---- markets
    om = oracle_markets(ctx, st, ts)
    total = wv.value
    total_lo = total_hi = wv.value
    gross = wv.gross
    slack = Fraction(0)
    formula = obs_asset
    formula_gross = abs(obs_asset)
    qrel = []
    reported = {info.name: ms for info, ms in status.market_status.items()}
    lent_n = free_n = 0
    der_open = None
    for name, (val, diag) in om.items():
        r = ctx.refs[name]
        same = r.quote == ctx.quote
        conv = Fraction(1) if same else F(prices[r.quote])
        qrel.append(f"{r.kind}{'=' if same else '!'}")
        mon.cls(f"quote/{r.kind}/{'equal' if same else 'different'}")
        if not same and conv != 1 and val.gross > 0:
            mon.hit("market-quote-differs-and-price-not-1")
        ms = reported.get(name)
        if ms is None:
            mon.violation(r.kind, op, "market-status-missing", "market_status", f"no market_status entry for {name}", data)
            continue
        obs = F(ms.net_value) if ms.net_value is not None else None
        mon.ev()
        if obs is None:
            mon.violation(r.kind, op, "market-net-value", "none", f"{name}: net_value is None at {ts} ({ctx.mix}, {where})", data)
            continue
        ok, dev, allow = V.close(obs, val, REL)
        if r.kind == "uni":
            lent_n += diag.get("lent", 0)
            free_n += diag.get("free", 0)
        if r.kind == "deribit":
            der_open = diag["open"]
        if not ok:
            site = "valuation"
            if r.kind == "uni" and "alt_all" in diag and abs(obs - diag["alt_all"]) <= REL * max(val.gross, abs(obs)) + REL:
                site = "lent-position-counted-by-pool"
            elif r.kind == "uni" and diag.get("flag_mismatch"):
                site = "ownership-flag"
            elif r.kind == "squeeth" and "alt_nolp" in diag and abs(obs - diag["alt_nolp"]) <= REL * max(val.gross, abs(obs)) + REL:
                site = "lent-position-not-counted-by-vault"
            elif r.kind == "squeeth" and (diag.get("lent_missing") or diag.get("reference_mismatch")):
                site = "vault-reference"
            elif r.kind == "deribit":
                site = "open-bar" if diag["open"] else "closed-bar"
            mon.violation(
                r.kind, op, "market-net-value", site,
                f"{name}: reported net_value {ms.net_value} vs independent valuation [{float(val.lo)!r}, {float(val.hi)!r}] "
                f"(dev {float(dev):.3e} > allowed {float(allow):.3e}) at {ts} ({ctx.mix}, {where}, after {op}); parts "
                f"{ {str(k): float(v) for k, v in list(val.parts.items())[:8]} }; diag {_plain(diag)}; state {st['m'][name]}", data)
        total_lo += val.lo * conv
        total_hi += val.hi * conv
        gross += val.gross * abs(conv)
        slack += val.slack * abs(conv)
        formula += obs * conv
        formula_gross += abs(obs * conv)
        if val.flags:
            mon.cls("deribit/position-without-any-mark", len(val.flags))
    for name in reported:
        if name not in om:
            mon.violation("broker", op, "market-status-extra", "market_status", f"unexpected market_status entry {name}", data)

    # ---- total against the oracle
    obs_nv = F(status.net_value)
    tv = V.Val(total_lo, gross, slack, lo=total_lo, hi=total_hi)
    ok, dev, allow = V.close(obs_nv, tv, REL)
    mon.ev()
    if not ok:
        mon.violation("broker", op, "net-value", "total",
                      f"net_value {status.net_value} vs independent valuation [{float(total_lo)!r}, {float(total_hi)!r}] (dev {float(dev):.3e} "
                      f"> allowed {float(allow):.3e}) at {ts} ({ctx.mix}, {where}, after {op}; account quote {ctx.quote}, markets {qrel})", data)
    # ---- sum formula on the reported components (conversion by the market quote's price)
    mon.ev()
    if abs(obs_nv - formula) > REL_SUM * formula_gross:
        mon.violation("broker", op, "net-value-sum", "asset+sum(market*quote-price)",
                      f"net_value {status.net_value} != asset_value + sum market net value x price[market quote] = {float(formula)!r} "
                      f"at {ts} ({ctx.mix}, {where}; account quote {ctx.quote}, markets {qrel})", data)
    if status.timestamp is not None and TS(status.timestamp) != ts:
        mon.violation("broker", op, "timestamp", "status", f"status.timestamp {status.timestamp} != {ts}", data)

    # ---- bookkeeping for the evidence
    kinds = holding_kinds(st, ctx)
    mon.cls(f"{where}/{ctx.mix}")
    for k in kinds:
        mon.cls(f"holding/{k}")
    lent_pat = f"L{min(lent_n, 3)}F{min(free_n, 3)}"
    if lent_n:
        mon.hit("evaluations-with-lent-position")
        ctx.had_lent = True
        mon.cls(f"lent/{lent_pat}")
    elif ctx.had_lent and free_n:
        mon.hit("evaluations-after-position-returned-or-redeemed")
    if der_open is not None:
        mon.cls(f"deribit/{'open' if der_open else 'closed'}-bar" + ("/with-options" if "options" in kinds else ""))
        if not der_open and "options" in kinds:
            mon.hit("deribit-closed-bar-with-options")
    if len(kinds) >= 2:
        mon.nt(f"{where}/{ctx.mix}/{','.join(qrel)}/{'+'.join(sorted(kinds))}/{lent_pat}/{'' if der_open is None else ('o' if der_open else 'c')}")
        if len(kinds) >= 3 or lent_n:  # one concrete case per (path, mix) and shard
            mon.sample({"path": where, "mix": ctx.mix, "bar": str(ts), "after": op, "account_quote": ctx.quote, "markets": qrel,
                        "holdings": sorted(kinds), "lent_positions": lent_n, "reported_net_value": str(status.net_value),
                        "oracle_net_value": float(total_lo), "reported_asset_value": str(status.asset_value),
                        "per_market": {n: {"reported": str(reported[n].net_value) if n in reported else None, "oracle": float(v.value)}
                                       for n, (v, _d) in om.items()}},
                       cls=f"{where}/{ctx.mix}")
    return om


# ================================================================================================ frames
def dec_frame(index, cols):
    return pd.DataFrame({k: [W.D(x) for x in v] for k, v in cols.items()}, index=pd.DatetimeIndex(index))


def walk_frame(rng, index, levels, kind="walk"):
    return W.price_frame(rng, index, list(levels.keys()), kind, levels=levels)


# ================================================================================================ Actuator path
class ActObs:
    """observer of the ScriptStrategy: random operations of the kits in every phase + a few forced ones"""

    def __init__(self, rng, kits, broker_kit, density, forced, ctx_ref, prices_of):
        self.rng, self.kits, self.bk, self.density, self.forced = rng, kits, broker_kit, density, forced
        self.ctx_ref = ctx_ref
        self.prices_of = prices_of
        self.n_ok = self.n_rej = 0
        self.end_state = {}

    def _run_op(self, strat, phase, op):
        res = Dr.call_op(op.fn)
        ctx = self.ctx_ref[0]
        ctx.trace.append(f"b{strat.bar}/{phase} {op.market}.{op.label}[{op.cls}]{'+' if res.ok else '-'}")
        if res.ok:
            self.n_ok += 1
            ctx.mon.cls(f"act-op-accepted/{op.market}/{op.label}")
            if op.market == "deribit" and op.label in ("deposit", "withdraw") and strat.snap is not None \
                    and not DeribitRef.on_hour(strat.snap.timestamp) and op.cls not in ("zero",):
                ctx.mon.hit("deribit-cash-moved-on-closed-bar")
        else:
            self.n_rej += 1
        return res

    def _phase(self, strat, snap, phase):
        rng = self.rng
        for fn in self.forced.get((strat.bar, phase), ()):
            try:
                op = fn(strat)
            except Exception:
                continue
            if op is not None:
                self._run_op(strat, phase, op)
        if rng.random() < self.density:
            for _ in range(rng.choice([1, 1, 2, 3])):
                try:
                    if self.bk is not None and rng.random() < 0.05:
                        op = self.bk.gen(rng, strat.broker, self.prices_of(strat, snap))
                    else:
                        op = rng.choice(self.kits).gen(rng, strat.broker)
                except Exception as e:  # generator met a state it cannot handle
                    self.ctx_ref[0].mon.cls(f"gen-error/{type(e).__name__}")
                    continue
                self._run_op(strat, phase, op)

    def initialize(self, strat, snap):
        self._phase(strat, snap, "initialize")

    def before_bar(self, strat, snap):
        self._phase(strat, snap, "before_bar")

    def on_bar(self, strat, snap):
        self._phase(strat, snap, "on_bar")

    def after_bar(self, strat, snap):
        self._phase(strat, snap, "after_bar")
        # the holdings at the end of the bar (nothing may move between here and the status of this bar)
        self.end_state[TS(snap.timestamp)] = read_state(strat.broker)

    def trigger(self, strat, snap):
        self._phase(strat, snap, "trigger")


def _tok(name, dec):
    from demeter import TokenInfo

    return TokenInfo(name, dec)


def _usd():
    from demeter._typing import USD

    return USD


def build_uag(rng, with_gmx=True):
    """uniswap USDC/WETH + aave (+ gmx v1); account quote USDC (= pool quote, prices from the pool) or USD with an
    independent frame (USDC != 1, WETH off the pool price)"""
    interval = rng.choice(["1min", "1min", "5min"])
    k = 5 if interval == "5min" else 1
    n = rng.choice([12, 20, 30])
    rows = n * k
    flip = rng.random() < 0.5
    names, d0, d1, q0 = (("USDC", "WETH"), 6, 18, True) if not flip else (("WETH", "USDC"), 18, 6, False)
    uw = W.UniWorld(rng, n=rows, d0=d0, d1=d1, token0_is_quote=q0, fee=rng.choice([0.05, 0.3, 1]), names=names,
                    price=rng.uniform(800, 4000), path=rng.choice(["walk", "calm", "jump"]), tick_dtype=rng.choice(["float", "int"]),
                    liq_exp=rng.uniform(12, 22), vol_scale=10 ** rng.uniform(0, 5))
    um = uw.market("uni")
    equal = rng.random() < 0.5
    others = {"WBTC": rng.uniform(20000, 70000), "DAI": 1.0, "WAVAX": rng.uniform(10, 60), "MIM": 1.0}
    if equal:
        pdf, quote = um.get_price_from_data()
        pdf = pdf.map(W.D)
        extra = walk_frame(rng, uw.index, others)
        frame = pd.concat([pdf, extra], axis=1)
    else:
        frame = walk_frame(rng, uw.index, {"WETH": rng.uniform(800, 4000), "USDC": rng.choice([1.0, 0.9993, 1.002]), **others},
                           rng.choice(["walk", "walk", "crash"]))
        # stable coins drift a little too, so that a missing conversion shows
        quote = _usd()
    aw = W.AaveWorld(rng, n=rows, tokens=(("WETH", 18), ("USDC", 6), ("WBTC", 8), ("DAI", 18)), prices=frame,
                     index_kind=rng.choice(["flat", "slow", "jumpy"]))
    am = aw.market("aave")
    markets = [um, am]
    kits = [G.UniKit(um), G.UniKit(um), G.AaveKit(am, aw), G.AaveKit(am, aw)]
    assets = {uw.t0: None, uw.t1: None}
    for t in aw.tokens:
        assets[t] = None
    if with_gmx:
        gw = W.GmxWorld(rng, n=rows)
        gm = gw.market("gmx")
        markets.append(gm)
        kits.append(G.GmxKit(gm, gw))
        for t in gw.tokens:
            assets[t] = None
    rng.shuffle(markets)
    big = {"USDC": 10**6, "DAI": 10**5, "MIM": 10**4, "WETH": 300, "WBTC": 5, "WAVAX": 2000}
    assets = {t: Decimal(rng.choice([0, 1, big[t.name]])) * Decimal(rng.choice([1, 1, 3])) for t in assets}
    return {"markets": markets, "kits": kits, "frame": frame, "quote": quote, "assets": assets, "interval": interval,
            "index": uw.index, "forced": {}, "info": {"equal_quote": equal, "interval": interval, "uni_flip": flip}}


def build_sq(rng):
    """squeeth + its oSQTH/WETH pool (pool quote WETH != account quote USD); LP deposited into / withdrawn from a vault"""
    interval = rng.choice(["1min", "1min", "1min", "5min"])
    k = 5 if interval == "5min" else 1
    n = rng.choice([16, 24, 40])
    sw_kind = rng.choice(["calm", "calm", "spike", "crash", "wick"])
    thin = ["1.55", "1.7", "2.2"]
    redeem_variant = rng.random() < 0.3  # a thin vault holding LP while ETH rises: the bar loop redeems the position
    if redeem_variant:
        sw_kind, thin = "crash", ["1.52", "1.58"]
    sw = W.SqueethWorld(rng, n=n * k, kind=sw_kind, liq_exp=rng.uniform(19, 23))
    um, sm = sw.markets("uni", "squeeth")
    own = rng.random() < 0.5
    if own:
        frame = sw.prices().map(W.D)
    else:
        e0 = float(sw.data["WETH"].iloc[0])
        frame = walk_frame(rng, sw.index, {"WETH": e0 * rng.uniform(0.97, 1.03), "OSQTH": e0 * float(sw.data["OSQTH"].iloc[0]) * rng.uniform(0.9, 1.1)})
    frame.index.name = None
    weth, osqth = _tok("weth", 18), _tok("osqth", 18)
    assets = {weth: Decimal(rng.choice([60, 500, 5000])), osqth: Decimal(rng.choice([0, 0, 30]))}
    kits = [G.SqueethKit(sm, um), G.SqueethKit(sm, um), G.UniKit(um)]
    forced = {}
    state = {}

    def f_open(strat):
        eth = Decimal(rng.choice([10, 25]))
        osq = sm.collateral_amount_to_osqth(eth, Decimal(rng.choice(thin if sw_kind in ("crash", "spike", "wick") else ["2.2", "3", "5"])))
        return G.Op("squeeth", "open_deposit_mint", "forced", lambda: state.__setitem__("vault", sm.open_deposit_mint(eth, G.q(osq))[0]))

    def f_add(strat):
        from demeter.uniswap.helper import base_unit_price_to_tick

        sp = um.pool_info.tick_spacing
        cur = base_unit_price_to_tick(um.market_status.data.price, 18, 18, True)
        base = (cur // sp) * sp
        lo, hi = base - sp * rng.randint(2, 30), base + sp * rng.randint(2, 30)
        ob = G.bal(strat.broker, osqth)
        wb = G.bal(strat.broker, weth)
        return G.Op("uniswap", "add_liquidity_by_tick", "forced",
                    lambda: state.__setitem__("pos", um.add_liquidity_by_tick(
                        lo, hi, ob * Decimal("0.05" if redeem_variant else "0.5"),
                        Decimal("0.4") if redeem_variant else wb * Decimal("0.05"))[0]))

    def f_dep(strat):
        if "vault" not in state or "pos" not in state:
            return None
        return G.Op("squeeth", "deposit_uni_position", "forced", lambda: sm.deposit_uni_position(state["vault"], state["pos"]))

    def f_wd(strat):
        if "vault" not in state or "pos" not in state:
            return None
        return G.Op("squeeth", "withdraw_uni_position", "forced", lambda: sm.withdraw_uni_position(state["vault"], state["pos"]))

    def f_readd(strat):
        # liquidity added once more to exactly the range of the position that was lent (and maybe returned, or redeemed by a
        # liquidation since): whoever holds that range now, the new liquidity is counted once
        if "pos" not in state:
            return None
        pos = state["pos"]
        ob, wb = G.bal(strat.broker, osqth), G.bal(strat.broker, weth)
        return G.Op("uniswap", "add_liquidity_by_tick", "forced-same-range",
                    lambda: um.add_liquidity_by_tick(pos.lower_tick, pos.upper_tick, ob * Decimal("0.1"), wb * Decimal("0.02")))

    b0 = rng.randint(0, 2)
    forced.setdefault((b0, rng.choice(["before_bar", "on_bar"])), []).append(f_open)
    forced.setdefault((b0 + 1, rng.choice(["before_bar", "on_bar", "after_bar"])), []).append(f_add)
    b2 = b0 + (2 if redeem_variant else rng.randint(2, 6))
    forced.setdefault((b2, rng.choice(["before_bar", "on_bar", "after_bar"])), []).append(f_dep)
    if not redeem_variant and rng.random() < 0.7:
        forced.setdefault((b2 + rng.randint(1, 8), rng.choice(["before_bar", "on_bar", "after_bar"])), []).append(f_wd)
    if rng.random() < 0.7:
        forced.setdefault((min(n - 1, b2 + rng.randint(3, 12)), rng.choice(["before_bar", "on_bar", "after_bar"])), []).append(f_readd)
    return {"markets": [um, sm] if rng.random() < 0.5 else [sm, um], "kits": kits, "frame": frame, "quote": _usd(), "assets": assets,
            "interval": interval, "index": sw.index, "forced": forced,
            "info": {"own_prices": own, "interval": interval, "path": sw_kind, "redeem_variant": redeem_variant}}


def build_der(rng, extra_markets=False):
    """deribit (quoted in ETH / BTC) next to a minutely USDC/WETH pool: most bars are closed bars"""
    hours = 3
    token = rng.choice(["ETH", "ETH", "BTC"])
    missing = ()
    if rng.random() < 0.15:
        missing = (T0 + timedelta(hours=1),)
    n_instr = rng.randint(2, 5)
    # some options expire at the 01:00 bar (bought at 00:00 or in the same bar before update()), so that settlement
    # changes the holdings inside the bar loop
    exps = [T0 + rng.choice([timedelta(hours=1), timedelta(hours=1), timedelta(hours=2), timedelta(hours=26), timedelta(days=3),
                             timedelta(minutes=30)]) for _ in range(n_instr)]
    dw = W.DeribitWorld(rng, hours=hours, n_instr=n_instr, token=token, size_kind=rng.choice(["int", "float", "mixed"]),
                        closed_prob=0.1, missing_hours=missing, expiries=exps)
    dm = dw.market("deribit")
    interval = rng.choice(["1min", "1min", "1min", "5min"])
    k = 5 if interval == "5min" else 1
    off, n = rng.choice([(0, 75), (35, 40), (50, 30), (50, 75), (55, 20)]) if k == 1 else rng.choice([(0, 26), (35, 18), (50, 16)])
    start = T0 + timedelta(minutes=off)
    flip = rng.random() < 0.5
    names, d0, d1, q0 = (("USDC", "WETH"), 6, 18, True) if not flip else (("WETH", "USDC"), 18, 6, False)
    uw = W.UniWorld(rng, n=n * k, d0=d0, d1=d1, token0_is_quote=q0, fee=0.05, names=names, start=start, price=rng.uniform(1500, 4000),
                    path="calm", liq_exp=20, vol_scale=100)
    um = uw.market("uni")
    span = [T0 + timedelta(minutes=i) for i in range(hours * 60)]
    under = dw.minute_prices(span)
    equal_uni = rng.random() < 0.5
    if equal_uni:
        # account quote = pool quote (USDC = 1, WETH = pool price where the pool has rows)
        pool_px = {TS(t): v for t, v in zip(um.data.index, um.data["price"])}
        weth = [W.D(pool_px.get(TS(t), under[i] if token == "ETH" else 2500)) for i, t in enumerate(span)]
        frame = dec_frame(span, {token: under, "WETH": weth, "USDC": [1] * len(span)})
        quote = um.quote_token
    else:
        base = walk_frame(rng, span, {"WETH": float(under[0]) if token == "ETH" else 2500.0, "USDC": rng.choice([1.0, 0.9991])})
        frame = pd.concat([dec_frame(span, {token: under}), base], axis=1)
        quote = _usd()
    assets = {dm.token: Decimal(rng.choice([5, 200, 3000])), uw.t0: Decimal(rng.choice([0, 10**4 if uw.t0.name == "USDC" else 20])),
              uw.t1: Decimal(rng.choice([0, 10**4 if uw.t1.name == "USDC" else 20]))}
    kits = [G.DeribitKit(dm, dw)] * 4 + [G.UniKit(um)]
    forced = {}
    # cash moved on closed bars, trades on the open ones
    for b in range(n):
        ts = start + timedelta(minutes=b * k)
        if ts.minute == 0:
            def f_buy(strat):
                data = dm.market_status.data
                names_ = [x for x in data.index if data.loc[x]["asks"] and data.loc[x]["state"] == "open"]
                if not names_:
                    return None
                nm = rng.choice(names_)
                amt = Decimal(rng.choice([1, 2, 5, 10]))
                return G.Op("deribit", "buy", "forced", lambda: dm.buy(nm, amt))
            for _ in range(rng.randint(1, 3)):
                forced.setdefault((b, rng.choice(["before_bar", "on_bar", "after_bar"])), []).append(f_buy)
        elif rng.random() < 0.25:
            def f_cash(strat):
                if rng.random() < 0.5:
                    a = G.q(G.bal(strat.broker, dm.token) * Decimal(rng.randint(1, 50)) / 100)
                    return G.Op("deribit", "deposit", "forced", lambda: dm.deposit(a))
                a = G.q(dm.balance * Decimal(rng.randint(1, 50)) / 100)
                return G.Op("deribit", "withdraw", "forced", lambda: dm.withdraw(a))
            forced.setdefault((b, rng.choice(["before_bar", "on_bar", "after_bar"])), []).append(f_cash)
    pre = Decimal(rng.choice([0, 1, 2])) * assets[dm.token] / 4
    return {"markets": [um, dm] if rng.random() < 0.6 else [dm, um], "kits": kits, "frame": frame, "quote": quote, "assets": assets,
            "interval": interval, "index": uw.index, "forced": forced, "pre": [lambda: dm.deposit(pre)] if pre > 0 else [],
            "info": {"token": token, "equal_uni_quote": equal_uni, "offset_min": off, "missing_hour": bool(missing), "interval": interval}}


def build_all(rng):
    """all six market types (+ the squeeth pool as a second uniswap market) in one account, USD or USDC account quote"""
    n = rng.choice([20, 30])
    off = rng.choice([45, 50, 55])
    start = T0 + timedelta(minutes=off)
    span = [T0 + timedelta(minutes=i) for i in range(180)]
    uw = W.UniWorld(rng, n=n, d0=6, d1=18, token0_is_quote=True, fee=0.05, names=("USDC", "WETH"), start=start,
                    price=rng.uniform(1500, 4000), path=rng.choice(["walk", "calm"]), liq_exp=rng.uniform(14, 21), vol_scale=1000)
    um = uw.market("uni")
    sw = W.SqueethWorld(rng, n=n, start=start, kind=rng.choice(["calm", "spike"]))
    um2, sm = sw.markets("sqpool", "squeeth")
    token = rng.choice(["ETH", "BTC"])
    dw = W.DeribitWorld(rng, hours=3, n_instr=3, token=token, closed_prob=0.05)
    dm = dw.market("deribit")
    gw = W.GmxWorld(rng, n=n, start=start)
    gm = gw.market("gmx")
    g2 = W.Gmx2World(rng, n=n, start=start)
    m2 = g2.market("gmx2")
    under = dw.minute_prices(span)
    levels = {"WETH": float(sw.data["WETH"].iloc[0]), "USDC": rng.choice([1.0, 0.9995]), "WBTC": 40000.0, "DAI": 1.0, "WAVAX": 30.0,
              "MIM": 1.0, "OSQTH": float(sw.data["WETH"].iloc[0]) * float(sw.data["OSQTH"].iloc[0])}
    frame = pd.concat([dec_frame(span, {token: under}), walk_frame(rng, span, levels)], axis=1)
    aw = W.AaveWorld(rng, n=n, start=start, tokens=(("WETH", 18), ("USDC", 6), ("WBTC", 8), ("DAI", 18)), prices=frame,
                     index_kind=rng.choice(["slow", "jumpy"]))
    am = aw.market("aave")
    quote = rng.choice([_usd(), _tok("USDC", 6)])
    if quote.name in frame.columns:  # a frame denominated in the account quote prices that token at exactly 1
        frame[quote.name] = Decimal(1)
    markets = [um, am, um2, sm, dm, gm, m2]
    first = markets.pop(rng.randrange(4))  # a minutely market first: it is the default market
    rng.shuffle(markets)
    markets.insert(0, first)
    kits = [G.UniKit(um), G.AaveKit(am, aw), G.SqueethKit(sm, um2), G.SqueethKit(sm, um2), G.UniKit(um2), G.DeribitKit(dm, dw),
            G.GmxKit(gm, gw), G.Gmx2Kit(m2, g2)]
    names = {"USDC": 6, "WETH": 18, "WBTC": 8, "DAI": 18, "WAVAX": 18, "MIM": 18, "OSQTH": 18, token: dm.token.decimal}
    big = {"USDC": 10**6, "DAI": 10**5, "MIM": 10**4, "WETH": 500, "WBTC": 5, "WAVAX": 2000, "OSQTH": 20, token: 300}
    assets = {_tok(k, d): Decimal(rng.choice([0, big[k], big[k]])) for k, d in names.items()}
    pre = [lambda: dm.deposit(assets[dm.token] / 2)] if assets[dm.token] > 0 else []
    return {"markets": markets, "kits": kits, "frame": frame, "quote": quote, "assets": assets, "interval": "1min", "index": uw.index,
            "forced": {}, "pre": pre, "info": {"token": token, "quote": quote.name, "offset_min": off}}


def build_gg(rng):
    n = rng.choice([10, 20])
    gw = W.GmxWorld(rng, n=n, consistent_price=rng.random() < 0.5)
    gm = gw.market("gmx")
    g2 = W.Gmx2World(rng, n=n)
    m2 = g2.market("gmx2")
    own = rng.random() < 0.5
    if own:
        frame = gw.prices().map(W.D)
    else:
        frame = walk_frame(rng, gw.index, {"WETH": 2000.0, "WAVAX": 30.0, "WBTC": 40000.0, "USDC": 0.9996, "MIM": 1.0})
    quote = rng.choice([_usd(), _tok("USDC", 6)])
    if quote.name in frame.columns:
        frame[quote.name] = Decimal(1)
    big = {"USDC": 10**6, "MIM": 10**4, "WETH": 500, "WBTC": 5, "WAVAX": 2000}
    assets = {t: Decimal(rng.choice([0, big[t.name], big[t.name]])) for t in gw.tokens}
    return {"markets": [gm, m2] if rng.random() < 0.5 else [m2, gm], "kits": [G.GmxKit(gm, gw), G.Gmx2Kit(m2, g2)], "frame": frame,
            "quote": quote, "assets": assets, "interval": "1min", "index": gw.index, "forced": {},
            "info": {"own_prices": own, "quote": quote.name}}


class _RiskStub:
    """what opsgen.AaveKit needs from a world"""

    def __init__(self, tokens, collateral=True, borrow=True):
        self.tokens = list(tokens)
        self.risk = {t.name: {"collateral": collateral, "borrow": borrow} for t in tokens}


def build_real(rng):
    """slices of /repo/tests/data read by demeter's own loaders: polygon USDC/WETH pool + polygon aave WETH + the
    ethereum oSQTH/WETH pool + the squeeth controller, one day of August 2023"""
    from datetime import date

    from demeter import ChainType, MarketInfo, MarketTypeEnum, TokenInfo
    from demeter.aave import AaveV3Market
    from demeter.squeeth import SqueethMarket
    from demeter.uniswap import UniLpMarket, UniV3Pool

    from .. import env

    day = date(2023, 8, rng.choice([14, 15, 16, 17]))
    n = rng.choice([30, 60, 120])
    a = rng.randrange(0, 1440 - n)
    usdc, weth = TokenInfo("USDC", 6), TokenInfo("WETH", 18, "0x7ceb23fd6bc0add59e62ac25578270cff1b9f619")
    um = UniLpMarket(MarketInfo("uni", MarketTypeEnum.uniswap_v3), UniV3Pool(usdc, weth, 0.05, usdc), data_path=env.TESTDATA)
    um.load_data("polygon", "0x45dda9cb7c25131df268515131f647d726f50608", day, day)
    w2, osq = TokenInfo("weth", 18), TokenInfo("osqth", 18)
    um2 = UniLpMarket(MarketInfo("sqpool", MarketTypeEnum.uniswap_v3), UniV3Pool(w2, osq, 0.3, w2), data_path=env.TESTDATA)
    um2.load_data("ethereum", "0x82c427adfdf2d245ec51d8046b41c4ee87f0d29c", day, day)
    sm = SqueethMarket(MarketInfo("squeeth", MarketTypeEnum.squeeth), um2, data_path=env.TESTDATA)
    sm.load_data(day, day)
    am = AaveV3Market(MarketInfo("aave", MarketTypeEnum.aave_v3), env.REPO + "/tests/aave_risk_parameters/demo.csv", tokens=[weth],
                      data_path=env.TESTDATA)
    am.load_data(ChainType.polygon, [weth], day, day)
    for m in (um, um2, sm, am):
        m.data = m.data.iloc[a:a + n].copy()
    index = [t.to_pydatetime() for t in um.data.index]
    sq_px = sm.get_price_from_data().map(W.D)
    sq_px.index.name = None
    equal = rng.random() < 0.5
    if equal:  # account quote = the polygon pool's quote
        pdf, quote = um.get_price_from_data()
        frame = pd.concat([pdf.map(W.D), sq_px[["OSQTH"]]], axis=1)
    else:
        frame = sq_px.copy()
        frame["USDC"] = W.D(rng.choice(["1", "0.9994", "1.0011"]))
        quote = _usd()
    assets = {usdc: Decimal(rng.choice([0, 10**5, 10**6])), weth: Decimal(rng.choice([40, 400])), osq: Decimal(rng.choice([0, 25]))}
    kits = [G.UniKit(um), G.AaveKit(am, _RiskStub([weth])), G.SqueethKit(sm, um2), G.SqueethKit(sm, um2), G.UniKit(um2)]
    return {"markets": [um, am, um2, sm], "kits": kits, "frame": frame, "quote": quote, "assets": assets, "interval": "1min",
            "index": index, "forced": {}, "info": {"day": str(day), "offset": a, "bars": n, "equal_quote": equal}}


BUILDERS = {"uag": build_uag, "sq": build_sq, "der": build_der, "all": build_all, "gg": build_gg, "real": build_real}


def act_case(mon, rng, c, mix):
    b = BUILDERS[mix](rng)
    markets, frame, quote = b["markets"], b["frame"], b["quote"]
    step = 5 if b["interval"] == "5min" else 1
    ctx = Ctx(mon, markets, frame, quote.name, mix, "actuator", step, dict(b["info"], case=c))
    ctx_ref = [ctx]
    density = rng.choice([0.25, 0.5, 0.8])
    obs = ActObs(rng, b["kits"], G.BrokerKit(list(b["assets"].keys())), density, b["forced"], ctx_ref,
                 lambda strat, snap: act._token_prices.loc[pd.Timestamp(snap.timestamp)] if snap is not None else act._token_prices.iloc[0])

    def triggers(strat):
        from demeter import PeriodTrigger

        return [PeriodTrigger(timedelta(minutes=step * rng.choice([2, 3, 5])), lambda snap: obs.trigger(strat, snap))]

    strat = Dr.make_script_strategy({}, obs, triggers if rng.random() < 0.5 else None)
    overdraft = rng.random() < 0.2  # Actuator(allow_negative_balance=True): the wallet may be overdrawn
    ctx.info["overdraft"] = overdraft
    feed = frame.copy()
    if b["interval"] == "1min" and rng.random() < 0.3:
        # a price feed denser than the bars: half-minute rows with other prices between the bars' own rows (a bar is valued at
        # the row that carries its timestamp, wherever that row sits in the frame)
        extra = feed.copy()
        extra.index = extra.index + pd.Timedelta(seconds=30)
        bump = {c: Decimal(str(round(rng.uniform(0.7, 1.4), 4))) for c in extra.columns}
        for c in extra.columns:
            if c != "USD":
                extra[c] = [v * bump[c] for v in extra[c]]
        feed = pd.concat([feed, extra]).sort_index()
        ctx.info["dense_price_feed"] = True
        mon.hit("runs-with-dense-price-feed")
    act = Dr.build_actuator(markets, feed, quote, b["assets"], strat, b["interval"], allow_negative_balance=overdraft)
    for fn in b.get("pre", ()):
        Dr.call_op(fn)
    records = []
    orig = act.broker.get_account_status

    def wrapped(prices, timestamp=None):
        try:
            status = orig(prices, timestamp)
        except Exception as e:  # noqa
            records.append({"ts": timestamp, "exc": e, "state": None, "n_actions": len(act.actions), "tb": traceback.format_exc()[-1500:]})
            raise
        records.append({"ts": timestamp, "status": status, "state": read_state(act.broker), "n_actions": len(act.actions),
                        "trace": list(ctx.trace[-6:])})
        return status

    act.broker.get_account_status = wrapped
    crashed = None
    try:
        act.run(False)
    except Exception as e:  # noqa
        crashed = e
    mon.hit(f"runs/{mix}")
    if crashed is not None:
        in_valuation = bool(records) and "exc" in records[-1]
        if not in_valuation:
            mon.cls(f"run-aborted/{mix}/{type(crashed).__name__}@{Dr.reject_site(crashed)}")
            mon.hit("runs-aborted-elsewhere")
    # ---- offline: replay the observations in order
    first_ts = TS(b["index"][0])
    frame_starts_at_first_bar = TS(frame.index[0]) == first_ts
    bars = 0
    for k, rec in enumerate(records):
        ts = TS(rec["ts"])
        op = "init-status" if k == 0 else "bar-end"
        if "exc" in rec:
            e = rec["exc"]
            mon.ev()
            mon.violation("broker", op, "raises", f"{type(e).__name__}@{Dr.reject_site(e)}",
                          f"get_account_status raised {e!r} at {ts} ({mix}); trace {ctx.trace[-8:]}\n{rec['tb']}",
                          {"mix": mix, "info": ctx.info})
            continue
        ctx.feed_actions(act.actions, rec["n_actions"])
        if k == 0 and not frame_starts_at_first_bar:
            mon.cls("init-status-not-checked(frame starts before the data)")
            continue
        ctx.trace = rec["trace"]
        if k > 0:
            mon.ev()
            if obs.end_state.get(ts) != rec["state"]:
                mon.violation("actuator", "bar-end", "status-not-of-bar-end-holdings", "after_bar",
                              f"the status of bar {ts} was computed on holdings that differ from those at the end of after_bar ({mix}): "
                              f"{Dr.diff_proj(rec['state'], obs.end_state.get(ts))[:4]}", {"mix": mix, "info": ctx.info})
        evaluate(ctx, rec["status"], rec["state"], ts, op)
        if k > 0:
            bars += 1
    mon.hit("bars", bars)
    for a in act.actions:
        nm = type(a).__name__
        if nm in ("LiquidationAction", "ReduceDebtAction", "DeliverAction", "ExpiredAction"):
            mon.hit(f"bar-loop-event/{a.market.type.name}/{nm}")
    # ---- the list and the data frame
    lst = act.account_status
    if crashed is None:
        grid = [t for t in b["index"] if (t - b["index"][0]).total_seconds() % (60 * step) == 0]
        mon.ev()
        if [TS(s.timestamp) for s in lst] != [TS(t) for t in grid]:
            mon.violation("actuator", "run", "account-status-list", "timestamps",
                          f"account_status has {len(lst)} entries, bars {len(grid)}; first {lst[0].timestamp if lst else None}", {"mix": mix})
        per_bar = [r for r in records[1:] if "status" in r]
        mon.ev()
        if len(per_bar) != len(lst) or any(a["status"] is not s for a, s in zip(per_bar, lst)):
            mon.violation("actuator", "run", "account-status-list", "identity",
                          "account_status entries are not the statuses computed at the bar ends", {"mix": mix})
        check_df(mon, act, lst, mix)
        mon.hit("runs-complete")


def check_df(mon, act, lst, mix):
    """account_status_df rows against their AccountStatus"""
    df = act.account_status_df
    if df is None or len(df.index) != len(lst):
        mon.ev()
        mon.violation("actuator", "run", "df-row", "length", f"account_status_df has {0 if df is None else len(df.index)} rows, statuses {len(lst)}",
                      {"mix": mix})
        return

    def same(a, b):
        if isinstance(a, float) and not isinstance(b, float):
            fa, fb = F(a), F(b)
            return abs(fa - fb) <= Fraction(1, 10**12) * max(abs(fa), abs(fb))
        return F(a) == F(b)

    cols = set(df.columns)
    for i, s in enumerate(lst):
        row = df.iloc[i]
        bad = []
        if TS(df.index[i]) != TS(s.timestamp):
            bad.append(("index", df.index[i], s.timestamp))
        if not same(row[("net_value", "")], s.net_value):
            bad.append(("net_value", row[("net_value", "")], s.net_value))
        for tok, balv in s.asset_balances.items():
            key = ("tokens", tok.name)
            if key not in cols or not same(row[key], balv):
                bad.append((key, row[key] if key in cols else None, balv))
        for info, ms in s.market_status.items():
            key = (info.name, "net_value")
            if key not in cols or not same(row[key], ms.net_value):
                bad.append((key, row[key] if key in cols else None, ms.net_value))
        mon.ev()
        mon.hit("df-rows")
        if bad:
            mon.violation("actuator", "run", "df-row", str(bad[0][0]), f"row {i} of account_status_df disagrees with its AccountStatus: {bad[:3]}",
                          {"mix": mix})


# ================================================================================================ direct path
def requote(sc, rng):
    """give a scene an account quote (USD) different from the pool quote and a price frame off the pool prices"""
    cols = [c for c in sc.price_df.columns if c != "USD"]
    levels = {}
    for cname in cols:
        v = float(sc.price_df[cname].iloc[0])
        levels[cname] = v * rng.uniform(0.95, 1.05) if abs(v - 1) > 1e-9 else rng.choice([0.9992, 1.0007, 0.37, 2.5])
    frame = W.price_frame(rng, sc.index, cols, "walk", levels=levels)
    frame["USD"] = Decimal(1)
    sc.price_df = frame
    sc.fz.broker.quote_token = _usd()
    sc.move(rng, 0)


def dir_case(mon, rng, c):
    mix = rng.choice(S.MIXES)
    sc = S.build(rng, mix, n=rng.choice([6, 12]), consistent=rng.random() < 0.5)
    fz = sc.fz
    re = False
    if mix in ("uni", "uni+aave") and rng.random() < 0.5:
        requote(sc, rng)
        re = True
    overdraft = rng.random() < 0.2  # Broker(allow_negative_balance=True)
    if overdraft:
        fz.broker.allow_negative_balance = True
    ctx = Ctx(mon, fz.markets, sc.price_df, fz.broker.quote_token.name, mix, "direct", 1,
              dict(sc.info, requoted=re, case=c, overdraft=overdraft))
    mon.hit(f"scenes/{mix}")

    def query(op):
        ts = fz.timestamp
        try:
            status = fz.broker.get_account_status(fz.prices, ts)
        except Exception as e:  # noqa
            mon.ev()
            mon.violation("broker", op, "raises", f"{type(e).__name__}@{Dr.reject_site(e)}",
                          f"get_account_status raised {e!r} at {ts} (scene {sc.info}); trace {ctx.trace[-8:]}\n{traceback.format_exc()[-1200:]}",
                          {"scene": sc.info})
            return False
        ctx.feed_actions(fz.actions)
        evaluate(ctx, status, read_state(fz.broker), ts, op)
        mon.hit("direct-queries")
        return True

    if not query("build"):
        return
    steps = rng.randint(15, 50)
    if mix == "squeeth" and rng.random() < 0.6:
        prelude_squeeth(rng, sc, ctx, query)
    for _ in range(steps):
        if rng.random() < 0.15:
            sc.move(rng)
            ctx.trace.append(f"move->{sc.bar}")
            if not query("move"):
                return
        try:
            op = sc.gen(rng)
        except Exception as e:  # generator looked at a state it cannot handle; not an observation
            mon.cls(f"gen-error/{type(e).__name__}")
            continue
        closed = mix == "deribit" and not DeribitRef.on_hour(fz.timestamp)
        res = Dr.call_op(op.fn)
        ctx.trace.append(f"{op.market}.{op.label}[{op.cls}]{'+' if res.ok else '-'}")
        mon.cls(f"dir-op/{op.market}/{op.label}/{'accepted' if res.ok else 'rejected'}")
        if res.ok and closed and op.label in ("deposit", "withdraw") and op.cls != "zero":
            mon.hit("deribit-cash-moved-on-closed-bar")
        if not query(op.label):
            return


def prelude_squeeth(rng, sc, ctx, query):
    """make sure LP collateral is reached: open a vault, provide liquidity, lend the position to the vault"""
    um, sm = sc.fz.markets[0], sc.fz.markets[1]
    broker = sc.fz.broker
    weth, osqth = _tok("weth", 18), _tok("osqth", 18)
    if G.bal(broker, weth) < 30:
        return
    st = {}
    r = Dr.call_op(lambda: sm.open_deposit_mint(Decimal(12), G.q(sm.collateral_amount_to_osqth(Decimal(12), Decimal(3)))))
    ctx.trace.append(f"prelude.open{'+' if r.ok else '-'}")
    if not r.ok or not query("open_deposit_mint"):
        return
    vk = r.ret[0]
    from demeter.uniswap.helper import base_unit_price_to_tick

    sp = um.pool_info.tick_spacing
    cur = base_unit_price_to_tick(um.market_status.data.price, 18, 18, True)
    base = (cur // sp) * sp
    lo, hi = base - sp * rng.randint(2, 30), base + sp * rng.randint(2, 30)
    r = Dr.call_op(lambda: um.add_liquidity_by_tick(lo, hi, G.bal(broker, osqth) / 2, Decimal(3)))
    ctx.trace.append(f"prelude.add{'+' if r.ok else '-'}")
    if not r.ok or not query("add_liquidity_by_tick"):
        return
    pos = r.ret[0]
    r = Dr.call_op(lambda: sm.deposit_uni_position(vk, pos))
    ctx.trace.append(f"prelude.lend{'+' if r.ok else '-'}")
    query("deposit_uni_position")


# ================================================================================================ floors
def floors(merged, tier):
    out = []
    r = merged["reach"]
    k = 1 if tier == "quick" else 10
    need = {
        "bars": 800 * k, "direct-queries": 800 * k, "df-rows": 500 * k, "runs-complete": 20 * k,
        "evaluations-with-lent-position": 300 * k, "evaluations-after-position-returned-or-redeemed": 50 * k,
        "deribit-cash-moved-on-closed-bar": 200 * k, "deribit-closed-bar-with-options": 200 * k,
        "market-quote-differs-and-price-not-1": 1000 * k, "observations-with-overdrawn-wallet": 100 * k,
    }
    for m in BUILDERS:
        need[f"runs/{m}"] = 3 * k
    for name, n in need.items():
        if r.get(name, 0) < n:
            out.append(f"{name} reached {r.get(name, 0)} times, floor {n}")
    cl = merged["classes"]
    for kind in ("uni", "aave", "squeeth", "deribit", "gmx", "gmx2"):
        if cl.get(f"quote/{kind}/equal", 0) + cl.get(f"quote/{kind}/different", 0) < 50 * k:
            out.append(f"market type {kind} valued fewer than {50 * k} times")
    for kind in ("uni", "deribit"):
        for rel in ("equal", "different"):
            if kind == "deribit" and rel == "equal":
                continue
            if cl.get(f"quote/{kind}/{rel}", 0) < 30 * k:
                out.append(f"{kind} market with account quote {rel} valued fewer than {30 * k} times")
    return out
