"""C08 — per-bar LP fee = bar volume x fee rate x in-range fraction of the tick path [previous close, close] x share
of active liquidity.

Reference-model monitor.  Generated pools (fee tier, decimals, orientation, tick dtype, 1 min / 5 min / 1 h bars,
pool liquidity and volumes over many decades, closes landing exactly on range bounds, whole-range jumps,
stationary ticks) are run through the real Actuator with a generated script that opens 1-4 positions and
interleaves unrelated operations (add / remove / collect on the same or other positions, swaps, transfers, a second
pool) in every phase of a bar.  `update()` of every monitored market is bracketed: the pending amounts of every
position are read right before and right after it, and the difference is compared with the exact model
(vmon/oracles/fee.py) fed from the *raw input rows* (never from the market's own fields)."""
import math
import traceback
from datetime import timedelta
from decimal import Decimal
from fractions import Fraction

from .. import drive as Dr
from .. import worlds as W
from ..oracles import fee as O

ID = "C08"
META = {
    "level": "exploration",
    "rule": "a case = one Actuator run over a generated pool (or two pools) with a generated script; every "
    "(bar, position, token) whose pending amount is compared with the model across update() is one evaluation (plus "
    "one per position for 'pending unchanged between two updates' and one per token for the uncollected totals). "
    "Non-trivial = the expected fee is non-zero or the bar's path changes its class relative to the range; distinct by "
    "(class of previous close > class of close relative to the range, stationary / whole-range jump, same-bar "
    "operation class with phases, number of positions, tick dtype, bar interval, pool/own liquidity decade bucket).",
    "assumptions": [
        "the statement gives no tolerance; the pending amounts are prec-35 Decimals accumulated by addition, so "
        "|observed - model| <= 1e-22 * model + 1e-32 * pending_after is allowed (a zero model value must be met exactly)",
        "with several own positions the statement only bounds the share: own/(pool + all own liquidity) <= share <= "
        "own/(pool + own); equality with own/(pool+own) is demanded when no other own position holds liquidity",
        "bar 0 has no previous close: only 0 <= fee <= volume x rate x own/(pool+own) is demanded there",
        "resampled bars: close = last close, volume = sum of the minute volumes, pool liquidity = last minute's value",
        "own liquidity is read from Position.liquidity right before update(); bar data come from the raw generated rows",
        "a position with zero liquidity earns nothing, also in a bar whose pool liquidity is zero (share 0/0 is read as 0; "
        "update() must not raise there)",
        "operations rejected by the market are only classified (C04's subject)",
    ],
}
NSHARDS = 16
DEC = (6, 8, 18)
REL = Fraction(1, 10**22)
ABS = Fraction(1, 10**32)
PRE_PHASES = ("initialize", "before_bar", "trigger", "on_bar")
PH = {"initialize": "i", "before_bar": "b", "trigger": "t", "on_bar": "o", "after_bar": "a"}
WRITES = {"add", "add_price", "add_value", "remove", "remove_keep", "collect", "collect_part", "remove_all"}


def plan(tier, seed):
    n = 200 if tier == "quick" else 1500
    return [{"shard": i, "cases": n} for i in range(NSHARDS)]


def F(x):
    if isinstance(x, Fraction):
        return x
    if isinstance(x, int):
        return Fraction(x)
    return Fraction(str(x))


def run(spec, mon):
    for c in range(spec["cases"]):
        rng = mon.case_rng(c)
        if not mon.want(c):
            continue
        try:
            one_case(mon, rng, c, spec["tier"])
        except Exception as e:  # harness or code crashed in an unexpected place
            mon.violation("uniswap", "run", "unexpected-exception", f"{Dr.reject_site(e)}:{type(e).__name__}",
                          traceback.format_exc()[-1500:], {"case": c})


# ------------------------------------------------------------------------------------------------ generation
def est_liquidity(center, lower, upper, a0, a1):
    """float estimate of the liquidity minted for atomic amounts (only used to place the pool liquidity)."""
    sa, sb, sp = 1.0001 ** (lower / 2), 1.0001 ** (upper / 2), 1.0001 ** (center / 2)
    if sp <= sa:
        return a0 * sa * sb / (sb - sa)
    if sp >= sb:
        return a1 / (sb - sa)
    return min(a0 * sp * sb / (sb - sp), a1 / (sp - sa))


def amount(rng, lo=-2, hi=6):
    return Decimal(f"{10 ** rng.uniform(lo, hi):.6g}")


def gen_pool(rng, names, n_rows, path_kind):
    """Parameters of one pool + its planned ranges; then the world."""
    fee = rng.choice([0.01, 0.05, 0.05, 0.3, 0.3, 1])
    spacing = int(Decimal(str(fee)) * 200)
    d0, d1 = rng.choice(DEC), rng.choice(DEC)
    q0 = rng.random() < 0.5
    center = rng.randint(-250000, 250000)
    if rng.random() < 0.5:
        center = center // spacing * spacing
    zero_centre = rng.random() < 0.12  # pools around tick 0 (stable pairs of equal decimals): closes exactly on tick 0
    if zero_centre:
        center = rng.choice([0, 0, spacing, -spacing, rng.randint(-5 * spacing, 5 * spacing)])
    base = center // spacing * spacing
    ranges = []
    for _ in range(rng.choice([1, 1, 1, 1, 2, 2, 3, 4])):
        wn = rng.choice([1, 1, 2, 5, 10, 40, 200])
        mode = rng.random()
        if mode < 0.2:
            lower = base
        elif mode < 0.4:
            lower = base - wn * spacing
        elif mode < 0.8:
            lower = base - spacing * rng.randint(0, wn)
        else:
            lower = base + spacing * rng.randint(-3 * wn, 3 * wn)
        r = (lower, lower + wn * spacing)
        if r not in ranges:
            ranges.append(r)
    anchors = sorted({b for r in ranges for b in r})
    if zero_centre:
        anchors = sorted(set(anchors) | {0})
        anchors += [0] * len(anchors)  # land on tick 0 about as often as on all bounds together
        path_kind = rng.choice(["anchors", "anchors", path_kind])
    wmin = min(u - l for l, u in ranges)
    step = max(3, rng.choice([wmin // 4, wmin // 2, wmin, spacing * 2, spacing * 5]))
    first_amounts = (amount(rng), amount(rng))  # (base, quote) of the first add
    b_dec, q_dec = (d1, d0) if q0 else (d0, d1)
    a_base, a_quote = float(first_amounts[0]) * 10**b_dec, float(first_amounts[1]) * 10**q_dec
    a0, a1 = (a_quote, a_base) if q0 else (a_base, a_quote)
    l_est = max(1.0, est_liquidity(center, ranges[0][0], ranges[0][1], a0, a1))
    pool_liq = min(1e34, max(1e3, l_est * 10 ** rng.uniform(-2, 6)))
    tick_dtype = "float" if rng.random() < 0.55 else "int"
    vol_scale = 10 ** rng.uniform(-4, 9)
    zero_pool = rng.random() < 0.06
    w = W.UniWorld(
        rng, n=n_rows, d0=d0, d1=d1, token0_is_quote=q0, fee=fee, names=names, path=path_kind, anchors=anchors,
        liq_exp=math.log10(pool_liq), vol_scale=vol_scale, tick_dtype=tick_dtype, step=step, center=center,
    )
    if zero_pool:
        for i in range(n_rows):
            if rng.random() < 0.3:
                w.raw.iloc[i, w.raw.columns.get_loc("currentLiquidity")] = Decimal(0)
    return {
        "w": w, "fee": fee, "spacing": spacing, "dec": (d0, d1), "q0": q0, "center": center, "ranges": ranges,
        "first_amounts": first_amounts, "dtype": tick_dtype, "zero_pool": zero_pool, "path": path_kind,
    }


def gen_pool_real(rng, n_rows, itv):
    """the same parameter dict for a window of the real polygon USDC/WETH (or ethereum WETH/oSQTH) minute history, loaded
    with demeter's own loader; ranges are placed around the window's real tick path."""
    from .. import realworlds as R

    which = rng.choice(["polygon", "polygon", "ethereum"])
    probe = R.RealUniWorld(rng, n=n_rows, which=which, start=0)  # loads (cached per process)
    pool, full = R._load_uni(which, tuple(__import__("datetime").date.fromisoformat(x) for x in probe.info["span"]))
    starts = [i for i, t in enumerate(full.index[: len(full.index) - n_rows + 1]) if (t.minute % itv == 0 if itv < 60 else t.minute == 0)]
    start = rng.choice(starts)
    w = R.RealUniWorld.__new__(R.RealUniWorld)
    win = full.iloc[start:start + n_rows]
    w.which, w.pool, w.t0, w.t1 = which, pool, pool.token0, pool.token1
    w.token0_is_quote, w.spacing = True, pool.tick_spacing
    w.raw = win.drop(columns=[c for c in R.STAT_COLS if c in win.columns]).copy()
    w.index = list(w.raw.index.to_pydatetime())
    w.ticks = [int(x) for x in w.raw["closeTick"]]
    w.center = w.ticks[0]
    w.info = {"real": which, "start": str(w.index[0]), "rows": n_rows}
    spacing = pool.tick_spacing
    lo_t, hi_t = min(w.ticks), max(w.ticks)
    ranges = []
    for _ in range(rng.choice([1, 1, 2, 3])):
        mode = rng.random()
        wn = rng.choice([1, 1, 2, 5, 20])
        if mode < 0.5:  # a bound inside the travelled span, so that real bars cross it
            b = rng.randint(lo_t, hi_t) // spacing * spacing
            lower = b if rng.random() < 0.5 else b - wn * spacing
        else:
            lower = w.center // spacing * spacing - spacing * rng.randint(0, wn)
        r = (lower, lower + wn * spacing)
        if r not in ranges:
            ranges.append(r)
    fee = 0.05 if which == "polygon" else 0.3
    return {
        "w": w, "fee": fee, "spacing": spacing, "dec": (pool.token0.decimal, pool.token1.decimal), "q0": True, "center": w.center,
        "ranges": ranges, "first_amounts": (amount(rng), amount(rng)), "dtype": "real/" + str(w.raw["closeTick"].dtype),
        "zero_pool": False, "path": "real-" + which,
    }


OP_KINDS = (
    ["add"] * 5 + ["remove"] * 3 + ["remove_keep"] * 2 + ["collect"] * 2 + ["collect_part", "buy", "sell", "buy", "sell"]
    + ["transfer_out", "transfer_in", "add_value", "add_price", "remove_all"]
)


def gen_script(rng, mk, nbars, nranges, first_amounts, density):
    """[(bar, phase, desc)] for one market.  Everything random is drawn here."""
    out = []
    phases = ["before_bar", "trigger", "on_bar", "after_bar"]
    # the first position: early, in any phase (initialize included)
    if rng.random() < 0.3:
        out.append((0, "initialize", {"mk": mk, "kind": "add", "ri": 0, "base": first_amounts[0], "quote": first_amounts[1]}))
    else:
        out.append((rng.randint(0, min(2, nbars - 1)), rng.choice(phases),
                    {"mk": mk, "kind": "add", "ri": 0, "base": first_amounts[0], "quote": first_amounts[1]}))
    for ri in range(1, nranges):
        out.append((rng.randint(0, max(0, nbars // 2)), rng.choice(phases + ["initialize"]),
                    {"mk": mk, "kind": "add", "ri": ri, "base": amount(rng), "quote": amount(rng)}))
    for bar in range(nbars):
        if rng.random() >= density:
            continue
        for _ in range(rng.choice([1, 1, 2, 3])):
            kind = rng.choice(OP_KINDS)
            d = {"mk": mk, "kind": kind, "ri": rng.randrange(nranges), "base": amount(rng), "quote": amount(rng),
                 "frac": rng.choice([1, 2, 5, 9]), "amt": amount(rng, -3, 2), "value": amount(rng, -1, 4)}
            out.append((bar, rng.choice(phases), d))
    fixed = []
    for bar, phase, d in out:
        if phase == "initialize":
            bar = 0
        fixed.append((bar, phase, d))
    return fixed


# ------------------------------------------------------------------------------------------------ monitoring
class Op:
    __slots__ = ("phase", "kind", "tgt", "ok", "write")

    def __init__(self, phase, kind, tgt, ok, write):
        self.phase, self.kind, self.tgt, self.ok, self.write = phase, kind, tgt, ok, write


class Watch:
    """One monitored UniLpMarket with the oracle's view of its bars."""

    def __init__(self, mon, name, P, interval_min):
        w = P["w"]
        self.mon = mon
        self.name = name
        self.P = P
        self.w = w
        self.m = w.market(name)
        self.ranges = P["ranges"]
        self.rate = O.rate_of(P["fee"])
        self.interval_min = interval_min
        raw = w.raw
        closes = [O.as_tick(x) for x in raw["closeTick"]]
        v0 = [int(x) for x in raw["inAmount0"]]
        v1 = [int(x) for x in raw["inAmount1"]]
        lq = [int(x) for x in raw["currentLiquidity"]]
        mins = [(t.hour * 60 + t.minute) + 1440 * (t.date() - w.index[0].date()).days for t in w.index]
        self.labels, self.bars = O.resample_bars(closes, v0, v1, lq, mins, interval_min)
        self.ops = {}
        self.touched = set()
        self.post = None
        self.own_bar_start = 0
        self.dead = False
        self.other = None

    def record(self, bar, op):
        self.ops.setdefault(bar, []).append(op)
        self.touched |= set(op.tgt)


def exec_op(watch, d, phase, bar, mon):
    from demeter.uniswap import PositionInfo

    m = watch.m
    lo, up = watch.ranges[d["ri"]]
    key = PositionInfo(lo, up)
    kind = d["kind"]
    tgt = {key}
    have = key in m.positions
    if kind == "add":
        r = Dr.call_op(m.add_liquidity_by_tick, lo, up, d["base"], d["quote"])
    elif kind == "add_price":
        p1, p2 = m.tick_to_price(lo), m.tick_to_price(up)
        r = Dr.call_op(m.add_liquidity, min(p1, p2), max(p1, p2), d["quote"], d["base"])
        if r.ok:
            tgt = {key, r.ret[0]}
    elif kind == "add_value":
        r = Dr.call_op(m.add_liquidity_by_value, lo, up, d["value"])
        if r.ok:
            tgt = {key, r.ret[0]}
    elif kind in ("remove", "remove_keep"):
        if not have:
            return
        liq = None if d["frac"] == 1 else int(m.positions[key].liquidity) // d["frac"]
        r = Dr.call_op(m.remove_liquidity, key, liq, kind == "remove")
    elif kind in ("collect", "collect_part"):
        if not have:
            return
        if kind == "collect":
            r = Dr.call_op(m.collect_fee, key)
        else:
            p = m.positions[key]
            r = Dr.call_op(m.collect_fee, key, p.pending_amount0 / d["frac"], p.pending_amount1 / 3)
    elif kind == "remove_all":
        tgt = set(m.positions.keys())
        if not tgt:
            return
        r = Dr.call_op(m.remove_all_liquidity)
    elif kind == "buy":
        tgt = set()
        r = Dr.call_op(m.buy, d["amt"])
    elif kind == "sell":
        tgt = set()
        r = Dr.call_op(m.sell, d["amt"])
    elif kind == "transfer_out":
        if not have:
            return
        r = Dr.call_op(m.transfer_position_out, key)
    elif kind == "transfer_in":
        if not have:
            return
        r = Dr.call_op(m.transfer_position_in, key)
    else:
        raise ValueError(kind)
    watch.record(bar, Op(phase, kind, tgt, r.ok, kind in WRITES))
    mon.cls(f"op/{kind}/{'ok' if r.ok else 'rejected'}")


def write_class(watch, k, key):
    """(label for evidence, coarse label for the mechanism key) of what else happened in bar k before update()."""
    ops = [o for o in watch.ops.get(k, ()) if o.phase in PRE_PHASES and o.ok]
    own = sorted({f"{o.kind}@{PH[o.phase]}" for o in ops if key in o.tgt})
    oth = sorted({f"{o.kind}@{PH[o.phase]}" for o in ops if o.write and key not in o.tgt})
    nw = sorted({f"{o.kind}@{PH[o.phase]}" for o in ops if not o.write and key not in o.tgt})
    om = []
    if watch.other is not None:
        om = sorted({f"{o.kind}@{PH[o.phase]}" for o in watch.other.ops.get(k, ()) if o.phase in PRE_PHASES and o.ok})
    prev_after = any(o.ok and o.write and o.phase == "after_bar" for o in watch.ops.get(k - 1, ()))
    parts = []
    if own:
        parts.append("own(" + ",".join(own[:2]) + ")")
    if oth:
        parts.append("other(" + ",".join(oth[:2]) + ")")
    if nw:
        parts.append("nonwrite(" + ",".join(nw[:1]) + ")")
    if om:
        parts.append("otherpool(" + ",".join(om[:1]) + ")")
    if prev_after:
        parts.append("prev-after")
    coarse = "+".join(
        n for n, v in (("own-write", [x for x in own if x.split("@")[0] in WRITES]), ("other-write", oth),
                       ("nonwrite", nw or [x for x in own if x.split("@")[0] not in WRITES]), ("other-pool", om)) if v
    )
    return ("+".join(parts) or "none"), (coarse or "none")


def snapshot(m):
    return {k: (int(p.liquidity), p.pending_amount0, p.pending_amount1) for k, p in m.positions.items()}


def tol(e, pend_after):
    return REL * abs(e) + ABS * abs(pend_after)


def install(watch, strategy, mon, case_info):
    m = watch.m
    orig = m.update

    def update():
        if watch.dead:
            return orig()
        k = strategy.bar
        pre = snapshot(m)
        # ---- nothing accrues outside update(): untouched positions keep their pending amounts between two updates
        if watch.post is not None:
            for key, (L, p0, p1) in pre.items():
                if key in watch.post and key not in watch.touched:
                    mon.ev()
                    q = watch.post[key]
                    if (p0, p1) != (q[1], q[2]):
                        mon.violation(
                            "uniswap", "between-updates", "pending-changed-outside-update", "",
                            f"{watch.name} bar {k} position {tuple(key)}: pending ({q[1]}, {q[2]}) after the previous update, "
                            f"({p0}, {p1}) before this one, no operation touched the position", case_info,
                        )
        err = None
        try:
            orig()
        except Exception as e:  # noqa
            err = e
        post = snapshot(m)
        watch.touched = set()
        watch.post = post
        if k >= len(watch.bars):
            mon.violation("uniswap", "update", "bar-beyond-data", "", f"{watch.name}: update() at row {k} of {len(watch.bars)}", case_info)
            watch.dead = True
            return
        B = watch.bars[k]
        own_total = sum(v[0] for v in pre.values())
        if err is not None:
            watch.dead = True
            mon.violation(
                "uniswap", "update", "raises", f"{Dr.reject_site(err)}:{type(err).__name__}",
                f"{watch.name} bar {k}: update() raised {err!r}; tick dtype {watch.P['dtype']}, closes "
                f"{watch.bars[k - 1]['close'] if k else None}->{B['close']}, positions {[tuple(x) for x in pre]}", case_info,
            )
            return
        evaluate(watch, mon, k, pre, post, own_total, case_info)

    m.update = update


def evaluate(watch, mon, k, pre, post, own_total, case_info):
    P = watch.P
    B = watch.bars[k]
    b = B["close"]
    a = watch.bars[k - 1]["close"] if k >= 1 else None
    prev_a = watch.bars[k - 2]["close"] if k >= 2 else None
    pool = B["liq"]
    vols = (B["vol0"], B["vol1"])
    prev_vols = (watch.bars[k - 1]["vol0"], watch.bars[k - 1]["vol1"]) if k >= 1 else None
    decs = P["dec"]
    npos = len(pre)
    itv = watch.interval_min
    if pool == 0:
        mon.hit("zero-pool-liquidity-bars")
    for key, (L, p0, p1) in pre.items():
        lower, upper = int(key.lower_tick), int(key.upper_tick)
        if key not in post:
            mon.violation("uniswap", "update", "position-vanished", "", f"{watch.name} bar {k}: {tuple(key)} gone after update()", case_info)
            continue
        L2, q0, q1 = post[key]
        if L2 != L:
            mon.violation("uniswap", "update", "liquidity-changed-by-update", "", f"{watch.name} bar {k}: {L} -> {L2}", case_info)
        d = (F(q0) - F(p0), F(q1) - F(p1))
        pend = (F(q0), F(q1))
        wlabel, wcoarse = write_class(watch, k, key)
        operation = "update" if wcoarse == "none" else f"update+same-bar({wcoarse})"
        hi_share = O.share_single(L, pool)
        full = tuple(O.fee(vols[t], decs[t], watch.rate, Fraction(1), hi_share) for t in (0, 1))
        base_data = {
            **case_info, "market": watch.name, "bar": k, "range": [lower, upper], "prev_close": a, "close": b, "own_liquidity": L,
            "own_total": own_total, "pool_liquidity": pool, "volumes_atomic": list(vols), "observed": [str(q0 - p0), str(q1 - p1)],
            "same_bar": wlabel,
        }
        # ---- never negative
        for t in (0, 1):
            mon.ev()
            if d[t] < 0:
                mon.violation("uniswap", operation, "negative-fee", f"token{t}", f"{watch.name} bar {k} {tuple(key)}: pending{t} fell by {float(-d[t]):.6e}", base_data)
        if k == 0:
            # no previous close: the statement only bounds the amount
            mon.hit("bar0-evaluations")
            for t in (0, 1):
                mon.ev()
                if d[t] > full[t] + tol(full[t], pend[t]):
                    mon.violation(
                        "uniswap", operation, "bar0-above-full-fee", f"token{t}",
                        f"{watch.name} bar 0 {tuple(key)}: earned {float(d[t]):.6e} > volume x rate x own/(pool+own) = {float(full[t]):.6e}", base_data,
                    )
            st = O.path_fraction(b, b, lower, upper)
            mon.cls("bar0/" + ("matches-stationary-model" if all(abs(d[t] - full[t] * st) <= tol(full[t], pend[t]) for t in (0, 1)) else "other"))
            continue
        pa, pb = O.tick_class(a, lower, upper), O.tick_class(b, lower, upper)
        span = (a < lower and b > upper) or (a > upper and b < lower)
        pcls = f"{pa}>{pb}" + ("=" if a == b else "") + ("/span" if span else "")
        frac = O.path_fraction(a, b, lower, upper)
        others = own_total - L
        exact = L == 0 or others == 0
        lo_share = O.share_floor(L, pool, own_total)
        e_hi = tuple(O.fee(vols[t], decs[t], watch.rate, frac, hi_share) for t in (0, 1))
        e_lo = tuple(O.fee(vols[t], decs[t], watch.rate, frac, lo_share) for t in (0, 1))
        bad = None
        for t in (0, 1):
            mon.ev()
            tl = tol(e_hi[t], pend[t])
            if frac == 0 or L == 0:
                if d[t] != 0:
                    bad = ("earned-while-out-of-range" if frac == 0 else "earned-without-liquidity", t)
            elif exact:
                if abs(d[t] - e_hi[t]) > tl:
                    bad = ("fee-amount", t)
            else:
                if d[t] > e_hi[t] + tl:
                    bad = ("share-above-own/(pool+own)", t)
                elif d[t] < e_lo[t] - tl:
                    bad = ("share-below-own/(pool+all-own)", t)
        if bad is not None:
            clause, t = bad
            why = None
            for name, alt in O.alternatives(a, b, prev_a, lower, upper, L, pool, own_total, watch.own_bar_start, vols, prev_vols, decs, watch.rate):
                if all(abs(d[x] - alt[x]) <= tol(alt[x], pend[x]) for x in (0, 1)) and any(alt[x] != e_lo[x] for x in (0, 1)):
                    why = name
                    break
            if why is not None and why.startswith("path-start"):
                clause = "path-start-not-previous-close"
            site = why or f"unexplained/{pcls}"
            mon.violation(
                "uniswap", operation, clause, site,
                f"{watch.name} bar {k} position {tuple(key)} token{t}: earned {float(d[t]):.12e}, model "
                f"{float(e_hi[t]):.12e}" + ("" if exact else f" (floor {float(e_lo[t]):.12e})") +
                f"; path {a}->{b} ({pcls}, fraction {frac}), own L {L}, other own L {others}, pool L {pool}, volume{t} {vols[t]}, "
                f"fee {P['fee']}%, decimals {decs}, tick dtype {P['dtype']}, interval {itv} min, same-bar ops: {wlabel}; "
                f"explained by: {why}", {**base_data, "expected": [str(float(e_hi[0])), str(float(e_hi[1]))], "fraction": str(frac)},
            )
        # ---- evidence
        crossing = O.active(a, lower, upper) != O.active(b, lower, upper) or span
        nonzero = L > 0 and frac > 0 and (vols[0] > 0 or vols[1] > 0)
        mon.cls(f"path/{pcls}")
        mon.cls(f"same-bar/{wcoarse}")
        if not exact:
            mon.hit("multi-position-band-evaluations")
            if L > 0 and frac > 0:
                mon.cls("multi/" + ("equals-own/(pool+all-own)" if all(abs(d[t] - e_lo[t]) <= tol(e_lo[t], pend[t]) for t in (0, 1)) else "inside-band"))
        elif nonzero:
            mon.hit("exact-nonzero-evaluations")
        if crossing:
            mon.hit("crossing-bars")
            if P["dtype"] == "int":
                mon.hit("crossing-bars-int64-ticks")
        if pb in ("lower", "upper"):
            mon.hit("close-on-a-bound")
        if pa in ("lower", "upper"):
            mon.hit("previous-close-on-a-bound")
        if a == b:
            mon.hit("stationary-bars")
        if span:
            mon.hit("whole-range-jumps")
        if frac == 0:
            mon.hit("out-of-range-whole-bar")
        if "write" in wcoarse and nonzero:
            mon.hit("nonzero-fee-with-same-bar-write")
        if "write" in wcoarse and crossing:
            mon.hit("crossing-with-same-bar-write")
        if itv != 1:
            mon.hit("resampled-bar-evaluations")
        if nonzero or crossing:
            ratio = "inf" if L == 0 else ("0" if pool == 0 else str(int(math.floor(math.log10(pool / L) / 3))))
            mon.nt(f"{pcls}|{wlabel}|n{npos}|{P['dtype']}|{itv}m|r{ratio}")
            mon.sample(
                {**base_data, "fee_percent": P["fee"], "decimals": list(decs), "tick_dtype": P["dtype"], "interval_min": itv,
                 "path_class": pcls, "fraction": str(frac), "model": [f"{float(e_hi[0]):.12e}", f"{float(e_hi[1]):.12e}"],
                 "exact": exact},
                cls=f"{pcls}/{wcoarse}",
            )


class Observer:
    def __init__(self, mon, watches, case_info):
        self.mon, self.watches, self.case_info = mon, watches, case_info

    def before_bar(self, strategy, snap):
        for w in self.watches:
            w.own_bar_start = sum(int(p.liquidity) for p in w.m.positions.values())

    def after_bar(self, strategy, snap):
        # observe at UniLpBalance.base_uncollected / quote_uncollected: the totals are the positions' pending amounts
        for w in self.watches:
            if w.dead or not w.m.positions:
                continue
            try:
                mb = w.m.get_market_balance()
            except Exception as e:  # noqa
                self.mon.violation("uniswap", "get_market_balance", "raises", f"{Dr.reject_site(e)}:{type(e).__name__}", repr(e), self.case_info)
                continue
            s0 = sum((F(p.pending_amount0) for p in w.m.positions.values() if not p.transferred), Fraction(0))
            s1 = sum((F(p.pending_amount1) for p in w.m.positions.values() if not p.transferred), Fraction(0))
            eb, eq = (s1, s0) if w.P["q0"] else (s0, s1)
            for nm, got, want in (("base_uncollected", F(Decimal(mb.base_uncollected)), eb), ("quote_uncollected", F(Decimal(mb.quote_uncollected)), eq)):
                self.mon.ev()
                if abs(got - want) > Fraction(1, 10**32) * abs(want):
                    self.mon.violation(
                        "uniswap", "get_market_balance", "uncollected-total", nm,
                        f"{w.name} bar {strategy.bar}: {nm} = {float(got)!r}, positions' pending sum = {float(want)!r}", self.case_info,
                    )


def one_case(mon, rng, c, tier):
    from demeter.strategy.trigger import Trigger

    interval = rng.choice(["1min"] * 13 + ["5min"] * 5 + ["1h"] * 2)
    itv = {"1min": 1, "5min": 5, "1h": 60}[interval]
    nbars = {1: rng.randint(14, 36), 5: rng.randint(8, 16), 60: rng.randint(4, 7)}[itv]
    n_rows = nbars * itv
    path_kind = rng.choice(["anchors"] * 11 + ["jump"] * 3 + ["walk"] * 2 + ["flat"] * 2 + ["calm"] * 2)
    two = rng.random() < 0.2
    real = rng.random() < 0.12
    if real:
        two = False
        path_kind = "real"
        pools = [gen_pool_real(rng, n_rows, itv)]
    else:
        pools = [gen_pool(rng, ("USDC", "WETH"), n_rows, path_kind)]
    if two:
        pools.append(gen_pool(rng, ("DAI", "WBTC"), n_rows, rng.choice(["anchors", "jump", "walk"])))
    density = rng.choice([0.0, 0.15, 0.35, 0.35, 0.6])
    script = []
    for i, P in enumerate(pools):
        script += gen_script(rng, i, nbars, len(P["ranges"]), P["first_amounts"], density)
    case_info = {
        "case": c, "interval": interval, "bars": nbars, "pools": [
            {"fee": P["fee"], "dec": list(P["dec"]), "token0_is_quote": P["q0"], "center": P["center"], "ranges": [list(r) for r in P["ranges"]],
             "tick_dtype": P["dtype"], "path": P["path"], "zero_pool_rows": P["zero_pool"]} for P in pools
        ],
    }
    watches = [Watch(mon, f"uni{i}", P, itv) for i, P in enumerate(pools)]
    if two:
        watches[0].other, watches[1].other = watches[1], watches[0]
    plan_by = {}
    for bar, phase, d in script:
        plan_by.setdefault((bar, phase), []).append(d)

    def runner(phase):
        def fn(strategy, snap):
            for d in plan_by.get((strategy.bar, phase), ()):
                exec_op(watches[d["mk"]], d, phase, strategy.bar, mon)
        return fn

    sc = {("*", ph): [runner(ph)] for ph in ("before_bar", "trigger", "on_bar", "after_bar")}
    sc[(0, "initialize")] = [runner("initialize")]

    class EveryBar(Trigger):
        def when(self, snapshot):
            return True

    obs = Observer(mon, watches, case_info)
    st = Dr.make_script_strategy(sc, obs, lambda s: [EveryBar(lambda snap: s._run("trigger", snap))])
    # prices: each pool's own prices; quote tokens at 1
    import pandas as pd

    frames = []
    for wt in watches:
        pf, _ = wt.m.get_price_from_data()
        frames.append(pf)
    prices = pd.concat(frames, axis=1)
    quote = watches[0].m.quote_token
    assets = {}
    for wt in watches:
        assets[wt.w.t0] = Decimal(10) ** 18
        assets[wt.w.t1] = Decimal(10) ** 18
    a = Dr.build_actuator([wt.m for wt in watches], prices, quote, assets, st, interval)
    for wt in watches:
        install(wt, st, mon, case_info)
    mon.cls(f"case/{interval}/{path_kind}/{'two-pools' if two else 'one-pool'}")
    try:
        a.run(False)
    except Exception as e:  # noqa
        mon.violation(
            "uniswap", "run", "raises", f"{Dr.reject_site(e)}:{type(e).__name__}",
            f"Actuator.run raised {e!r}\n{traceback.format_exc()[-1200:]}", case_info,
        )
        return
    for wt in watches:
        if not wt.dead and st.bar != len(wt.bars) - 1:
            mon.violation("uniswap", "run", "bars-differ-from-model", "", f"{wt.name}: last row id {st.bar}, model has {len(wt.bars)} bars", case_info)


def floors(merged, tier):
    out = []
    need = {
        "crossing-bars": 300, "crossing-bars-int64-ticks": 80, "close-on-a-bound": 150, "previous-close-on-a-bound": 150,
        "stationary-bars": 150, "whole-range-jumps": 20, "out-of-range-whole-bar": 150, "exact-nonzero-evaluations": 300,
        "multi-position-band-evaluations": 100, "nonzero-fee-with-same-bar-write": 80, "crossing-with-same-bar-write": 30,
        "resampled-bar-evaluations": 50, "bar0-evaluations": 10,
    }
    for k, v in need.items():
        if merged["reach"].get(k, 0) < v:
            out.append(f"reach floor not met: {k} = {merged['reach'].get(k, 0)} < {v}")
    return out
