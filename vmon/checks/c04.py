"""C04 — a rejected operation leaves wallet, positions, order book and action log intact.

Invariant at quiescent points: around every operation that raises, the semantic projection (wallet, every market's
positions/debts/vaults, the visible order book, the action log) must be unchanged.  Multi-step convenience
helpers may stop at a transaction boundary (a state captured right after one of the action records they emitted)."""
from .. import drive as Dr
from .. import scenes as S

ID = "C04"
META = {
    "level": "exploration",
    "rule": "a case = one frozen-market scene (market mix, decimals, wallet) driven by a random operation sequence with "
    "hostile argument classes (zero, exact, one-ulp-over, x10, x1e6, negative, unknown keys, closed bars); every "
    "operation that raises is one evaluation. Non-trivial = a rejected call; distinct by (market, operation, argument "
    "class, rejection site = deepest demeter frame of the traceback).",
    "assumptions": [
        "state = projection through public accessors (vmon/drive.py project): wallet balances, uni positions, aave scaled "
        "supplies/borrows + flags, squeeth vaults, deribit cash/positions/visible book, GLP/GM holdings, action log",
        "multi-step helpers (add_liquidity_by_value, remove_liquidity(collect=True), remove_all_liquidity, even_rebalance) may "
        "stop at a boundary between their constituent transactions; everything else is one transaction",
        "caches, has_update flags and loggers are not part of the state; but when the positions are unchanged after a rejection "
        "the balance each market REPORTS (get_market_balance) must be unchanged too",
    ],
}
NSHARDS = 16


def plan(tier, seed):
    n = 26 if tier == "quick" else 700
    return [{"shard": i, "cases": n} for i in range(NSHARDS)] + [{"shard": NSHARDS, "cases": 0, "suite": True}]


def run_suite_shard(mon):
    """the repository's own test suite (real-data workloads) under the reject-atomic monitor of vmon/suitemon.py"""
    from .. import suiterun

    events, info = suiterun.run_suite()
    mon.note("suite", {"rc": info["rc"], "wall_s": info["wall"], "tail": info["tail"][-160:]})
    n_tests = sum(1 for e in events if e.get("mon") == "test" and e.get("outcome") == "passed")
    mon.hit("suite-tests-passed", n_tests)
    for e in events:
        if e.get("mon") != "reject-atomic":
            continue
        mon.case_id = {"suite_test": e.get("test")}
        mon.ev()
        mon.hit("suite-rejections")
        mon.cls(f"suite-reject/{e['market']}/{e['op']}/{e['site']}")
        mon.nt(f"suite/{e['market']}/{e['op']}/{e['site']}")
        if not e["ok"]:
            mon.violation(e["market"], e["op"], "state-changed-after-reject", e["site"],
                          f"repository test {e.get('test')}: {e['market']}.{e['op']} raised {e.get('error')} but state changed: {e.get('diff')}",
                          {"suite_test": e.get("test")})


def run(spec, mon):
    if spec.get("suite"):
        if mon.only_case is None or isinstance(mon.only_case, dict):
            run_suite_shard(mon)
        return
    for c in range(spec["cases"]):
        rng = mon.case_rng(c)
        if not mon.want(c):
            continue
        mix = rng.choice(S.MIXES)
        try:
            sc = S.build(rng, mix, n=rng.choice([6, 12]), consistent=rng.random() < 0.5, drop_zero_assets=True)
        except Exception as e:
            import traceback

            mon.violation("harness", "build", "scene-build-failed", mix, traceback.format_exc()[-1200:])
            continue
        one_case(mon, rng, sc, c)


def one_case(mon, rng, sc, c):
    fz = sc.fz
    boundaries = []
    orig = fz._record

    def rec(action):
        orig(action)
        boundaries.append(Dr.project(fz.broker, fz.actions))

    fz.broker._record_action_callback = rec
    for m in fz.markets:
        m._record_action_callback = rec
    steps = rng.randint(15, 60)
    trace = []
    for step in range(steps):
        if rng.random() < 0.12:
            sc.move(rng)
        try:
            op = sc.gen(rng)
        except Exception as e:  # generator looked at a state it cannot handle; not an observation
            mon.cls(f"gen-error/{type(e).__name__}")
            continue
        pre = Dr.project(fz.broker, fz.actions)
        pre_bal = balances(fz)
        del boundaries[:]
        res = Dr.call_op(op.fn)
        trace.append(f"{op.market}.{op.label}[{op.cls}]{'+' if res.ok else '-'}")
        if res.ok:
            mon.cls(f"accepted/{op.market}/{op.label}")
            continue
        post = Dr.project(fz.broker, fz.actions)
        mon.ev()
        site = res.site or "?"
        mon.cls(f"reject/{op.market}/{op.label}/{site}")
        mon.nt(f"{op.market}/{op.label}/{op.cls}/{site}")
        ok = post == pre or (op.multi and any(post == b for b in boundaries))
        if post == pre:
            # same positions => every market must also REPORT the same balance (derived views, caches) as before the call
            post_bal = balances(fz)
            mon.ev()
            # a market that could not report a balance before the call (it reads a wallet entry that did not exist yet) gives
            # nothing to compare with
            changed = sorted(k for k in post_bal if post_bal[k] != pre_bal.get(k) and not str(pre_bal.get(k)).startswith("<"))
            if changed:
                mon.violation(
                    op.market, op.label, "reported-balance-changed-after-reject", site,
                    f"{op.market}.{op.label}[{op.cls}] raised {type(res.exc).__name__}: {str(res.exc)[:100]}; positions unchanged but "
                    f"get_market_balance() of {changed} changed: {[(str(pre_bal.get(k))[:200], str(post_bal[k])[:200]) for k in changed[:2]]} "
                    f"(scene {sc.info}, trace tail {trace[-4:]})", {"scene": sc.info, "trace": trace[-12:]},
                )
        if not ok:
            d = Dr.diff_proj(pre, post)
            what = sorted({x.split(":")[0].split("/")[1] for x in d})
            mon.violation(
                op.market, op.label, "state-changed-after-reject", site,
                f"{op.market}.{op.label}[{op.cls}] raised {type(res.exc).__name__}: {str(res.exc)[:120]} but state changed in "
                f"{what}: {d[:4]} (scene {sc.info}, trace tail {trace[-4:]})",
                {"scene": sc.info, "trace": trace[-12:]},
            )
        mon.sample({"scene": sc.info, "op": f"{op.market}.{op.label}", "arg_class": op.cls, "rejected_at": site,
                    "error": f"{type(res.exc).__name__}: {str(res.exc)[:80]}"}, cls=f"{op.market}/{op.label}/{site}")


def balances(fz):
    """what every market reports through get_market_balance() (repr of the balance object; None if it can not report)."""
    out = {}
    for m in fz.markets:
        try:
            out[m.market_info.name] = repr(m.get_market_balance())
        except Exception as e:
            out[m.market_info.name] = f"<{type(e).__name__}>"
    return out


def floors(merged, tier):
    out = []
    seen = {}
    for k, v in merged["classes"].items():
        if k.startswith("reject/"):
            seen[k.split("/")[1]] = seen.get(k.split("/")[1], 0) + v
    for mk in ("uniswap", "aave", "squeeth", "deribit", "gmx", "gmx2", "broker"):
        if seen.get(mk, 0) < 5:
            out.append(f"fewer than 5 rejections provoked on market {mk}")
    if merged["reach"].get("suite-tests-passed", 0) < 100:
        out.append(f"the repository's test suite under monitors passed only {merged['reach'].get('suite-tests-passed', 0)} tests (expected about 154)")
    return out
