"""C04 — a rejected operation leaves wallet, positions, order book and action log intact.

Invariant at quiescent points: around every operation that raises, the semantic projection (wallet, every market's
positions/debts/vaults, the visible order book, the action log) must be unchanged.  Multi-step convenience
helpers may stop at a transaction boundary (a state captured right after one of the action records they emitted)."""
from .. import drive as Dr
from .. import scenes as S

ID = "C04"
META = {
    "level": "exploration",
    "rule": "a case = one frozen-market scene (market mix, decimals, wallet) driven by a random operation sequence with "
    "hostile argument classes (zero, exact, one-ulp-over, x10, x1e6, negative, unknown keys, closed bars); every "
    "operation that raises is one evaluation. Non-trivial = a rejected call; distinct by (market, operation, argument "
    "class, rejection site = deepest demeter frame of the traceback).",
    "assumptions": [
        "state = projection through public accessors (vmon/drive.py project): wallet balances, uni positions, aave scaled "
        "supplies/borrows + flags, squeeth vaults, deribit cash/positions/visible book, GLP/GM holdings, action log",
        "multi-step helpers (add_liquidity_by_value, remove_liquidity(collect=True), remove_all_liquidity, even_rebalance) may "
        "stop at a boundary between their constituent transactions; everything else is one transaction",
        "caches, has_update flags and loggers are not part of the state; but when the positions are unchanged after a rejection "
        "the balance each market REPORTS (get_market_balance) must be unchanged too",
    ],
}
NSHARDS = 16


def plan(tier, seed):
    n = 26 if tier == "quick" else 700
    return [{"shard": i, "cases": n} for i in range(NSHARDS)] + [{"shard": NSHARDS, "cases": 0, "suite": True}]


def run_suite_shard(mon):
    """the repository's own test suite (real-data workloads) under the reject-atomic monitor of vmon/suitemon.py"""
    from .. import suiterun

    events, info = suiterun.run_suite()
    mon.note("suite", {"rc": info["rc"], "wall_s": info["wall"], "tail": info["tail"][-160:]})
    n_tests = sum(1 for e in events if e.get("mon") == "test" and e.get("outcome") == "passed")
    mon.hit("suite-tests-passed", n_tests)
    for e in events:
        if e.get("mon") != "reject-atomic":
            continue
        mon.case_id = {"suite_test": e.get("test")}
        mon.ev()
        mon.hit("suite-rejections")
        mon.cls(f"suite-reject/{e['market']}/{e['op']}/{e['site']}")
        mon.nt(f"suite/{e['market']}/{e['op']}/{e['site']}")
        if not e["ok"]:
            mon.violation(e["market"], e["op"], "state-changed-after-reject", e["site"],
                          f"repository test {e.get('test')}: {e['market']}.{e['op']} raised {e.get('error')} but state changed: {e.get('diff')}",
                          {"suite_test": e.get("test")})


def run(spec, mon):
    if spec.get("suite"):
        if mon.only_case is None or isinstance(mon.only_case, dict):
            run_suite_shard(mon)
        return
    for c in range(spec["cases"]):
        rng = mon.case_rng(c)
        if not mon.want(c):
            continue
        mix = rng.choice(S.MIXES)
        try:
            sc = S.build(rng, mix, n=rng.choice([6, 12]), consistent=rng.random() < 0.5, drop_zero_assets=True)
        except Exception as e:
            import traceback

            mon.violation("harness", "build", "scene-build-failed", mix, traceback.format_exc()[-1200:])
            continue
        one_case(mon, rng, sc, c)


def one_case(mon, rng, sc, c):
    fz = sc.fz
    boundaries = []
    orig = fz._record

    def rec(action):
        orig(action)
        boundaries.append(Dr.project(fz.broker, fz.actions))

    fz.broker._record_action_callback = rec
    for m in fz.markets:
        m._record_action_callback = rec
    steps = rng.randint(15, 60)
    trace = []
    twin = None  # see Twin: the scene as it was before a call that was then rejected, fed the same later operations
    for step in range(steps):
        if rng.random() < 0.12:
            sc.move(rng)
            if twin is not None:
                twin.sc.move(rng, bar=sc.bar)
        rstate = rng.getstate()
        try:
            op = sc.gen(rng)
        except Exception as e:  # generator looked at a state it cannot handle; not an observation
            mon.cls(f"gen-error/{type(e).__name__}")
            twin = None
            continue
        if twin is not None:
            twin = twin.follow(mon, rstate, op, fz, trace)
        pre = Dr.project(fz.broker, fz.actions)
        pre_bal = balances(fz)
        if twin is not None:
            twin.reads()  # the twin is read whenever the real scene is (reading warms caches)
        cand = None
        if twin is None and not op.multi and rng.random() < 0.3:
            cand = Twin.take(sc, op, len(fz.actions))
        del boundaries[:]
        res = Dr.call_op(op.fn)
        trace.append(f"{op.market}.{op.label}[{op.cls}]{'+' if res.ok else '-'}")
        if twin is not None:
            twin = twin.compare(mon, res, fz, sc, trace)
        if res.ok:
            mon.cls(f"accepted/{op.market}/{op.label}")
            continue
        if cand is not None:
            cand.site = res.site or "?"
            twin = cand
            mon.hit("twin-started")
            # a wallet entry with balance 0 that the refused call created is no balance (the projection leaves zero balances
            # out for the same reason): the twin gets the same empty entry, so that only amounts and records can differ
            for tok, a in fz.broker.assets.items():
                if a.balance == 0 and tok not in twin.sc.fz.broker.assets:
                    twin.sc.fz.broker.set_balance(tok, 0)
            twin.reads()  # the real scene has just been read again (projection and balances after the refusal)
        post = Dr.project(fz.broker, fz.actions)
        mon.ev()
        site = res.site or "?"
        mon.cls(f"reject/{op.market}/{op.label}/{site}")
        mon.nt(f"{op.market}/{op.label}/{op.cls}/{site}")
        ok = post == pre or (op.multi and any(post == b for b in boundaries))
        if post == pre:
            # same positions => every market must also REPORT the same balance (derived views, caches) as before the call
            post_bal = balances(fz)
            mon.ev()
            # a market that could not report a balance before the call (it reads a wallet entry that did not exist yet) gives
            # nothing to compare with
            changed = sorted(k for k in post_bal if post_bal[k] != pre_bal.get(k) and not str(pre_bal.get(k)).startswith("<"))
            if changed:
                mon.violation(
                    op.market, op.label, "reported-balance-changed-after-reject", site,
                    f"{op.market}.{op.label}[{op.cls}] raised {type(res.exc).__name__}: {str(res.exc)[:100]}; positions unchanged but "
                    f"get_market_balance() of {changed} changed: {[(str(pre_bal.get(k))[:200], str(post_bal[k])[:200]) for k in changed[:2]]} "
                    f"(scene {sc.info}, trace tail {trace[-4:]})", {"scene": sc.info, "trace": trace[-12:]},
                )
        if not ok:
            d = Dr.diff_proj(pre, post)
            what = sorted({x.split(":")[0].split("/")[1] for x in d})
            mon.violation(
                op.market, op.label, "state-changed-after-reject", site,
                f"{op.market}.{op.label}[{op.cls}] raised {type(res.exc).__name__}: {str(res.exc)[:120]} but state changed in "
                f"{what}: {d[:4]} (scene {sc.info}, trace tail {trace[-4:]})",
                {"scene": sc.info, "trace": trace[-12:]},
            )
        mon.sample({"scene": sc.info, "op": f"{op.market}.{op.label}", "arg_class": op.cls, "rejected_at": site,
                    "error": f"{type(res.exc).__name__}: {str(res.exc)[:80]}"}, cls=f"{op.market}/{op.label}/{site}")


def _num_repr(text):
    """repr of a balance object with every Decimal written in normalised form (0E-18 is 0)"""
    import re
    from decimal import Decimal as _D

    def f(mo):
        try:
            d = _D(mo.group(1))
            return "D(" + (str(d.normalize()) if d.is_finite() and d != 0 else ("0" if d == 0 else str(d))) + ")"
        except Exception:
            return mo.group(0)

    return re.sub(r"(?:Unit)?Decimal\('([^']*)'\)", f, str(text))


def _canon_actions(actions):
    return [(type(a).__name__, sorted((k, str(v)) for k, v in vars(a).items())) for a in actions]


class Twin:
    """"A rejected call changes nothing" also means that nothing it left behind shows later.  Before some calls the whole
    scene (broker, markets with their data, generators) is deep-copied; if the call is then rejected, the copy - which never
    saw that call - is fed the next few operations (generated from the same random state against its own objects) next to the
    real scene, and after each of them both must agree: same verdict, same state projection, same reported balances, same
    action records since the copy was taken.  State outside the projection (buffers, flags, caches) that a rejected call
    leaves behind has no other way to show."""

    FOLLOW = 3

    def __init__(self, sc, op, n_actions):
        self.sc, self.rejected, self.n0, self.left, self.site = sc, f"{op.market}.{op.label}[{op.cls}]", n_actions, self.FOLLOW, "?"
        self.op_market, self.op_label = op.market, op.label
        self.res_t = None

    @classmethod
    def take(cls, sc, op, n_actions):
        import copy

        try:
            tw = copy.deepcopy(sc)
        except Exception:  # a scene that cannot be copied gives no twin (not an observation)
            return None
        tfz = tw.fz
        tfz.broker._record_action_callback = tfz._record
        for m in tfz.markets:
            m._record_action_callback = tfz._record
        return cls(tw, op, n_actions)

    def reads(self):
        Dr.project(self.sc.fz.broker, self.sc.fz.actions)
        balances(self.sc.fz)

    def follow(self, mon, rstate, op, fz, trace):
        """the operation the real scene is about to get, generated for the twin from the same random state"""
        import random

        trng = random.Random()
        trng.setstate(rstate)
        try:
            op_t = self.sc.gen(trng)
        except Exception:
            return None
        if (op_t.market, op_t.label, op_t.cls) != (op.market, op.label, op.cls):
            # the generators already look at different states: report it as what it is
            self.res_t = ("generator-diverged", f"real {op.market}.{op.label}[{op.cls}] vs twin {op_t.market}.{op_t.label}[{op_t.cls}]")
            return self
        self.res_t = Dr.call_op(op_t.fn)
        return self

    def compare(self, mon, res, fz, sc, trace):
        tfz = self.sc.fz
        mon.ev()
        mon.hit("twin-comparisons")
        diffs = []
        if isinstance(self.res_t, tuple):
            diffs.append(self.res_t[1])
        else:
            if res.ok != self.res_t.ok:
                diffs.append(f"verdict: real {'accepted' if res.ok else repr(res.exc)[:80]}, twin {'accepted' if self.res_t.ok else repr(self.res_t.exc)[:80]}")
            diffs += Dr.diff_proj(Dr.project(tfz.broker), Dr.project(fz.broker))[:4]
            a_t, a_r = _canon_actions(tfz.actions[self.n0:]), _canon_actions(fz.actions[self.n0:])
            if a_t != a_r:
                diffs.append(f"action records since the rejected call: twin {[x[0] for x in a_t]} real {[x[0] for x in a_r]}")
            b_t, b_r = balances(tfz), balances(fz)
            for k in b_r:
                if _num_repr(b_t.get(k)) != _num_repr(b_r[k]):
                    i = next((j for j, (x, y) in enumerate(zip(str(b_t.get(k)), str(b_r[k]))) if x != y), 0)
                    diffs.append(f"reported balance of {k}: twin ...{str(b_t.get(k))[max(0, i - 60):i + 60]} real ...{str(b_r[k])[max(0, i - 60):i + 60]}")
        if diffs:
            mon.violation(
                self.op_market, self.op_label, "rejected-call-shows-later", self.site,
                f"{self.rejected} was rejected ({self.site}); the scene that never saw that call and the real one disagree after "
                f"{trace[-1]}: {diffs[:4]} (scene {sc.info}, trace tail {trace[-5:]})", {"scene": sc.info, "trace": trace[-12:]},
            )
            return None
        self.left -= 1
        return self if self.left > 0 else None


def balances(fz):
    """what every market reports through get_market_balance() (repr of the balance object; None if it can not report)."""
    out = {}
    for m in fz.markets:
        try:
            out[m.market_info.name] = repr(m.get_market_balance())
        except Exception as e:
            out[m.market_info.name] = f"<{type(e).__name__}>"
    return out


def floors(merged, tier):
    out = []
    seen = {}
    for k, v in merged["classes"].items():
        if k.startswith("reject/"):
            seen[k.split("/")[1]] = seen.get(k.split("/")[1], 0) + v
    for mk in ("uniswap", "aave", "squeeth", "deribit", "gmx", "gmx2", "broker"):
        if seen.get(mk, 0) < 5:
            out.append(f"fewer than 5 rejections provoked on market {mk}")
    if merged["reach"].get("suite-tests-passed", 0) < 100:
        out.append(f"the repository's test suite under monitors passed only {merged['reach'].get('suite-tests-passed', 0)} tests (expected about 154)")
    return out
