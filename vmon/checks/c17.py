"""C17 — GMX mint/redeem: fees bounded and rule-based, round trips never profit.

v1 (GmxMarket): every accepted buy_glp / sell_glp is compared with an integer re-implementation of
VaultUtils.getFeeBasisPoints, Vault.buyUSDG / sellUSDG (adjustForDecimals included) and GlpManager add / remove
liquidity; same-token buy -> sell sequences must not return more than was paid; rewards must accrue
interval * 60 * held / supply per bar; more GLP than held must not be redeemable.
v2 (GmxV2Market): every accepted deposit / withdraw is compared with an exact-rational re-derivation of the
deposit / withdrawal formulas (fee factors, same-side / crossover price impact, virtual inventory, impact-pool cap);
deposit -> withdraw-all is compared in USD value at the bar's prices; more GM than held must not be redeemable.
Markets are driven frozen at one bar, stepped over bars, and inside the real Actuator.run."""
import math

import pandas as pd
from decimal import Decimal
from fractions import Fraction

from .. import drive as Dr
from .. import worlds as W
from ..oracles import gmx as G

ID = "C17"
META = {
    "level": "exploration",
    "rule": "a case = one generated pool (synthetic world or real avalanche rows for v1; synthetic for v2) with a "
    "sequence of buys/sells (deposits/withdrawals) sized against the pool state (wei, fractions of the gap to the "
    "target weight, exactly to target, across it, percent of pool; balancing / unbalancing / crossing deposits); "
    "every oracle comparison (fee range, fee rule, amount, wallet move, holding, round trip, reward, over-redemption) "
    "is one evaluation. Non-trivial = an accepted operation with a non-zero amount; distinct by (version, op, "
    "token decimals, deviation-from-target class, fee-rule branch, fee class, amount class) for v1 and by (op, side, "
    "impact sign, same-side/crossover, capped?, virtual inventory used?, pool balance class, impact-pool class, "
    "amount class, config class) for v2.",
    "assumptions": [
        "v1 amounts: |observed - Vault rule| <= 1 bp of the fee-less (gross) amount + 2 wei of the output + the value "
        "of 2 wei of the input token: the statement lets the fee differ from the rule by up to 1 bp, and a fee off by "
        "1 bp moves the amount by 1 bp of the gross amount (1.0086 bp of the net amount at the 85 bp fee); the code "
        "works on un-floored token amounts (demeter returns 84 bp where the rule caps at 85: int(60 * t / t) in "
        "Decimal prec 35 is 59)",
        "v1 fee rule: the Vault rule jumps (by up to 85 bp) where a move stops improving the balance; demeter keeps "
        "the fraction of a wei of weight * supply / total weights that the contract floors away, so within 1 wei of "
        "such a jump it may sit on the other side.  The code's fee / amount must agree (to 1 bp) with the rule "
        "evaluated at some input within 2 wei of the USDG delta and 1 wei of the (non-zero) target "
        "(oracles.gmx.fee_envelope); everywhere else the envelope is the single rule value",
        "v1 amounts for the fee the code itself reports: never above the exact unrounded formula, and below it by at "
        "most the rounding quanta of the chain (3 wei + 2 USDG wei + 2 token wei, all in output units)",
        "v1 fee is read from the public get_fee_basis_points(token, usdg, increase) at the same bar (a pure function of "
        "the bar) and, independently, implied by the amounts through the Vault-rule comparison",
        "v1 amounts are generated as whole numbers of token wei / GLP wei (what the chain can represent)",
        "v1 reward of a bar = data.interval (tokens per second) * 60 s * held / supply, holdings as of update(); "
        "1-minute bars",
        "v1 pool state = the bar's row, unchanged by the user's own trades (demeter replays history)",
        "all listed tokens of the pool are registered on the market (total weight = sum over registered tokens)",
        "v2: tolerance 1e-9 relative plus the oracle's bound on what a binary64 evaluation of the impact formula may "
        "be off by (pool values rounded to 2^-52 relative, then squared and subtracted: cancellation when a deposit is "
        "tiny against the pool imbalance), carried through to the minted amount at supply / poolValue",
        "v2: when the real-pool impact is smaller than that bound binary64 cannot resolve its sign (which selects the "
        "fee factor and whether the virtual inventory is consulted): the code's reported impact must be within the "
        "bound of the real-pool impact or of the worse of real and virtual, and fees / minted amount are then demanded "
        "exactly for the impact the code reported",
        "v2: deposits whose negative price impact exceeds what is left of a deposited side after fees are not issued "
        "(the contract reverts them in unsigned arithmetic; the statement says nothing about them; demeter mints a "
        "negative GM amount); the same for dust deposits smaller than the binary64 rounding noise of the impact "
        "formula on that pool (the noise alone can exceed the deposit)",
        "the harness tops the wallet up when a generated v1 buy exceeds it (insufficient balance is a legitimate "
        "rejection, not under test here)",
        "v2: each deposited side's positive impact is capped separately by the bar's single impactPoolAmount "
        "(demeter has one impact-pool column)",
        "v2 fee / impact factors are the ones configured on market.pool_config (defaults or harness-set values); the "
        "impact exponent is 2",
        "v2 round trip is compared in USD at the bar's prices (GM redeems into both tokens)",
        "wallet arithmetic may round at the Decimal context precision (1e-33 relative to the balance)",
    ],
}
NSHARDS = 16
BP = Fraction(1, 10000)
WALLET = Decimal(10) ** 9
REAL_TOKENS = (("btc.b", 8), ("weth", 18), ("wbtc", 8), ("wavax", 18), ("mim", 18), ("usdc.e", 6), ("usdc", 6))
KNOWN_SITE = "positive-price-impact>fees"


def plan(tier, seed):
    n = 500 if tier == "quick" else 7020
    return [{"shard": i, "cases": n} for i in range(NSHARDS)]


def F(x):
    if isinstance(x, Fraction):
        return x
    if isinstance(x, float):
        return Fraction(x)
    if isinstance(x, int):
        return Fraction(x)
    return Fraction(str(x))


def _fl(x):
    try:
        return float(x)
    except Exception:
        return repr(x)


# ------------------------------------------------------------------------------------------------ run
def run(spec, mon):
    for c in range(spec["cases"]):
        rng = mon.case_rng(c)
        if not mon.want(c):
            continue
        kind = ("v1", "v2", "v1", "v2", "v1real", "v2", "v1bars", "v2cfg", "v1", "v2", "v1act", "v2act", "v1real")[c % 13]
        try:
            if kind == "v1":
                case_v1(mon, rng, c, real=False)
            elif kind == "v1real":
                case_v1(mon, rng, c, real=True)
            elif kind == "v1bars":
                case_v1_bars(mon, rng, c)
            elif kind == "v1act":
                case_v1_actuator(mon, rng, c)
            elif kind == "v2":
                case_v2(mon, rng, c, custom_cfg=False)
            elif kind == "v2cfg":
                case_v2(mon, rng, c, custom_cfg=True)
            elif kind == "v2act":
                case_v2_actuator(mon, rng, c)
        except Exception as e:  # the harness or the code crashed outside a monitored call
            import traceback

            mon.violation(kind[:2] == "v1" and "gmx" or "gmx2", "sequence", "unexpected-exception", Dr.reject_site(e),
                          traceback.format_exc()[-1500:])


# ================================================================================================ v1
_REAL = {}


def real_data():
    """The two avalanche days, read through demeter's own loader (cache stubbed by env)."""
    if "df" not in _REAL:
        from datetime import date

        from demeter import ChainType, MarketInfo, MarketTypeEnum, TokenInfo
        from demeter.gmx import GmxMarket

        from .. import env

        toks = [TokenInfo(n, d) for n, d in REAL_TOKENS]
        m = GmxMarket(MarketInfo("gmx-loader", MarketTypeEnum.gmx_v1), tokens=toks, data_path=env.TESTDATA)
        m.load_data(ChainType.avalanche, date(2024, 10, 15), date(2024, 10, 16))
        _REAL["df"] = m.data
        _REAL["tokens"] = toks
    return _REAL["df"], _REAL["tokens"]


def v1_state(row, tok, tokens):
    nm = tok.name.lower()
    tw = sum(int(row[f"{t.name.lower()}_weight"]) for t in tokens)
    return G.V1State(
        price=int(row[f"{nm}_price"]), decimals=tok.decimal, usdg_amount=int(row[f"{nm}_usdg"]),
        weight=int(row[f"{nm}_weight"]), total_weights=tw, usdg_supply=int(row["usdg"]), aum=int(row["aum"]),
        glp_supply=int(row["glp"]),
    )


def dev_class(st):
    t = st.target
    if t == 0:
        return "zero-target"
    a = st.usdg_amount
    if a == 0:
        return "empty"
    if a == t:
        return "at"
    r = a / t
    if abs(a - t) <= 2:
        return "at+-wei"
    if r < 0.5:
        return "far-below"
    if r < 0.97:
        return "below"
    if r < 1.0:
        return "near-below"
    if r <= 1.03:
        return "near-above"
    if r <= 2.0:
        return "above"
    return "far-above"


def fee_class(f):
    f = float(f)
    if f <= 0:
        return "0"
    if f < 25:
        return "rebate"
    if f == 25:
        return "base"
    if f < 85:
        return "taxed"
    return "max"


def amt_class(usdg, st):
    """size of a USDG delta against the pool"""
    if usdg < 10**6:
        return "dust"
    if usdg < 10**16:
        return "sub-cent"
    ref = st.target if st.target > 0 else max(1, st.usdg_supply // 100)
    r = usdg / ref
    if r < 1e-5:
        return "tiny"
    if r < 1e-3:
        return "small"
    if r < 0.03:
        return "1%"
    if r < 0.3:
        return "10%"
    if r < 1.5:
        return "100%"
    return "huge"


def token_wei_for_usdg(st, usdg):
    """token wei whose USDG value is about `usdg` wei"""
    return max(1, usdg * G.PRICE_PRECISION * 10**st.decimals // (st.price * 10**18))


def glp_wei_for_usdg(st, usdg):
    return max(1, usdg * st.glp_supply // max(1, st.aum_in_usdg))


def pick_usdg_delta(rng, st, improving_side: bool):
    """A USDG delta sized against the pool state.  improving_side: the delta moves the token toward its target."""
    t = st.target
    gap = abs(st.usdg_amount - t)
    ref = t if t > 0 else max(10**18, st.usdg_supply // 100)
    k = rng.random()
    if k < 0.10:
        return rng.randint(1, 3000), "wei"
    if k < 0.18:
        return rng.randint(10**6, 10**18), "tiny"
    if k < 0.30:
        return int(ref * 10 ** rng.uniform(-6, -3)), "small"
    if k < 0.42:
        return int(ref * rng.uniform(0.005, 0.12)), "pct"
    if k < 0.50:
        return int(ref * rng.uniform(0.5, 3.0)), "huge"
    if gap > 2 and t > 0:
        j = rng.random()
        if j < 0.35:
            return max(1, int(gap * rng.uniform(0.05, 0.95))), "gap-frac"
        if j < 0.55:
            return max(1, gap + rng.choice([0, 0, -1, 1, -2, 2])), "gap-exact"
        if j < 0.75:
            return max(1, int(gap * rng.uniform(1.02, 1.98))), "gap-cross"
        if j < 0.85:
            return max(1, 2 * gap + rng.choice([-1, 0, 1])), "gap-mirror"
        return max(1, int(gap * rng.uniform(2.05, 6))), "gap-overshoot"
    return int(ref * 10 ** rng.uniform(-4, -1)), "rel"


class V1Ctx:
    def __init__(self, mon, m, fz, tokens, label):
        self.mon, self.m, self.fz, self.tokens, self.label = mon, m, fz, tokens, label
        self.held = Fraction(0)  # GLP units, ledger of accepted mints / burns as returned
        self.reward = Fraction(0)
        self.row = None
        self.topup = {}  # token name -> what the harness added to the wallet so that a generated buy is affordable

    def wallet(self):
        return {k.name: v.balance for k, v in self.fz.broker.assets.items()}


def wallet_ok(before: Decimal, after: Decimal, delta: Fraction):
    return abs(F(after) - F(before) - delta) <= max(abs(F(before)), abs(F(after)), 1) * Fraction(1, 10**33)


def v1_code_fee(ctx, tok, usdg, increase):
    """The fee the code reports for this USDG delta at this bar (public anchored method).  None if unavailable."""
    fn = getattr(ctx.m, "get_fee_basis_points", None)
    if fn is None:
        return None
    r = Dr.call_op(fn, tok, Decimal(usdg), increase)
    if not r.ok:
        ctx.mon.violation("gmx", "get_fee_basis_points", "raises", r.site or type(r.exc).__name__, repr(r.exc)[:300])
        return None
    try:
        return F(r.ret)
    except Exception:
        return None


def _note_weights(ctx, st):
    """reach counter: a fee is computed on a market object that computed one earlier under another weight total"""
    last = getattr(ctx, "last_tw", None)
    if last is not None and last != st.total_weights:
        ctx.mon.hit("v1-op-after-total-weights-changed")
    ctx.last_tw = st.total_weights


def v1_buy(ctx, tok, token_wei, tag=""):
    """buy_glp(tok, token_wei) with every clause checked.  Returns the OpResult (ret = GLP units)."""
    mon, m = ctx.mon, ctx.m
    st = v1_state(ctx.row, tok, ctx.tokens)
    _note_weights(ctx, st)
    amount = Decimal(token_wei) / Decimal(10**tok.decimal)
    exp = G.add_liquidity(st, token_wei)
    path = G.fee_path(st.usdg_amount, exp["usdg"], st.target, True)
    rule_fees = G.fee_envelope(st.usdg_amount, exp["usdg"], st.target, True) | {exp["fee_bps"]}
    if ctx.fz.broker.get_token_balance(tok) < amount:
        ctx.fz.broker.add_to_balance(tok, amount)
        ctx.topup[tok.name] = ctx.topup.get(tok.name, Fraction(0)) + F(amount)
        mon.cls("v1/wallet-topped-up")
    wb = ctx.wallet()
    held_before = F(m.glp_amount)
    n_act = len(ctx.fz.actions)
    res = Dr.call_op(m.buy_glp, tok, amount)
    if not res.ok:
        mon.violation("gmx", "buy_glp", "raises", res.site or type(res.exc).__name__,
                      f"{ctx.label}: buy_glp({tok.name}, {amount}) raised {res.exc!r}; state {dev_class(st)}")
        return res
    mon.hit("buy_glp")
    got_wei = F(res.ret) * 10**18
    dcls, acls = dev_class(st), amt_class(exp["usdg"], st)
    info = {"token": tok.name, "dec": tok.decimal, "token_wei": token_wei, "usdg": exp["usdg"], "target": st.target,
            "pool_usdg": st.usdg_amount, "fee_rule": exp["fee_bps"], "glp_rule_wei": exp["glp_wei"],
            "glp_got_wei": _fl(got_wei), "path": path}
    # --- fee
    fc = v1_code_fee(ctx, tok, exp["usdg"], True)
    if fc is not None:
        mon.ev()
        if not (0 <= fc <= G.MAX_FEE_BPS):
            mon.violation("gmx", "buy_glp", "fee-range", path, f"{ctx.label}: fee {float(fc)} bp outside [0, 85]; {info}", info)
        mon.ev()
        if min(abs(fc - f) for f in rule_fees) > 1:
            mon.violation("gmx", "buy_glp", "fee-rule", path,
                          f"{ctx.label}: code fee {float(fc):.4f} bp, Vault rule {exp['fee_bps']} bp "
                          f"(rule within 2 wei of the inputs: {sorted(rule_fees)}) ({dcls}); {info}", info)
    # --- amount against the Vault rule (fee included): a fee off by 1 bp moves the amount by 1 bp of the fee-less amount
    gross = G.add_liquidity_exact(st, token_wei, 0)
    quantum = 2 + 2 * G.token_wei_in_glp_wei(st)
    mon.ev()
    if all(abs(got_wei - G.add_liquidity(st, token_wei, f)["glp_wei"]) > BP * gross + quantum for f in rule_fees):
        mon.violation("gmx", "buy_glp", "mint-amount", "vs-vault-rule/" + ("dec18" if tok.decimal == 18 else "dec!=18"),
                      f"{ctx.label}: minted {_fl(got_wei)} GLP wei, rule {exp['glp_wei']}; {info}", info)
    # --- implied fee range: never more than the fee-less mint, never less than the 85 bp mint
    mon.ev()
    if got_wei > gross * (1 + Fraction(1, 10**30)) or got_wei < gross * (1 - G.MAX_FEE_BPS * BP) - quantum - 2 * F(st.glp_supply) / st.aum_in_usdg - 3:
        mon.violation("gmx", "buy_glp", "fee-range", "implied-by-amount",
                      f"{ctx.label}: minted {_fl(got_wei)} vs fee-less {_fl(gross)} (implied fee outside [0,85] bp); {info}", info)
    # --- amount for the code's own fee: the chain of round-downs
    if fc is not None:
        exact = G.add_liquidity_exact(st, token_wei, fc)
        slack = 3 + 2 * F(st.glp_supply) / st.aum_in_usdg + 2 * G.token_wei_in_glp_wei(st)
        mon.ev()
        if got_wei > exact * (1 + Fraction(1, 10**30)) + Fraction(1, 10**6):
            mon.violation("gmx", "buy_glp", "mint-amount", "above-unrounded-formula",
                          f"{ctx.label}: minted {_fl(got_wei)} > exact {_fl(exact)} for fee {float(fc)}; {info}", info)
        elif exact - got_wei > slack + exact * Fraction(1, 10**30):
            mon.violation("gmx", "buy_glp", "mint-amount", "below-rounding-quanta",
                          f"{ctx.label}: minted {_fl(got_wei)} < exact {_fl(exact)} - quanta for fee {float(fc)}; {info}", info)
    # --- moves: wallet pays exactly the amount, holding grows by exactly what was returned
    wa = ctx.wallet()
    for name in wb:
        d = -F(amount) if name == tok.name else Fraction(0)
        mon.ev()
        if not wallet_ok(wb[name], wa[name], d):
            mon.violation("gmx", "buy_glp", "wallet-move", "paid-token" if name == tok.name else "other-token",
                          f"{ctx.label}: wallet {name} moved {wa[name] - wb[name]}, expected {_fl(d)}; {info}")
    mon.ev()
    if abs(F(m.glp_amount) - held_before - F(res.ret)) > Fraction(1, 10**24):
        mon.violation("gmx", "buy_glp", "holding-move", "", f"{ctx.label}: holding {held_before} -> {m.glp_amount}, returned {res.ret}")
    ctx.held += F(res.ret)
    new = ctx.fz.actions[n_act:] if ctx.fz is not None and hasattr(ctx.fz, "actions") else None
    if new is not None:
        mon.ev()
        if len(new) != 1 or getattr(new[0], "token", None) != tok.name or F(getattr(new[0], "token_amount", 0)) != F(amount):
            mon.violation("gmx", "buy_glp", "action-record", "", f"{ctx.label}: records {new!r} for buy {tok.name} {amount}")
    if token_wei > 0:
        mon.nt(f"v1/buy/{ctx.label}/{tok.decimal}/{dcls}/{path}/{fee_class(exp['fee_bps'])}/{acls}")
        mon.cls(f"v1/buy/{path}/{fee_class(exp['fee_bps'])}")
        mon.cls(f"v1/dec{tok.decimal}")
        mon.sample({"v1": "buy", **info, "fee_code": _fl(fc) if fc is not None else None}, cls=f"b/{path}/{tok.decimal}")
    return res


def v1_sell(ctx, tok, glp_wei, all_=False, tag=""):
    mon, m = ctx.mon, ctx.m
    st = v1_state(ctx.row, tok, ctx.tokens)
    _note_weights(ctx, st)
    held_before = F(m.glp_amount)
    if all_:
        glp_wei_f = held_before * 10**18
        arg = Decimal(0)
    else:
        glp_wei_f = Fraction(glp_wei)
        arg = Decimal(glp_wei) / Decimal(10**18)
    glp_int = int(glp_wei_f)  # holdings are whole wei (mints are floored to wei)
    exp = G.remove_liquidity(st, glp_int)
    path = G.fee_path(st.usdg_amount, exp["usdg"], st.target, False)
    rule_fees = G.fee_envelope(st.usdg_amount, exp["usdg"], st.target, False) | {exp["fee_bps"]}
    wb = ctx.wallet()
    n_act = len(ctx.fz.actions)
    res = Dr.call_op(m.sell_glp, tok, arg)
    if not res.ok:
        mon.violation("gmx", "sell_glp", "raises", res.site or type(res.exc).__name__,
                      f"{ctx.label}: sell_glp({tok.name}, {arg}) holding {m.glp_amount} raised {res.exc!r}")
        return res
    mon.hit("sell_glp")
    got_wei = F(res.ret) * 10**tok.decimal
    dcls, acls = dev_class(st), amt_class(exp["usdg"], st)
    info = {"token": tok.name, "dec": tok.decimal, "glp_wei": glp_int, "usdg": exp["usdg"], "target": st.target,
            "pool_usdg": st.usdg_amount, "fee_rule": exp["fee_bps"], "out_rule_wei": exp["token_wei"],
            "out_got_wei": _fl(got_wei), "path": path}
    fc = v1_code_fee(ctx, tok, exp["usdg"], False)
    if fc is not None:
        mon.ev()
        if not (0 <= fc <= G.MAX_FEE_BPS):
            mon.violation("gmx", "sell_glp", "fee-range", path, f"{ctx.label}: fee {float(fc)} bp outside [0, 85]; {info}", info)
        mon.ev()
        if min(abs(fc - f) for f in rule_fees) > 1:
            mon.violation("gmx", "sell_glp", "fee-rule", path,
                          f"{ctx.label}: code fee {float(fc):.4f} bp, Vault rule {exp['fee_bps']} bp "
                          f"(rule within 2 wei of the inputs: {sorted(rule_fees)}) ({dcls}); {info}", info)
    gross = G.remove_liquidity_exact(st, glp_int, 0)
    quantum = 2 + 2 * G.usdg_wei_in_token_wei(st)
    mon.ev()
    if all(abs(got_wei - G.remove_liquidity(st, glp_int, f)["token_wei"]) > BP * gross + quantum for f in rule_fees):
        mon.violation("gmx", "sell_glp", "redeem-amount", "vs-vault-rule/" + ("dec18" if tok.decimal == 18 else "dec!=18"),
                      f"{ctx.label}: redeemed {_fl(got_wei)} token wei, rule {exp['token_wei']}; {info}", info)
    mon.ev()
    if got_wei > gross * (1 + Fraction(1, 10**30)) + Fraction(1, 10**6) or got_wei < gross * (1 - G.MAX_FEE_BPS * BP) - quantum - 3:
        mon.violation("gmx", "sell_glp", "fee-range", "implied-by-amount",
                      f"{ctx.label}: redeemed {_fl(got_wei)} vs fee-less {_fl(gross)} (implied fee outside [0,85] bp); {info}", info)
    if fc is not None:
        exact = G.remove_liquidity_exact(st, glp_int, fc)
        slack = 3 + 2 * G.usdg_wei_in_token_wei(st)
        mon.ev()
        if got_wei > exact * (1 + Fraction(1, 10**30)) + Fraction(1, 10**6):
            mon.violation("gmx", "sell_glp", "redeem-amount", "above-unrounded-formula",
                          f"{ctx.label}: redeemed {_fl(got_wei)} > exact {_fl(exact)} for fee {float(fc)}; {info}", info)
        elif exact - got_wei > slack + exact * Fraction(1, 10**30):
            mon.violation("gmx", "sell_glp", "redeem-amount", "below-rounding-quanta",
                          f"{ctx.label}: redeemed {_fl(got_wei)} < exact {_fl(exact)} - quanta for fee {float(fc)}; {info}", info)
    wa = ctx.wallet()
    for name in wb:
        d = F(res.ret) if name == tok.name else Fraction(0)
        mon.ev()
        if not wallet_ok(wb[name], wa[name], d):
            mon.violation("gmx", "sell_glp", "wallet-move", "received-token" if name == tok.name else "other-token",
                          f"{ctx.label}: wallet {name} moved {wa[name] - wb[name]}, expected {_fl(d)}; {info}")
    mon.ev()
    sold = glp_wei_f / 10**18
    if abs(held_before - F(m.glp_amount) - sold) > Fraction(1, 10**24):
        mon.violation("gmx", "sell_glp", "holding-move", "", f"{ctx.label}: holding {held_before} -> {m.glp_amount}, sold {_fl(sold)}")
    mon.ev()
    if F(m.glp_amount) < 0:
        mon.violation("gmx", "sell_glp", "over-redemption", "negative-holding", f"{ctx.label}: holding {m.glp_amount} after selling {_fl(sold)}")
    ctx.held -= sold
    new = ctx.fz.actions[n_act:]
    mon.ev()
    if len(new) != 1 or getattr(new[0], "token", None) != tok.name or F(getattr(new[0], "token_out", 0)) != F(res.ret):
        mon.violation("gmx", "sell_glp", "action-record", "", f"{ctx.label}: records {new!r} for sell {tok.name}")
    if glp_int > 0:
        mon.nt(f"v1/sell/{ctx.label}/{tok.decimal}/{dcls}/{path}/{fee_class(exp['fee_bps'])}/{acls}")
        mon.cls(f"v1/sell/{path}/{fee_class(exp['fee_bps'])}")
        mon.sample({"v1": "sell", **info, "fee_code": _fl(fc) if fc is not None else None}, cls=f"s/{path}/{tok.decimal}")
    return res


def v1_oversell(ctx, tok, rng):
    """more GLP than held must not be redeemable"""
    mon, m = ctx.mon, ctx.m
    held = Decimal(m.glp_amount)
    kind = rng.choice(["+1wei", "x2", "+1ppb", "huge"])
    if kind == "+1wei":
        x = held + Decimal(1) / Decimal(10**18)
    elif kind == "x2":
        x = held * 2 if held > 0 else Decimal(1)
    elif kind == "+1ppb":
        x = held * (Decimal(1) + Decimal(10) ** -9) if held > 0 else Decimal(10) ** -9
    else:
        x = held + Decimal(10) ** 9
    wb = ctx.wallet()
    res = Dr.call_op(m.sell_glp, tok, x)
    mon.ev()
    mon.hit("oversell_glp")
    state = "holding" if held > 0 else "empty"
    if res.ok:
        mon.violation("gmx", "sell_glp", "over-redemption", f"accepted/{state}",
                      f"{ctx.label}: held {held}, sell_glp({tok.name}, {x}) accepted and paid {res.ret}; holding now {m.glp_amount}")
        ctx.held = F(m.glp_amount)
    else:
        wa = ctx.wallet()
        mon.ev()
        if F(m.glp_amount) != F(held) or any(wa[k] != wb[k] for k in wb):
            mon.violation("gmx", "sell_glp", "over-redemption", f"rejected-but-paid/{state}",
                          f"{ctx.label}: rejected sell of {x} (held {held}) changed holding/wallet: {m.glp_amount}, {wa} vs {wb}")
            ctx.held = F(m.glp_amount)
    mon.nt(f"v1/oversell/{kind}/{state}/{tok.decimal}")
    mon.cls(f"v1/oversell/{'rejected' if not res.ok else 'ACCEPTED'}")


def v1_balance_check(ctx, where):
    mon, m = ctx.mon, ctx.m
    r = Dr.call_op(m.get_market_balance)
    if not r.ok:
        mon.violation("gmx", "get_market_balance", "raises", r.site or type(r.exc).__name__, repr(r.exc)[:300])
        return
    b = r.ret
    mon.ev()
    if abs(F(b.glp) - ctx.held) > Fraction(1, 10**24) or F(b.glp) < 0:
        mon.violation("gmx", "get_market_balance", "holding-vs-ledger", where,
                      f"{ctx.label}: GmxBalance.glp {b.glp}, ledger of returned mints/burns {_fl(ctx.held)}")
    mon.ev()
    if abs(F(b.reward) - ctx.reward) > abs(ctx.reward) * Fraction(1, 10**28) + Fraction(1, 10**40):
        mon.violation("gmx", "update", "reward-pro-rata", where,
                      f"{ctx.label}: GmxBalance.reward {b.reward}, expected sum interval*60*held/supply = {_fl(ctx.reward)}")


def v1_round_trip(ctx, tok, rng, sizing):
    """buy k times with tok, sell everything back into tok in m parts: never more than was paid."""
    mon, m = ctx.mon, ctx.m
    if F(m.glp_amount) != 0:
        r0 = v1_sell(ctx, rng.choice(ctx.tokens), 0, all_=True)
        if not r0.ok:
            return
    st = v1_state(ctx.row, tok, ctx.tokens)
    w0 = ctx.wallet()[tok.name]
    top0 = ctx.topup.get(tok.name, Fraction(0))
    nbuy = rng.choice([1, 1, 1, 2, 3])
    paid = Fraction(0)
    sizes = []
    for _ in range(nbuy):
        usdg, cl = sizing()
        tw = token_wei_for_usdg(st, max(1, usdg))
        r = v1_buy(ctx, tok, tw)
        if not r.ok:
            return
        paid += Fraction(tw, 10**tok.decimal)
        sizes.append(cl)
    nsell = rng.choice([1, 1, 2, 3])
    got = Fraction(0)
    for j in range(nsell):
        held_wei = int(F(m.glp_amount) * 10**18)
        if held_wei <= 0:
            break
        if j == nsell - 1:
            r = v1_sell(ctx, tok, 0, all_=True)
        else:
            part = max(1, held_wei * rng.randint(1, 90) // 100)
            r = v1_sell(ctx, tok, part)
        if not r.ok:
            return
        got += F(r.ret)
    mon.ev()
    mon.hit("v1_round_trip")
    dcls = dev_class(st)
    if got > paid:
        mon.violation("gmx", "buy_glp+sell_glp", "round-trip-profit", f"returned>paid/{'dec18' if tok.decimal == 18 else 'dec!=18'}",
                      f"{ctx.label}: paid {_fl(paid)} {tok.name} in {nbuy} buys, got back {_fl(got)} in {nsell} sells ({dcls}, sizes {sizes})",
                      {"token": tok.name, "paid": str(paid), "got": str(got), "state": dcls})
    w1 = ctx.wallet()[tok.name]
    mon.ev()
    if F(w1) - F(w0) - (ctx.topup.get(tok.name, Fraction(0)) - top0) > max(abs(F(w0)), abs(F(w1)), 1) * Fraction(1, 10**33):
        mon.violation("gmx", "buy_glp+sell_glp", "round-trip-profit", "wallet-grew",
                      f"{ctx.label}: wallet {tok.name} {w0} -> {w1} over a same-token round trip ({dcls})")
    loss_bp = float((paid - got) / paid / BP) if paid > 0 else 0.0
    lcls = "loss<1bp" if loss_bp < 1 else ("loss<50bp" if loss_bp < 50 else ("loss<=170bp" if loss_bp <= 170.5 else "loss>170bp"))
    mon.nt(f"v1/rt/{ctx.label}/{tok.decimal}/{dcls}/{'+'.join(sorted(set(sizes)))}/{nbuy}x{nsell}/{lcls}")
    mon.cls(f"v1/rt/{lcls}")


def _v1_world(rng, n, real):
    """(market, tokens, data index, price frame, label)"""
    if real:
        from demeter import MarketInfo, MarketTypeEnum
        from demeter.gmx import GmxMarket

        df, toks = real_data()
        start = rng.randint(0, len(df.index) - n - 1)
        sub = df.iloc[start:start + n].copy()
        m = GmxMarket(MarketInfo("gmx", MarketTypeEnum.gmx_v1), tokens=list(toks))
        m.data = sub
        import pandas as pd

        prices = pd.DataFrame(index=sub.index)
        for t in toks:
            prices[t.name] = sub[f"{t.name.lower()}_price"].apply(lambda r: Decimal(int(r)) / Decimal(10**30))
        return m, list(toks), list(sub.index), prices, "real"
    w = W.GmxWorld(rng, n=n)
    # sharpen some pool states beyond what the world generator offers: exactly at target, +-1 wei, empty
    toks = list(w.tokens)
    tw = sum(int(w.data.iloc[0][f"{t.name.lower()}_weight"]) for t in toks)
    for i in range(len(w.data.index)):
        for t in toks:
            if rng.random() < 0.12:
                nm = t.name.lower()
                tgt = G.target_usdg_amount(int(w.data.iloc[i][f"{nm}_weight"]), tw, int(w.data.iloc[i]["usdg"]))
                v = rng.choice([tgt, tgt + 1, max(0, tgt - 1), 0, tgt + rng.randint(-10**12, 10**12)])
                w.data.iat[i, w.data.columns.get_loc(f"{nm}_usdg")] = Decimal(max(0, v))
    m = w.market()
    return m, toks, list(w.index), w.prices(), "synth"


def case_v1(mon, rng, c, real):
    m, toks, index, prices, label = _v1_world(rng, 2, real)
    fz = Dr.Frozen([m], prices.iloc[0], None, {t: WALLET for t in toks}, index[0])
    ctx = V1Ctx(mon, m, fz, toks, label)
    ctx.row = m.data.iloc[0]
    nrt = rng.randint(3, 6)
    for _ in range(nrt):
        tok = rng.choice(toks)
        st = v1_state(ctx.row, tok, toks)
        k = rng.random()
        if k < 0.55:
            v1_round_trip(ctx, tok, rng, lambda: pick_usdg_delta(rng, st, st.usdg_amount < st.target))
        elif k < 0.9:
            # fund with any token, then sells sized against tok's gap
            other = rng.choice(toks)
            so = v1_state(ctx.row, other, toks)
            fund = int((st.target or st.usdg_supply // 50) * rng.uniform(0.5, 4)) + 10**18
            r = v1_buy(ctx, other, token_wei_for_usdg(so, fund))
            if not r.ok:
                continue
            for _ in range(rng.randint(1, 4)):
                held_wei = int(F(m.glp_amount) * 10**18)
                if held_wei <= 0:
                    break
                usdg, cl = pick_usdg_delta(rng, st, st.usdg_amount > st.target)
                gw = min(held_wei, glp_wei_for_usdg(st, max(1, usdg)))
                v1_sell(ctx, tok, gw)
            if rng.random() < 0.5:
                v1_oversell(ctx, rng.choice(toks), rng)
        else:
            v1_oversell(ctx, tok, rng)
        v1_balance_check(ctx, "frozen")


def case_v1_bars(mon, rng, c):
    """rewards over many bars (market stepped bar by bar, update() once per bar like the Actuator does), with buys
    and sells in between"""
    real = rng.random() < 0.4
    n = rng.choice([6, 40, 120, 300])
    m, toks, index, prices, label = _v1_world(rng, n, real)
    fz = Dr.Frozen([m], prices.iloc[0], None, {t: WALLET for t in toks}, index[0])
    ctx = V1Ctx(mon, m, fz, toks, label + "-bars")
    p_op = rng.choice([0.05, 0.2, 0.6])
    bars_held = 0
    for i in range(n):
        fz.set_bar(index[i], prices.iloc[i])
        ctx.row = m.data.iloc[i]
        if i == 0 or rng.random() < p_op:
            tok = rng.choice(toks)
            st = v1_state(ctx.row, tok, toks)
            if F(m.glp_amount) > 0 and rng.random() < 0.45:
                held_wei = int(F(m.glp_amount) * 10**18)
                if rng.random() < 0.3:
                    v1_sell(ctx, tok, 0, all_=True)
                else:
                    v1_sell(ctx, tok, max(1, held_wei * rng.randint(1, 99) // 100))
            else:
                usdg, _ = pick_usdg_delta(rng, st, True)
                v1_buy(ctx, tok, token_wei_for_usdg(st, max(1, usdg)))
        r = Dr.call_op(m.update)
        if not r.ok:
            mon.violation("gmx", "update", "raises", r.site or type(r.exc).__name__, repr(r.exc)[:300])
            return
        ctx.reward += G.reward_increment(F(float(ctx.row["interval"])), 60, ctx.held, int(ctx.row["glp"]))
        if ctx.held > 0:
            bars_held += 1
        if i % 7 == 0 or i == n - 1:
            v1_balance_check(ctx, "stepped")
            if ctx.held > 0:
                mon.hit("reward_checked_with_holding")
    mon.nt(f"v1/reward/{label}/n{n}/p{p_op}/held{min(5, bars_held * 5 // max(1, n))}")
    mon.cls(f"v1/reward/bars{n}")


def case_v1_actuator(mon, rng, c):
    """the same through the real Actuator.run: ops in on_bar/before_bar, update() by the bar loop"""
    real = rng.random() < 0.5
    n = rng.choice([5, 12, 30])
    m, toks, index, prices, label = _v1_world(rng, n, real)
    label += "-act"
    plan_ops = {}
    for i in range(n):
        if i == 0 or rng.random() < 0.35:
            plan_ops[i] = (rng.choice(["before_bar", "on_bar", "after_bar"]), rng.random(), rng.random(), rng.randrange(len(toks)))

    class Obs:
        def __init__(self):
            self.ctx = None
            self.acted = {}

        def _ctx(self, strat):
            if self.ctx is None:
                fzlike = type("FZ", (), {})()
                fzlike.broker = strat.broker
                fzlike.actions = actions
                self.ctx = V1Ctx(mon, m, fzlike, toks, label)
            return self.ctx

        def _do(self, strat, snap, phase):
            i = strat.bar
            if i not in plan_ops or plan_ops[i][0] != phase:
                return
            ctx = self._ctx(strat)
            ctx.row = m.data.iloc[i]
            _, r1, r2, ti = plan_ops[i]
            tok = toks[ti]
            st = v1_state(ctx.row, tok, toks)
            lrng = __import__("random").Random(r1)
            if F(m.glp_amount) > 0 and r2 < 0.45:
                held_wei = int(F(m.glp_amount) * 10**18)
                v1_sell(ctx, tok, max(1, held_wei * lrng.randint(1, 100) // 100))
            else:
                usdg, _ = pick_usdg_delta(lrng, st, True)
                v1_buy(ctx, tok, token_wei_for_usdg(st, max(1, usdg)))

        def before_bar(self, strat, snap):
            self._do(strat, snap, "before_bar")

        def on_bar(self, strat, snap):
            self._do(strat, snap, "on_bar")

        def after_bar(self, strat, snap):
            ctx = self._ctx(strat)
            i = strat.bar
            row = m.data.iloc[i]
            # update() of this bar ran before after_bar, with the holding as of then
            ctx.reward += G.reward_increment(F(float(row["interval"])), 60, ctx.held, int(row["glp"]))
            v1_balance_check(ctx, "actuator")
            if ctx.held > 0:
                mon.hit("reward_checked_with_holding")
            self._do(strat, snap, "after_bar")

    actions = []
    obs = Obs()
    strat = Dr.make_script_strategy({}, obs)
    from demeter import TokenInfo

    quote = [t for t in toks if t.name in ("USDC", "MIM")][0]
    a = Dr.build_actuator([m], prices, quote, {t: WALLET for t in toks}, strat)
    orig = a.broker._record_action_callback if hasattr(a.broker, "_record_action_callback") else None

    def rec(action, _orig=m._record_action_callback):
        actions.append(action)
        if _orig is not None:
            _orig(action)

    m._record_action_callback = rec
    r = Dr.call_op(a.run, False)
    if not r.ok:
        mon.violation("gmx", "Actuator.run", "raises", r.site or type(r.exc).__name__, repr(r.exc)[:400])
        return
    mon.hit("v1_actuator_runs")
    mon.nt(f"v1/act/{label}/n{n}/ops{min(6, len(plan_ops))}")
    mon.cls("v1/actuator-run")


# ================================================================================================ v2
def _opt(x):
    # an empty field of the data file arrives as NaN: no figure, like None
    return None if x is None or x != x else float(x)


def v2_state(row):
    return G.V2State(
        float(row["longAmount"]), float(row["shortAmount"]), _opt(row["virtualSwapInventoryLong"]),
        _opt(row["virtualSwapInventoryShort"]), float(row["poolValue"]), float(row["marketTokensSupply"]),
        float(row["impactPoolAmount"]), float(row["longPrice"]), float(row["shortPrice"]),
    )


def v2_cfg_of(m):
    """the configuration the harness left / set on the market (values, not formulas)"""
    pc = m.pool_config
    return G.V2Config(
        exponent=pc.swapImpactExponentFactor, impact_pos=F(float(pc.swapImpactFactorPositive)),
        impact_neg=F(float(pc.swapImpactFactorNegative)),
        dep_fee_pos=F(float(pc.depositFeeFactorForPositiveImpact)), dep_fee_neg=F(float(pc.depositFeeFactorForNegativeImpact)),
        wd_fee_pos=F(float(pc.withdrawFeeFactorForPositiveImpact)), wd_fee_neg=F(float(pc.withdrawFeeFactorForNegativeImpact)),
    )


DEFAULT_CFG = dict(swapImpactExponentFactor=2, swapImpactFactorPositive=2e-10, swapImpactFactorNegative=4e-10,
                   depositFeeFactorForPositiveImpact=0.0005, depositFeeFactorForNegativeImpact=0.0007,
                   withdrawFeeFactorForPositiveImpact=0.0005, withdrawFeeFactorForNegativeImpact=0.0007)


def close(got, want, slack=Fraction(0), rel=Fraction(1, 10**9)):
    """|got - want| <= rel * |want| + slack (slack = the oracle's absolute float-evaluation bound, if any)"""
    got, want = F(float(got)), F(want)
    return abs(got - want) <= rel * abs(want) + F(slack) + Fraction(1, 10**300)


def bal_class(st):
    a, b = st.long_amount * st.long_price, st.short_amount * st.short_price
    r = float(a / b) if b else 99.0
    if 0.999 <= r <= 1.001:
        return "balanced"
    if r < 0.2:
        return "short>>long"
    if r < 1:
        return "short>long"
    if r <= 5:
        return "long>short"
    return "long>>short"


def ipool_class(st):
    x = float(st.impact_pool)
    return "none" if x == 0 else ("small" if x <= 1 else ("mid" if x <= 100 else "large"))


class V2Ctx:
    def __init__(self, mon, m, fz, label, cfgcls):
        self.mon, self.m, self.fz, self.label, self.cfgcls = mon, m, fz, label, cfgcls
        self.held = Fraction(0)
        self.row = None

    def wallet(self):
        return {k.name: v.balance for k, v in self.fz.broker.assets.items()}


def v2_deposit(ctx, la, sa, acls):
    """deposit(la, sa) checked against the model.  Returns (OpResult, model dict)."""
    mon, m = ctx.mon, ctx.m
    st, cfg = v2_state(ctx.row), v2_cfg_of(m)
    exp = G.deposit(cfg, st, la, sa)
    # Deposits the model has no prediction for are issued all the same, and may be refused or accepted, but an accepted
    # one mints a non-negative amount and moves exactly what it says (no negative holding, C03's clause as well):
    #  * exp["reverts"]: the negative price impact exceeds what is left of a deposited side after fees (the contract's
    #    unsigned arithmetic reverts; the statement says nothing about such a deposit);
    #  * dust below the float noise of the impact formula: binary64 may report an impact as low as the smallest
    #    admissible value minus the bound, and if that alone exceeds the deposit the same thing happens.
    worst = min(list(exp["info"]["candidates"]) + [exp["impact_usd"]]) - exp["err_usd"]
    dust = bool(G.deposit(cfg, st, la, sa, impact_override=worst)["reverts"])
    undetermined = bool(exp["reverts"]) or dust
    wb = ctx.wallet()
    held_before = F(float(m.amount))
    n_act = len(ctx.fz.actions)
    res = Dr.call_op(m.deposit, la, sa)
    side = "both" if la > 0 and sa > 0 else ("long" if la > 0 else "short")
    if not res.ok:
        from demeter import DemeterError

        if undetermined and isinstance(res.exc, DemeterError):
            mon.ev()
            mon.hit("deposit-refused-undetermined")
            mon.cls("v2/dep/refused:" + ("negative-impact>deposit" if exp["reverts"] else "deposit-below-float-noise-of-impact"))
            if F(float(m.amount)) != held_before or ctx.wallet() != wb or len(ctx.fz.actions) != n_act:
                mon.violation("gmx2", "deposit", "refused-but-moved", "undetermined", f"{ctx.label}: deposit({la}, {sa}) refused ({res.exc!r}) "
                              f"but holding {m.amount} (was {_fl(held_before)}), wallet {ctx.wallet()} (was {wb})")
            return res, exp
        mon.violation("gmx2", "deposit", "raises", res.site or type(res.exc).__name__,
                      f"{ctx.label}: deposit({la}, {sa}) raised {res.exc!r}")
        return res, exp
    mon.hit("deposit")
    r = res.ret
    mon.ev()
    if float(r.gm_amount) < 0 or float(m.amount) < 0:
        mon.violation("gmx2", "deposit", "negative-mint", ("negative-impact>deposit" if exp["reverts"] else "dust") if undetermined else "plain",
                      f"{ctx.label}: deposit({la}, {sa}) accepted, minted {r.gm_amount} GM, holding now {m.amount}")
    if undetermined:
        # accepted: the ledger follows the code (amounts are not compared with a model that has none), moves are exact
        mon.hit("deposit-accepted-undetermined")
        mon.cls("v2/dep/accepted:" + ("negative-impact>deposit" if exp["reverts"] else "deposit-below-float-noise-of-impact"))
        wa = ctx.wallet()
        ln, sn = m.long_token.name, m.short_token.name
        for name in wb:
            d = (-F(float(la)) if name == ln else Fraction(0)) + (-F(float(sa)) if name == sn else Fraction(0))  # one token on both sides: both legs
            mon.ev()
            if not wallet_ok(wb[name], wa[name], d):
                mon.violation("gmx2", "deposit", "wallet-move", "long" if name == ln else "short",
                              f"{ctx.label}: wallet {name} moved {wa[name] - wb[name]}, expected {_fl(d)}")
        ctx.held = F(float(m.amount))
        return res, exp
    ambiguous = exp["info"]["sign_ambiguous"]
    if ambiguous:
        # binary64 cannot resolve the sign of the real-pool impact (it is below the rounding of the pool values): the
        # implementation may land on either side, which selects the fee factor and the virtual-inventory branch.
        # Its reported impact must be within the float bound of one of the values the formula allows; fees and the
        # minted amount are then demanded for that impact.
        code_imp = F(float(r.price_impact_usd))
        err0 = exp["err_usd"]
        imp_ok = any(abs(code_imp - c) <= err0 + abs(c) * Fraction(1, 10**9) for c in exp["info"]["candidates"])
        if imp_ok:
            exp = G.deposit(cfg, st, la, sa, impact_override=code_imp)
            mon.cls("v2/dep/impact-sign-below-float-resolution")
    sign = "pos" if exp["impact_usd"] > 0 else ("neg" if exp["impact_usd"] < 0 else "zero")
    info = {"long": la, "short": sa, "impact_model": _fl(exp["impact_usd"]), "impact_code": _fl(r.price_impact_usd),
            "gm_model": _fl(exp["gm"]), "gm_code": _fl(r.gm_amount), "capped": exp["capped"], "kind": exp["info"]["kind"],
            "virtual": exp["info"]["virtual_used"], "pool": bal_class(st), "impact_pool": _fl(st.impact_pool),
            "fee_usd_model": _fl(exp["fee_usd"]), "fee_usd_code": _fl(r.fee_usd)}
    site = f"{side}/{sign}/{exp['info']['kind']}" + ("/virtual" if exp["info"]["virtual_used"] else "")
    mon.ev()
    if not close(r.price_impact_usd, exp["impact_usd"], exp["err_usd"]):
        mon.violation("gmx2", "deposit", "price-impact", site + ("/sign-below-float-resolution" if ambiguous else ""), f"{ctx.label}: impact {r.price_impact_usd} vs model {_fl(exp['impact_usd'])}; {info}", info)
    mon.ev()
    if not close(r.gm_amount, exp["gm"], exp["err_gm"]):
        mon.violation("gmx2", "deposit", "mint-amount", site + ("/capped" if exp["capped"] else ""),
                      f"{ctx.label}: minted {r.gm_amount} GM vs model {_fl(exp['gm'])}; {info}", info)
    mon.ev()
    if not (close(r.long_fee, exp["long_fee"]) and close(r.short_fee, exp["short_fee"]) and close(r.fee_usd, exp["fee_usd"])):
        mon.violation("gmx2", "deposit", "fee-factor", f"{side}/{sign}",
                      f"{ctx.label}: fees ({r.long_fee}, {r.short_fee}, usd {r.fee_usd}) vs model "
                      f"({_fl(exp['long_fee'])}, {_fl(exp['short_fee'])}, {_fl(exp['fee_usd'])}); {info}", info)
    mon.ev()
    want_total = F(float(la)) * st.long_price + F(float(sa)) * st.short_price
    want_gm_usd = F(float(r.gm_amount)) * st.pool_value / st.supply
    bad = [nm for nm, got, want in (("total_usd", r.total_usd, want_total), ("gm_usd", r.gm_usd, want_gm_usd)) if not close(got, want)]
    if bad:
        mon.violation("gmx2", "deposit", "reported-figures", "/".join(bad),
                      f"{ctx.label}: result {r!r} vs value paid {_fl(want_total)}, gm value {_fl(want_gm_usd)}; {info}", info)
    # moves
    wa = ctx.wallet()
    ln, sn = m.long_token.name, m.short_token.name
    for name in wb:
        d = (-F(float(la)) if name == ln else Fraction(0)) + (-F(float(sa)) if name == sn else Fraction(0))  # one token on both sides: both legs
        mon.ev()
        if not wallet_ok(wb[name], wa[name], d):
            mon.violation("gmx2", "deposit", "wallet-move", "long" if name == ln else "short",
                          f"{ctx.label}: wallet {name} moved {wa[name] - wb[name]}, expected {_fl(d)}")
    mon.ev()
    if not close(float(m.amount) - float(held_before), F(float(r.gm_amount)), 4 * G.EPS * max(held_before, F(float(r.gm_amount)))):
        mon.violation("gmx2", "deposit", "holding-move", "", f"{ctx.label}: GM {_fl(held_before)} -> {m.amount}, returned {r.gm_amount}")
    ctx.held = F(float(m.amount))
    new = ctx.fz.actions[n_act:]
    mon.ev()
    if len(new) != 1 or not close(float(getattr(new[0], "gm_amount", -1)), F(float(r.gm_amount))):
        mon.violation("gmx2", "deposit", "action-record", "", f"{ctx.label}: records {new!r}")
    mon.nt(f"v2/dep/{site}/{'cap' if exp['capped'] else 'nocap'}/{bal_class(st)}/{ipool_class(st)}/{acls}/{ctx.cfgcls}/{ctx.label}")
    mon.cls(f"v2/dep/{sign}/{exp['info']['kind']}/{'capped' if exp['capped'] else 'uncapped'}")
    if exp["info"]["virtual_used"]:
        mon.cls("v2/dep/virtual-inventory-decides")
    mon.sample({"v2": "deposit", **info}, cls=f"d/{site}/{exp['capped']}")
    return res, exp


def v2_withdraw(ctx, gm, portion):
    """withdraw(gm) (None = all) checked against the model."""
    mon, m = ctx.mon, ctx.m
    st, cfg = v2_state(ctx.row), v2_cfg_of(m)
    held_before = float(m.amount)
    amount = held_before if gm is None else float(gm)
    exp = G.withdraw(cfg, st, amount)
    wb = ctx.wallet()
    n_act = len(ctx.fz.actions)
    res = Dr.call_op(m.withdraw, gm)
    if not res.ok:
        mon.violation("gmx2", "withdraw", "raises", res.site or type(res.exc).__name__,
                      f"{ctx.label}: withdraw({gm}) holding {held_before} raised {res.exc!r}")
        return res, exp
    mon.hit("withdraw")
    r = res.ret
    info = {"gm": amount, "long_model": _fl(exp["long"]), "long_code": _fl(r.long_amount), "short_model": _fl(exp["short"]),
            "short_code": _fl(r.short_amount), "pool": bal_class(st)}
    mon.ev()
    if not (close(r.long_amount, exp["long"]) and close(r.short_amount, exp["short"])):
        mon.violation("gmx2", "withdraw", "redeem-amount", "pro-rata-less-fee",
                      f"{ctx.label}: out ({r.long_amount}, {r.short_amount}) vs model ({_fl(exp['long'])}, {_fl(exp['short'])}); {info}", info)
    mon.ev()
    if not (close(r.long_fee, exp["long_fee"]) and close(r.short_fee, exp["short_fee"])):
        mon.violation("gmx2", "withdraw", "fee-factor", "withdraw",
                      f"{ctx.label}: fees ({r.long_fee}, {r.short_fee}) vs model ({_fl(exp['long_fee'])}, {_fl(exp['short_fee'])}); {info}", info)
    # the figures the result reports about itself: value redeemed, value of the shares, fee in USD; a withdrawal has no price impact
    mon.ev()
    want_total = F(float(r.long_amount)) * st.long_price + F(float(r.short_amount)) * st.short_price
    want_fee = F(float(r.long_fee)) * st.long_price + F(float(r.short_fee)) * st.short_price
    want_gm_usd = F(amount) * st.pool_value / st.supply
    bad = [nm for nm, got, want in (("total_usd", r.total_usd, want_total), ("fee_usd", r.fee_usd, want_fee), ("gm_usd", r.gm_usd, want_gm_usd))
           if not close(got, want)]
    if float(r.price_impact_usd) != 0:
        bad.append("price_impact_usd")
    if bad or not close(r.gm_amount, F(amount)):
        mon.violation("gmx2", "withdraw", "reported-figures", "/".join(bad) or "gm_amount",
                      f"{ctx.label}: result {r!r} vs total {_fl(want_total)}, fee {_fl(want_fee)}, gm value {_fl(want_gm_usd)}; {info}", info)
    wa = ctx.wallet()
    ln, sn = m.long_token.name, m.short_token.name
    for name in wb:
        d = (F(float(r.long_amount)) if name == ln else Fraction(0)) + (F(float(r.short_amount)) if name == sn else Fraction(0))
        mon.ev()
        if not wallet_ok(wb[name], wa[name], d):
            mon.violation("gmx2", "withdraw", "wallet-move", "long" if name == ln else "short",
                          f"{ctx.label}: wallet {name} moved {wa[name] - wb[name]}, expected {_fl(d)}")
    mon.ev()
    if not close(held_before - float(m.amount), F(amount), 4 * G.EPS * F(held_before)):
        mon.violation("gmx2", "withdraw", "holding-move", "", f"{ctx.label}: GM {held_before} -> {m.amount}, withdrew {amount}")
    mon.ev()
    if float(m.amount) < 0:
        mon.violation("gmx2", "withdraw", "over-redemption", "negative-holding", f"{ctx.label}: GM holding {m.amount}")
    ctx.held = F(float(m.amount))
    new = ctx.fz.actions[n_act:]
    mon.ev()
    if len(new) != 1 or not close(float(getattr(new[0], "gm_amount", -1)), F(amount)):
        mon.violation("gmx2", "withdraw", "action-record", "", f"{ctx.label}: records {new!r}")
    if amount > 0:
        mon.nt(f"v2/wd/{portion}/{bal_class(st)}/{ctx.cfgcls}/{ctx.label}")
        mon.cls(f"v2/wd/{portion}")
        mon.sample({"v2": "withdraw", **info}, cls=f"w/{portion}")
    return res, exp


def v2_overdraw(ctx, rng):
    mon, m = ctx.mon, ctx.m
    held = float(m.amount)
    kind = rng.choice(["x2", "+1ppb", "+1", "huge"])
    x = {"x2": held * 2 if held > 0 else 1.0, "+1ppb": held * (1 + 1e-9) if held > 0 else 1e-9, "+1": held + 1.0,
         "huge": held + 1e12}[kind]
    wb = ctx.wallet()
    res = Dr.call_op(m.withdraw, x)
    mon.ev()
    mon.hit("overdraw_gm")
    state = "holding" if held > 0 else "empty"
    if res.ok:
        mon.violation("gmx2", "withdraw", "over-redemption", f"accepted/{state}",
                      f"{ctx.label}: held {held} GM, withdraw({x}) accepted, paid ({res.ret.long_amount}, {res.ret.short_amount}); holding now {m.amount}")
    else:
        wa = ctx.wallet()
        mon.ev()
        if float(m.amount) != held or any(wa[k] != wb[k] for k in wb):
            mon.violation("gmx2", "withdraw", "over-redemption", f"rejected-but-paid/{state}",
                          f"{ctx.label}: rejected withdraw({x}) (held {held}) changed holding/wallet: {m.amount}, {wa} vs {wb}")
    ctx.held = F(float(m.amount))
    mon.nt(f"v2/overdraw/{kind}/{state}")
    mon.cls(f"v2/overdraw/{'rejected' if not res.ok else 'ACCEPTED'}")


def v2_balance_check(ctx):
    mon, m = ctx.mon, ctx.m
    r = Dr.call_op(m.get_market_balance)
    if not r.ok:
        mon.violation("gmx2", "get_market_balance", "raises", r.site or type(r.exc).__name__, repr(r.exc)[:300])
        return
    b = r.ret
    mon.ev()
    if not close(float(b.gm_amount), ctx.held) or float(b.gm_amount) < 0:
        mon.violation("gmx2", "get_market_balance", "holding-vs-ledger", "", f"{ctx.label}: GmxV2Balance.gm_amount {b.gm_amount}, holding {_fl(ctx.held)}")


def pick_v2_deposit(rng, st):
    """(long_amount, short_amount, class): sized against the pool imbalance"""
    lu, su = st.long_amount * st.long_price, st.short_amount * st.short_price
    diff = float(abs(lu - su))
    pool = float(lu + su)
    light_long = lu < su  # depositing long balances the pool
    k = rng.random()
    if k < 0.05:
        usd, cl = 10 ** rng.uniform(-15, -3), "dust"
    elif k < 0.10:
        # of the order of one unit in the last place of the pool's (or the virtual inventory's) USD figures: the float
        # evaluation of the impact is pure rounding noise of about that size, positive or negative
        big = max([float(lu), float(su)] + [float(v * p_) for v, p_ in ((st.virt_long, st.long_price), (st.virt_short, st.short_price)) if v is not None])
        usd, cl = math.ulp(big) * 10 ** rng.uniform(-0.5, 1.6), "ulp"
    elif k < 0.25:
        usd, cl = 10 ** rng.uniform(-1, 4), "retail"
    elif k < 0.40:
        usd, cl = pool * rng.uniform(0.005, 0.1), "pct"
    elif k < 0.48:
        usd, cl = pool * rng.uniform(0.3, 2), "huge"
    elif diff > 1e-6 * pool:
        j = rng.random()
        if j < 0.4:
            usd, cl = diff * rng.uniform(0.05, 0.95), "gap-frac"
        elif j < 0.55:
            usd, cl = diff, "gap-exact"
        elif j < 0.8:
            usd, cl = diff * rng.uniform(1.05, 1.95), "gap-cross"
        else:
            usd, cl = diff * rng.uniform(2.05, 5), "gap-overshoot"
    else:
        usd, cl = pool * 10 ** rng.uniform(-6, -2), "rel"
    s = rng.random()
    if s < 0.38:
        side = "light"
    elif s < 0.68:
        side = "heavy"
    else:
        side = "both"
    lp, sp = float(st.long_price), float(st.short_price)
    if side == "both":
        f = rng.choice([0.5, rng.random(), 0.01, 0.99])
        return usd * f / lp, usd * (1 - f) / sp, cl + "/both"
    to_long = (side == "light") == light_long
    if to_long:
        return usd / lp, 0.0, cl + "/" + side
    return 0.0, usd / sp, cl + "/" + side


def v2_round_trip(ctx, rng):
    """deposit, withdraw everything, compare USD value at the bar's prices"""
    mon, m = ctx.mon, ctx.m
    if float(m.amount) != 0:
        r0, _ = v2_withdraw(ctx, None, "all")
        if not r0.ok:
            return
    st, cfg = v2_state(ctx.row), v2_cfg_of(m)
    la, sa, acls = pick_v2_deposit(rng, st)
    if la <= 0 and sa <= 0:
        return
    rd, ed = v2_deposit(ctx, la, sa, acls)
    if rd is None or not rd.ok:
        return
    rw, ew = v2_withdraw(ctx, None, "all")
    if not rw.ok:
        return
    lp, sp = st.long_price, st.short_price
    paid = F(float(la)) * lp + F(float(sa)) * sp
    got = F(float(rw.ret.long_amount)) * lp + F(float(rw.ret.short_amount)) * sp
    model_got = G.withdraw(cfg, st, ed["gm"])["usd"]
    mon.ev()
    mon.hit("v2_round_trip")
    profit = got - paid
    tol = paid * Fraction(1, 10**9) + ed["err_usd"]
    sign = "pos" if ed["impact_usd"] > 0 else ("neg" if ed["impact_usd"] < 0 else "zero")
    if profit > tol:
        explained = ed["impact_usd"] > 0 and ed["positive_gm"] > 0 and st.impact_pool > 0 and model_got > paid
        data = {"long": la, "short": sa, "paid_usd": _fl(paid), "got_usd": _fl(got), "model_got_usd": _fl(model_got),
                "impact_usd": _fl(ed["impact_usd"]), "capped": ed["capped"], "impact_pool": _fl(st.impact_pool),
                "deposit_fee_usd": _fl(ed["fee_usd"]), "pool": bal_class(st)}
        if explained:
            mon.violation("gmx2", "deposit+withdraw", "round-trip-profit", KNOWN_SITE,
                          f"{ctx.label}: deposit worth {_fl(paid)} USD, withdrawal worth {_fl(got)} USD: the positive price impact "
                          f"{_fl(ed['impact_usd'])} USD (paid from a funded impact pool) exceeds deposit + withdrawal fees; {data}", data)
        else:
            mon.violation("gmx2", "deposit+withdraw", "round-trip-profit", f"not-explained-by-positive-impact/{sign}",
                          f"{ctx.label}: deposit worth {_fl(paid)} USD, withdrawal worth {_fl(got)} USD, model expects {_fl(model_got)}; {data}", data)
    cls = "profit" if profit > tol else ("loss<1bp" if -profit < paid * BP else ("loss<20bp" if -profit < 20 * paid * BP else "loss>=20bp"))
    mon.nt(f"v2/rt/{sign}/{'cap' if ed['capped'] else 'nocap'}/{bal_class(st)}/{ipool_class(st)}/{acls}/{cls}/{ctx.cfgcls}")
    mon.cls(f"v2/rt/{sign}/{cls}")


def _v2_world(rng, n, custom_cfg):
    w = W.Gmx2World(rng, n=n, long=rng.choice([("WETH", 18), ("WBTC", 8), ("WAVAX", 18)]), short=("USDC", 6))
    # sharpen: exactly balanced pools, impact pools that cap some but not all impacts
    if rng.random() < 0.12:
        for i in range(len(w.data.index)):
            lp = float(w.data.iloc[i]["longPrice"])
            w.data.iat[i, w.data.columns.get_loc("shortAmount")] = float(w.data.iloc[i]["longAmount"]) * lp
    if rng.random() < 0.35:
        w.data["impactPoolAmount"] = 10 ** rng.uniform(-4, 3)
    if rng.random() < 0.2:
        # virtual inventory imbalanced the other way round
        a, b = w.data["virtualSwapInventoryLong"].copy(), w.data["virtualSwapInventoryShort"].copy()
        w.data["virtualSwapInventoryLong"] = b / w.data["longPrice"]
        w.data["virtualSwapInventoryShort"] = a * w.data["longPrice"]
    if rng.random() < 0.08:
        # a single-token market (long token = short token, like BTC/USD [WBTC-WBTC]): both legs of a deposit come out of, and
        # both legs of a withdrawal go into, the same wallet entry
        w.short = w.long
        w.data["shortPrice"] = w.data["longPrice"]
    vk = rng.random()
    if vk < 0.15:
        # markets without a virtual inventory (none configured), or with only one side of it: the real pool alone decides
        which = rng.choice(["both", "both", "long", "short"])
        # None (set by hand) or NaN (what an empty field of the csv file becomes)
        absent = (lambda: pd.Series([None] * len(w.data.index), index=w.data.index, dtype=object)) if rng.random() < 0.5 else (
            lambda: pd.Series([float("nan")] * len(w.data.index), index=w.data.index, dtype=float))
        if which in ("both", "long"):
            w.data["virtualSwapInventoryLong"] = absent()
        if which in ("both", "short"):
            w.data["virtualSwapInventoryShort"] = absent()
    m = w.market()
    cfgcls = "default"
    if custom_cfg:
        pc = m.pool_config
        pc.depositFeeFactorForPositiveImpact = rng.choice([0.0, 0.0002, 0.0005, 0.001])
        pc.depositFeeFactorForNegativeImpact = rng.choice([0.0003, 0.0007, 0.002])
        pc.withdrawFeeFactorForPositiveImpact = rng.choice([0.0, 0.0001, 0.0009])
        pc.withdrawFeeFactorForNegativeImpact = rng.choice([0.0004, 0.0011, 0.003])
        neg = rng.choice([1e-10, 4e-10, 2e-9])
        pc.swapImpactFactorNegative = neg
        pc.swapImpactFactorPositive = neg * rng.choice([0.25, 0.5, 1.0, 1.5])  # 1.5: the clamp positive <= negative
        cfgcls = "custom" + ("/pos>neg" if pc.swapImpactFactorPositive > neg else "")
    return w, m, cfgcls


def case_v2(mon, rng, c, custom_cfg):
    w, m, cfgcls = _v2_world(rng, 2, custom_cfg)
    prices = w.prices()
    fz = Dr.Frozen([m], prices.iloc[0], None, {w.long: Decimal(10) ** 12, w.short: Decimal(10) ** 13}, w.index[0])
    ctx = V2Ctx(mon, m, fz, "frozen", cfgcls)
    ctx.row = m.data.iloc[0]
    for _ in range(rng.randint(4, 8)):
        k = rng.random()
        if k < 0.6:
            v2_round_trip(ctx, rng)
        elif k < 0.9:
            st = v2_state(ctx.row)
            for _ in range(rng.randint(1, 3)):
                la, sa, acls = pick_v2_deposit(rng, st)
                if la > 0 or sa > 0:
                    v2_deposit(ctx, la, sa, acls)
            for _ in range(rng.randint(1, 3)):
                held = float(m.amount)
                if held <= 0:
                    break
                v2_withdraw(ctx, held * rng.choice([0.01, 0.25, 0.5, 0.99, rng.random()]), "part")
            if rng.random() < 0.5:
                v2_overdraw(ctx, rng)
            if rng.random() < 0.5 and float(m.amount) > 0:
                v2_withdraw(ctx, float(m.amount) if rng.random() < 0.5 else None, "all")
        else:
            v2_overdraw(ctx, rng)
        v2_balance_check(ctx)


def case_v2_actuator(mon, rng, c):
    n = rng.choice([5, 12, 30])
    w, m, cfgcls = _v2_world(rng, n, rng.random() < 0.3)
    prices = w.prices()
    plan_ops = {}
    for i in range(n):
        if i == 0 or rng.random() < 0.4:
            plan_ops[i] = (rng.choice(["before_bar", "on_bar", "after_bar"]), rng.random(), rng.random())
    actions = []

    class Obs:
        def __init__(self):
            self.ctx = None

        def _ctx(self, strat):
            if self.ctx is None:
                fzlike = type("FZ", (), {})()
                fzlike.broker = strat.broker
                fzlike.actions = actions
                self.ctx = V2Ctx(mon, m, fzlike, "actuator", cfgcls)
            return self.ctx

        def _do(self, strat, snap, phase):
            i = strat.bar
            if i not in plan_ops or plan_ops[i][0] != phase:
                return
            ctx = self._ctx(strat)
            ctx.row = m.data.iloc[i]
            _, r1, r2 = plan_ops[i]
            lrng = __import__("random").Random(r1)
            if float(m.amount) > 0 and r2 < 0.45:
                if r2 < 0.15:
                    v2_withdraw(ctx, None, "all")
                else:
                    v2_withdraw(ctx, float(m.amount) * lrng.random(), "part")
            else:
                la, sa, acls = pick_v2_deposit(lrng, v2_state(ctx.row))
                if la > 0 or sa > 0:
                    v2_deposit(ctx, la, sa, acls)
            v2_balance_check(ctx)

        def before_bar(self, strat, snap):
            self._do(strat, snap, "before_bar")

        def on_bar(self, strat, snap):
            self._do(strat, snap, "on_bar")

        def after_bar(self, strat, snap):
            self._do(strat, snap, "after_bar")

    strat = Dr.make_script_strategy({}, Obs())
    a = Dr.build_actuator([m], prices, w.short, {w.long: Decimal(10) ** 12, w.short: Decimal(10) ** 13}, strat)

    def rec(action, _orig=m._record_action_callback):
        actions.append(action)
        if _orig is not None:
            _orig(action)

    m._record_action_callback = rec
    r = Dr.call_op(a.run, False)
    if not r.ok:
        mon.violation("gmx2", "Actuator.run", "raises", r.site or type(r.exc).__name__, repr(r.exc)[:400])
        return
    mon.hit("v2_actuator_runs")
    mon.nt(f"v2/act/n{n}/ops{min(6, len(plan_ops))}/{cfgcls}")
    mon.cls("v2/actuator-run")


# ------------------------------------------------------------------------------------------------ floors
def floors(merged, tier):
    out = []
    reach = merged["reach"]
    scale = 3 if tier == "quick" else 200  # ~10x under what the workload normally reaches
    for name, need in (("buy_glp", 100), ("sell_glp", 100), ("deposit", 100), ("withdraw", 100), ("v1_round_trip", 40),
                       ("v2_round_trip", 40), ("oversell_glp", 5), ("overdraw_gm", 5), ("reward_checked_with_holding", 10),
                       ("v1_actuator_runs", 2), ("v2_actuator_runs", 2), ("v1-op-after-total-weights-changed", 30)):
        if reach.get(name, 0) < need * scale:
            out.append(f"{name} reached {reach.get(name, 0)} times (< {need * scale})")
    cl = merged["classes"]

    def tot(prefix):
        return sum(v for k, v in cl.items() if k.startswith(prefix))

    for prefix, need in (("v1/buy/improve", 5), ("v1/buy/worsen", 5), ("v1/sell/improve", 5), ("v1/sell/worsen", 5),
                         ("v1/buy/zero-target", 1), ("v1/dec6", 5), ("v1/dec8", 5), ("v2/dep/pos/", 10), ("v2/dep/neg/", 10),
                         ("v2/dep/pos/same-side/capped", 2), ("v2/dep/neg/crossover", 2), ("v2/dep/virtual-inventory-decides", 2),
                         ("v1/buy/improve-cross", 2), ("v1/sell/improve-cross", 2), ("v1/buy/worsen-capped", 5),
                         ("v2/dep/pos/crossover", 2), ("v2/rt/pos/", 5), ("v2/rt/neg/", 5), ("v2/wd/all", 10), ("v2/wd/part", 10),
                         ("v1/oversell/", 2), ("v2/overdraw/", 2)):
        if tot(prefix) < need * scale:
            out.append(f"class {prefix}* observed {tot(prefix)} times (< {need * scale})")
    return out
