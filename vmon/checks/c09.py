"""C09 — token order is immaterial: a pool and its mirror give the same economic results.

Differential monitor.  One raw world (tick path, per-token volumes, pool liquidity) is turned into pool A (token0 =
quote) and into its mirror M (token0 = base: tokens and decimals swapped, ticks negated, lowest/highest swapped,
per-token columns swapped — oracles/mirror.py).  One script written in base/quote terms is run on both through the real
Actuator; every return value named by the property, the wallet, get_position_status, get_market_balance and the
pending fees per bar are recorded in base/quote terms and compared pairwise in exact arithmetic."""
import math
import traceback
from datetime import timedelta
from decimal import Decimal
from fractions import Fraction

from .. import drive as Dr
from .. import worlds as W
from ..oracles import mirror as MR

ID = "C09"
META = {
    "level": "exploration",
    "rule": "a case = one raw world (decimals {6,8,18}^2, fee {0.01,0.05,0.3,1}%, tick path walk/jump/calm/flat/anchors "
    "around 3-6 ranges placed in/above/below the price, float or int64 tick columns; prices on ticks, inside ticks, or on range bounds) run as pool A (token0 = quote) and "
    "as its mirror, with one script of 6-16 operations in base/quote terms over 6-16 bars; every compared value is one "
    "evaluation. Non-trivial = an operation (or a per-bar read) with at least one compared result of non-zero magnitude; "
    "distinct by (operation, price-vs-range class, outcome/branch, argument class, decimals pair, fee, tolerance class).",
    "assumptions": [
        "tolerances are the statement's: 1e-12 relative for exact operations, 0.1 % once add_liquidity_by_value ran in the "
        "script (sticky) and for estimate_amount / estimate_liquidity results",
        "liquidity is an integer number of units: 3 units of the smallest liquidity figure seen so far in the script are "
        "allowed on top (3/L relative on everything derived from it); wallets are sized so that this is < 1e-12 in almost all cases",
        "wallet balances and pending amounts are differences of larger numbers: their difference is measured relative to the "
        "largest amount of that token seen so far in the script, not to a remainder that may be a cancellation residue",
        "estimate_amount legs and add_liquidity_by_value used amounts are measured relative to the value asked for (a leg "
        "that is a tiny share of the value is not held to 0.1 % of itself)",
        "three kinds of worlds. on-tick (60 %): prices are tick prices as demeter prepares them and no path tick / opening tick "
        "is within 1 tick of a range bound used by the script (fee accrual classifies by tick over half-open ranges, the mirror of "
        "[l,u) is (-u,-l]). off-tick (25 %): the same, but the bar's price column is moved 0.05-0.95 of a tick into its tick (both "
        "orientations are handed the identical Decimal). on-bound (15 %, half of them with such offsets): closes exactly on range "
        "bounds or on the last tick below one, and no volume at all (no fees), so that only the sqrt-price based results are "
        "compared there. In the last two kinds every token amount is measured against the largest amount of that token seen so far "
        "in the script (next to a bound the vanishing token is L x a difference of two nearly equal integer sqrt prices). "
        + MR.tick_domain_note,
        "prices handed to add_liquidity are the prices of ticks at most spacing/2-2 away from a usable tick (bounds on a "
        "grid of 4 for spacing 2), so that the +-1 of the floor in price->tick cannot change the usable tick; the tick= "
        "argument of add_liquidity_by_tick is never +-1 (-1 is the function's 'not given' sentinel)",
        "when the two results of an add_liquidity_by_value differ by more than 1e-9 (but within their 0.1 %) the two states "
        "have really diverged and the rest of that script is not compared: which token the remainder is in, how much "
        "liquidity it buys in a narrow range and every position's fee share are consequences the statement does not bound; "
        "below 1e-9 the script goes on under the sticky 0.1 %",
        "under the sticky 0.1 % a liquidity figure is measured against the liquidity that the gross holdings seen so far would "
        "be in that figure's own range (liquidity of ranges of different widths is not commensurable), pending_value "
        "against pending quote + pending base * price",
        "a recorded buy/sell/swap that moves less than the tolerance (1e-12, or 0.1 % under the sticky class) of the gross "
        "holdings seen so far is rounding dust, not an outcome (even_rebalance of an already balanced wallet trades 1e-34 of "
        "it in either direction); all other actions must be the same in both orientations",
        "a rejection must be mirrored by a rejection of the same exception type; messages are not compared",
        "after the first mismatching operation of a script the rest of that script is not compared (consequences of one cause)",
    ],
}
NSHARDS = 16
DEC = (6, 8, 18)
FEES = (0.01, 0.05, 0.3, 1)
D0 = Decimal(0)
DIVERGED = Fraction(1, 10**9)  # add_liquidity_by_value results further apart than this: the states have really diverged


def plan(tier, seed):
    n = 120 if tier == "quick" else 1900
    return [{"shard": i, "cases": n} for i in range(NSHARDS)]


# =============================================================================== world
class Pair:
    """One raw world, two pools."""

    def __init__(self, rng):
        from demeter import TokenInfo
        from demeter.uniswap import UniV3Pool

        self.dq, self.db = rng.choice(DEC), rng.choice(DEC)
        self.fee = rng.choice(FEES)
        self.sp = int(Decimal(str(self.fee)) * 200)
        self.grid = 4 if self.sp == 2 else self.sp
        self.Q = TokenInfo("QUO", self.dq)
        self.B = TokenInfo("BAS", self.db)
        # centre tick in A's frame (token0 = quote)
        if self.dq == self.db and rng.random() < 0.35:
            self.price_kind = "around-tick-0"
            c = rng.randint(-300, 300)
        else:
            self.price_kind = "general"
            while True:
                price = math.exp(rng.uniform(math.log(1e-3), math.log(1e5)))
                c = W.tick_for_price(price, self.dq, self.db, True)
                if abs(c) <= 280000:
                    break
        self.center = c
        g = self.grid
        c0 = (c // g) * g
        self.n = rng.choice([6, 10, 16])
        # ranges in A's frame, all bounds multiples of the grid
        kinds = ["narrow", "wide", "above", "below"] + [rng.choice(["narrow", "wide", "above", "below", "mid"]) for _ in range(rng.randint(0, 2))]
        self.ranges, self.range_kind = [], []
        for k in kinds:
            if k == "narrow":
                lo, up = c0 - rng.randint(0, 2) * g, c0 + rng.randint(1, 3) * g
            elif k == "mid":
                lo, up = c0 - rng.randint(3, 40) * g, c0 + rng.randint(3, 40) * g
            elif k == "wide":
                lo = c0 - max(1, rng.randint(300, 25000) // g) * g
                up = c0 + max(1, rng.randint(300, 25000) // g) * g
            elif k == "above":  # ticks above the price in A's frame = base price below the current one
                lo = c0 + rng.randint(1, 30) * g
                up = lo + rng.randint(1, 60) * g
            else:
                up = c0 - rng.randint(1, 30) * g
                lo = up - rng.randint(1, 60) * g
            if (lo, up) not in self.ranges:
                self.ranges.append((lo, up))
                self.range_kind.append(k)
        # bounds the path must keep away from: the ranges' own bounds and their neighbours on the spacing grid (an
        # add_liquidity_by_tick with off-grid ticks is trimmed to one of those)
        self.bounds = sorted({b + k * self.sp for r in self.ranges for b in r for k in (-1, 0, 1)})
        self.path_kind = rng.choice(["walk", "walk", "jump", "calm", "flat", "anchors", "anchors"])
        step = max(3, self.sp * rng.choice([1, 2, 5]))
        raw_path = W.tick_path(rng, self.n, c, self.path_kind, self.bounds, step)
        self.ticks = [MR.safe_tick(t, self.bounds) for t in raw_path]
        self.open_tick = MR.safe_tick(c, self.bounds)
        # where the price sits relative to the tick grid:
        #  on-tick   what demeter's own preparation produces (price column = price of the previous close tick)
        #  off-tick  the price column is moved inside its tick (a pool's sqrt price is continuous; users may supply it)
        #  on-bound  closes exactly on range bounds.  Fee accrual classifies by tick over half-open ranges, which is not
        #            mirror-symmetric on a bound, so these worlds have no volume (no fees); amounts, values, liquidity
        #            and wallet moves are sqrt-price based and continuous there, hence comparable
        self.price_mode = rng.choices(["on-tick", "off-tick", "on-bound"], [0.6, 0.25, 0.15])[0]
        self.off = [Decimal(0)] * self.n
        self._off_prices = None
        if self.price_mode == "on-bound":
            # the bounds themselves and the last tick below each (with an offset: a price inside the first / last tick of a range)
            edges = sorted({b - k for r in self.ranges for b in r for k in (0, 0, 1)})
            self.ticks = [rng.choice(edges) if rng.random() < 0.5 else t for t in self.ticks]
            if rng.random() < 0.4:
                self.open_tick = rng.choice(edges)
            if rng.random() < 0.5:
                self.price_mode = "on-bound+off-tick"
                self.off = [Decimal(str(rng.choice([0, 0.05, 0.5, 0.95, round(rng.uniform(0.05, 0.95), 6)]))) for _ in range(self.n)]
        if self.price_mode == "off-tick":
            self.off = [Decimal(str(rng.choice([0, 0.05, 0.25, 0.5, 0.95, round(rng.uniform(0.05, 0.95), 6)]))) for _ in range(self.n)]
        self.index = [W.T0 + timedelta(minutes=i) for i in range(self.n)]
        self.liq_exp = rng.uniform(6, 30)
        liq = [10**self.liq_exp * rng.uniform(0.5, 1.5) for _ in range(self.n)]
        vs = 10 ** rng.uniform(-2, 6)
        vols = [
            (0 if rng.random() < 0.1 else rng.uniform(0, vs) * 10**self.dq, 0 if rng.random() < 0.1 else rng.uniform(0, vs) * 10**self.db)
            for _ in range(self.n)
        ]
        if self.price_mode.startswith("on-bound"):
            vols = [(0, 0)] * self.n
        self.tick_dtype = rng.choice(["float", "int"])
        self.raw_a = W.uni_raw(rng, self.index, self.ticks, self.open_tick, liq, vols, self.tick_dtype)
        self.raw_m = MR.mirror_raw(self.raw_a)
        # the quote token is named the way a user would: by the pool's own token object, or by an equal token (same symbol and
        # decimals) written out again, while the pool's tokens carry their contract addresses
        quote_a = quote_m = self.Q
        if rng.random() < 0.3:
            from demeter import TokenInfo as _TI

            self.Q = _TI(self.Q.name, self.Q.decimal, "0x" + "1" * 40)
            self.B = _TI(self.B.name, self.B.decimal, "0x" + "2" * 40)
            quote_a = _TI(self.Q.name, self.Q.decimal)
            quote_m = _TI(self.Q.name, self.Q.decimal)
        self.pool_a = UniV3Pool(self.Q, self.B, self.fee, quote_a)
        self.pool_m = UniV3Pool(self.B, self.Q, self.fee, quote_m)
        # tick that defines the price seen at bar i (previous close), A's frame
        self.price_tick = [self.open_tick] + self.ticks[:-1]
        # wallet: at least 1e14 atomic units of each token held, so that liquidity figures are >> 1e12
        self.wallet_kind = rng.choice(["balanced", "balanced", "base-heavy", "quote-heavy", "base-only", "quote-only"])
        p0 = float(MR.base_price_of_tick_a(self.open_tick, self.dq, self.db))
        q_amt = 10 ** rng.uniform(max(2, 15 - self.dq), max(4, 15 - self.dq) + 6)
        ratio = {"balanced": 10 ** rng.uniform(-0.7, 0.7), "base-heavy": 10 ** rng.uniform(1, 3), "quote-heavy": 10 ** rng.uniform(-3, -1)}.get(self.wallet_kind, 1.0)
        b_amt = max(q_amt / p0 * ratio, 10 ** (15 - self.db))
        if self.wallet_kind not in ("balanced", "base-only", "quote-only") and b_amt * p0 / q_amt < 8 and self.wallet_kind == "base-heavy":
            q_amt = b_amt * p0 / 10
        self.wallet = {
            "base": D0 if self.wallet_kind == "quote-only" else Decimal(f"{b_amt:.9g}"),
            "quote": D0 if self.wallet_kind == "base-only" else Decimal(f"{q_amt:.9g}"),
        }

    def market(self, mirrored):
        from demeter import MarketInfo, MarketTypeEnum
        from demeter.uniswap import UniLpMarket

        m = UniLpMarket(MarketInfo("uni", MarketTypeEnum.uniswap_v3), self.pool_m if mirrored else self.pool_a)
        df = (self.raw_m if mirrored else self.raw_a).copy()
        m.add_statistic_column(df)
        if self.price_mode.endswith("off-tick"):
            # base price falls as A's tick rises: a price f of a tick above tick t (A's frame) is price(t) * 1.0001^-f.
            # Both orientations are handed the very same Decimal (their own tick prices differ by 1e-17 relative, a float
            # 10**-12 in the helper; next to a bound that would be a different distance from the bound)
            # A bar without offset keeps each pool's own tick price (what the preparation produced).
            if self._off_prices is None:
                if mirrored:
                    self.market(False)  # computes them from A's prepared prices
                else:
                    self._off_prices = [p * (Decimal("1.0001") ** (-f)) if f else None for p, f in zip(df["price"], self.off)]
            df["price"] = [own if shared is None else shared for own, shared in zip(df["price"], self._off_prices)]
        m.data = df
        return m

    def describe(self):
        return {
            "dec_quote": self.dq, "dec_base": self.db, "fee": self.fee, "center_tick_A": self.center, "path": self.path_kind,
            "price_mode": self.price_mode, "ticks_A": self.ticks, "open_tick_A": self.open_tick, "ranges_A": self.ranges, "tick_dtype": self.tick_dtype,
            "wallet": {k: str(v) for k, v in self.wallet.items()}, "pool_liq_exp": round(self.liq_exp, 2),
        }


# =============================================================================== script
# 0.999996 / 1.000004: within the wallet's 0.001 % "that is all of it" tolerance of the balance without being equal to it
AMOUNT_FRACS = (None, None, 0.05, 0.3, 0.5, 0.9, 1.0, 1.5, 0.999996, 1.000004)


def _frac_cls(f):
    if f is None:
        return "all"
    if f == 0:
        return "zero"
    if f > 1:
        return "over"
    if f == 1:
        return "full"
    return "part"


def gen_script(rng, pair, allow_estimate_state):
    """Operations in base/quote terms.  Ranges are indices into pair.ranges (A's frame); positions are indices into
    the list of positions in order of creation; amounts are fractions of the balance held at that moment."""
    nops = rng.randint(6, 16)
    bars = sorted(rng.randrange(pair.n) for _ in range(nops))
    steps = []
    n_added = 0
    for i, bar in enumerate(bars):
        menu = ["add_tick"] * 4 + ["add_price"] * 2 + ["est_amount", "est_liq", "helpers", "buy", "sell", "swap", "rebalance"]
        if allow_estimate_state:
            menu += ["add_value"] * 5
        if n_added:
            menu += ["remove"] * 4 + ["collect"] * 2
        if i == 0:
            menu = ["add_tick", "add_price"] + (["add_value"] * 2 if allow_estimate_state else ["add_tick"])
        op = rng.choice(menu)
        st = {"bar": bar, "phase": rng.choice(["on_bar", "on_bar", "on_bar", "after_bar"]), "op": op}
        r = rng.randrange(len(pair.ranges))
        if op == "add_tick":
            st.update(r=r, fb=rng.choice(AMOUNT_FRACS), fq=rng.choice(AMOUNT_FRACS), rev=rng.random() < 0.15,
                      tick_off=rng.choice([None, None, None, 0, 7, -13, 400]))
            # off-grid range ticks, trimmed by the market to usable ticks: exactly half-way between two usable ticks
            # (rounding must be mirror-symmetric there) or a few ticks off
            raw = rng.choice([None] * 5 + ["half", "half", "small"])
            h = pair.sp // 2
            if raw == "half" and pair.sp % 2 == 0:
                st["raw"] = rng.choice([(h, 0), (-h, 0), (0, h), (0, -h), (h, h), (-h, -h), (h, -h), (-h, h)])
            elif raw == "small" and h >= 2:
                st["raw"] = (rng.randint(-(h - 1), h - 1), rng.randint(-(h - 1), h - 1))
            n_added += 1
        elif op == "add_price":
            half = max(0, pair.sp // 2 - 2)
            st.update(r=r, fb=rng.choice(AMOUNT_FRACS), fq=rng.choice(AMOUNT_FRACS), d_lo=rng.randint(-half, half), d_up=rng.randint(-half, half))
            n_added += 1
        elif op == "add_value":
            st.update(r=r, fv=rng.choice([None, None, 0.05, 0.4, 0.8, 1.0, 1.2]))
            n_added += 1
        elif op == "remove":
            st.update(pos=rng.randrange(64), fl=rng.choice([None, None, 0.25, 0.5, 0.999, 1.0, 2.0]), collect=rng.random() < 0.6,
                      dry=rng.random() < 0.7)
        elif op == "collect":
            st.update(pos=rng.randrange(64), mb=rng.choice([None, None, 0.5, 2.0, 0.0]), mq=rng.choice([None, None, 0.5, 2.0, 0.0]),
                      dry=rng.random() < 0.7)
        elif op in ("buy", "sell"):
            st.update(f=rng.choice([0.01, 0.2, 0.6, 0.95, 1.5]), pmul=rng.choice([None, None, 0.97, 1.05]))
        elif op == "swap":
            st.update(frm=rng.choice(["base", "quote"]), f=rng.choice([0.01, 0.3, 0.9, 1.5]), pmul=rng.choice([None, None, 0.9, 1.1]))
        elif op == "rebalance":
            st.update(pmul=rng.choice([None, None, 0.95, 1.08]))
        elif op == "est_amount":
            st.update(r=r, fv=rng.choice([0.1, 1.0, 3.0]))
        elif op == "est_liq":
            st.update(r=r, fv=rng.choice([0.1, 1.0, 3.0]))
        elif op == "helpers":
            st.update(r=r, d=rng.randint(-max(0, pair.sp // 2 - 2), max(0, pair.sp // 2 - 2)))
        steps.append(st)
        if op == "add_value" and st["fv"] is None and rng.random() < 0.4:
            # re-balancing idiom: everything into the range, take it out again, put it back in the same bar: the wallet then
            # holds exactly the split of the range
            steps.append({"bar": bar, "phase": st["phase"], "op": "remove", "pos": 0, "last": True, "fl": None, "collect": True, "dry": False})
            steps.append({"bar": bar, "phase": st["phase"], "op": "add_value", "r": r, "fv": None})
    return steps


# =============================================================================== running one orientation
class Obs:
    __slots__ = ("label", "op", "field", "kind", "unit", "value", "scale", "site", "meta")

    def __init__(self, label, op, field, kind, unit, value, scale, site, meta):
        self.label, self.op, self.field, self.kind, self.unit = label, op, field, kind, unit
        self.value, self.scale, self.site, self.meta = value, scale, site, meta


class Runner:
    """Observer of the script strategy for one orientation.  Everything it records is in base/quote terms and in
    A's tick frame."""

    def __init__(self, pair, market, mirrored, steps):
        self.pair, self.m, self.mir, self.steps = pair, market, mirrored, steps
        self.obs = []
        self.positions = []  # PositionInfo of this pool, in order of creation
        self.cur = ("init", -1, "init", "")  # bar, step index, op, site
        self.actions = []
        self.summaries = []  # per step, for nt keys / samples
        self.crash = None
        orig = market._record_action
        market._record_action = lambda a: (self.actions.append(a), orig(a))[1]

    # ---- frame helpers
    def own_range(self, r):
        lo, up = self.pair.ranges[r]
        return MR.mirror_range(lo, up) if self.mir else (lo, up)

    def own_tick(self, t):
        return -t if self.mir else t

    def bq(self, any0, any1):
        """(token0 thing, token1 thing) -> (base thing, quote thing)"""
        return (any0, any1) if self.mir else (any1, any0)

    def t01(self, base_thing, quote_thing):
        return (base_thing, quote_thing) if self.mir else (quote_thing, base_thing)

    def bal(self):
        b = self.m.broker
        return b.get_token_balance(self.pair.B), b.get_token_balance(self.pair.Q)

    def price(self):
        return self.m.market_status.data.price

    def pvr(self, bar, r_a):
        lo, up = r_a
        return MR.price_vs_range(self.pair.price_tick[bar], lo, up)

    # ---- recording
    def o(self, field, kind, unit, value, scale=None, meta=None):
        bar, si, op, site = self.cur
        self.obs.append(Obs(f"{bar}/{si}/{op}/{field}", op, field, kind, unit, value, scale, site, meta))

    def read_all(self, bar, tag):
        keep = self.cur
        m = self.m
        self.cur = (bar, keep[1], "wallet", tag)
        b, q = self.bal()
        self.o("base", "wallet", "base", b)
        self.o("quote", "wallet", "quote", q)
        self.cur = (bar, keep[1], "get_market_balance", tag)
        mb = m.get_market_balance()
        self.o("net_value", "amt", "quote", mb.net_value)
        self.o("liquidity_value", "amt", "quote", mb.liquidity_value)
        self.o("base_uncollected", "amt", "base", mb.base_uncollected)
        self.o("quote_uncollected", "amt", "quote", mb.quote_uncollected)
        self.o("base_in_position", "amt", "base", mb.base_in_position)
        self.o("quote_in_position", "amt", "quote", mb.quote_in_position)
        self.o("position_count", "count", None, mb.position_count)
        self.o("positions", "count", None, tuple(sorted(MR.to_frame_a(k, self.mir) for k in m.positions)))
        for k in list(m.positions):
            ka = MR.to_frame_a(k, self.mir)
            self.cur = (bar, keep[1], "get_position_status", f"{self.pvr(bar, ka)}")
            ps = m.get_position_status(k)
            self.o("liquidity", "liq", "liq", ps.liquidity, meta={"range": ka, "tick": self.pair.price_tick[bar]})
            la_b, la_q = self.bq(ps.liquidity_amount0, ps.liquidity_amount1)
            pe_b, pe_q = self.bq(ps.pending_amount0, ps.pending_amount1)
            am_b, am_q = self.bq(ps.amount0, ps.amount1)
            self.o("liquidity_amount_base", "amt", "base", la_b)
            self.o("liquidity_amount_quote", "amt", "quote", la_q)
            self.o("liquidity_value", "amt", "quote", ps.liquidity_value)
            self.o("pending_base", "pending", "base", pe_b)
            self.o("pending_quote", "pending", "quote", pe_q)
            self.o("pending_value", "pending", "quote", ps.pending_value)
            self.o("amount_base", "amt", "base", am_b)
            self.o("amount_quote", "amt", "quote", am_q)
            self.o("value", "amt", "quote", ps.value)
            self.o("H", "amt", "ratio", ps.H)
            self.o("L", "amt", "ratio", ps.L)
            self.o("P", "amt", "ratio", ps.P)
        self.cur = keep

    # ---- strategy phases
    def on_bar(self, strat, snap):
        self._phase(strat.bar, "on_bar")

    def after_bar(self, strat, snap):
        self._phase(strat.bar, "after_bar")
        if self.crash is None:
            try:
                self.read_all(strat.bar, "bar-end")
            except Exception as e:  # noqa
                self.crash = ("read", e, traceback.format_exc())

    def _phase(self, bar, phase):
        if self.crash is not None:
            return
        for si, st in enumerate(self.steps):
            if st["bar"] == bar and st["phase"] == phase:
                try:
                    self.step(bar, si, st)
                    self.read_all(bar, "after-" + st["op"])
                except Exception as e:  # noqa  harness-level or read-level crash: reported by the comparator
                    self.crash = (st["op"], e, traceback.format_exc())
                    return

    # ---- one operation
    def call(self, fn, *a, **kw):
        n0 = len(self.actions)
        res = Dr.call_op(fn, *a, **kw)
        acts = self.actions[n0:]
        names, mags = [], []
        P = self.price()
        for x in acts:
            nm = type(x).__name__
            mag = None  # value moved by a trade, in quote tokens (None: not a trade, always material)
            if nm == "SwapAction":
                from_base = getattr(x.amount, "unit", "") == self.pair.B.name
                nm += ":from-" + ("base" if from_base else "quote")
                mag = abs(Decimal(x.amount)) * (P if from_base else 1)
            elif nm in ("BuyAction", "SellAction"):
                mag = abs(Decimal(x.base_change)) * P
            names.append(nm)
            mags.append(mag)
        self.o("accepted", "ok", None, (res.ok, None if res.ok else type(res.exc).__name__), meta={"site": res.site, "exc": repr(res.exc)[:200]})
        self.o("actions", "count", None, tuple(names), meta={"mags": mags, "P": P})
        return res, tuple(names)

    def step(self, bar, si, st):
        m, pair, op = self.m, self.pair, st["op"]
        P = self.price()
        bal_b, bal_q = self.bal()
        summ = {"op": op, "bar": bar}

        def amount(f, balance):
            return None if f is None else balance * Decimal(str(f))

        if op in ("add_tick", "add_price", "add_value"):
            r_a = pair.ranges[st["r"]]
            lo, up = self.own_range(st["r"])
            cls = self.pvr(bar, r_a)
            name = {"add_tick": "add_liquidity_by_tick", "add_price": "add_liquidity", "add_value": "add_liquidity_by_value"}[op]
            self.cur = (bar, si, name, cls)
            if op == "add_tick":
                kw = {}
                if st["tick_off"] is not None:
                    tk = MR.safe_tick(pair.price_tick[bar] + st["tick_off"], pair.bounds)
                    if abs(tk) == 1:
                        tk = MR.safe_tick(tk + 3, pair.bounds)
                    kw["tick"] = self.own_tick(tk)
                    kw_tick_a = tk
                    cls = MR.price_vs_range(tk, *r_a) + "@tick-arg"
                    self.cur = (bar, si, name, cls)
                if st.get("raw"):
                    ta_lo, ta_up = r_a[0] + st["raw"][0], r_a[1] + st["raw"][1]
                    lo, up = (-ta_up, -ta_lo) if self.mir else (ta_lo, ta_up)
                    summ["offgrid"] = "half-way" if pair.sp // 2 in (abs(st["raw"][0]), abs(st["raw"][1])) else "small"
                a, b = (up, lo) if st["rev"] else (lo, up)
                res, acts = self.call(m.add_liquidity_by_tick, a, b, amount(st["fb"], bal_b), amount(st["fq"], bal_q), **kw)
                summ["arg"] = (f"b{_frac_cls(st['fb'])}/q{_frac_cls(st['fq'])}" + ("/rev" if st["rev"] else "") + ("/tickarg" if kw else "")
                               + ("/offgrid-" + summ["offgrid"] if summ.get("offgrid") else ""))
            elif op == "add_price":
                # base price falls when A's tick rises: lower price <-> A's upper tick
                p_lo = MR.base_price_of_tick_a(r_a[1] + st["d_up"], pair.dq, pair.db)
                p_up = MR.base_price_of_tick_a(r_a[0] + st["d_lo"], pair.dq, pair.db)
                res, acts = self.call(m.add_liquidity, p_lo, p_up, amount(st["fq"], bal_q), amount(st["fb"], bal_b))
                summ["arg"] = f"b{_frac_cls(st['fb'])}/q{_frac_cls(st['fq'])}"
            else:
                total = bal_q + bal_b * P
                val = amount(st["fv"], total)
                rounded = m.price_to_tick(P)
                meta = {"rounded_a": self.own_tick(rounded)}
                self.o("rounded_tick", "diag", None, self.own_tick(rounded), meta=meta)
                res, acts = self.call(m.add_liquidity_by_value, lo, up, val)
                summ["arg"] = f"v{_frac_cls(st['fv'])}/{pair.wallet_kind}"
                summ["scale_q"] = total if val is None else val
            summ["cls"] = cls
            summ["outcome"] = "+".join(a.split("Action")[0] + a.split("Action")[1] for a in acts) if res.ok else f"reject:{res.site}"
            if res.ok:
                pos, used_b, used_q, liq = res.ret
                self.positions.append(pos) if pos not in self.positions else None
                sc_q = summ.get("scale_q")
                self.o("position", "count", None, MR.to_frame_a(pos, self.mir))
                self.o("liquidity", "liq", "liq", liq, meta={"range": MR.to_frame_a(pos, self.mir), "tick": kw_tick_a if op == "add_tick" and kw else pair.price_tick[bar]})
                rmeta = {"range": MR.to_frame_a(pos, self.mir)}
                self.o("base_used", "amt", "base", used_b, scale=None if sc_q is None else sc_q / P, meta=rmeta)
                self.o("quote_used", "amt", "quote", used_q, scale=sc_q, meta=rmeta)
                summ["nz"] = liq != 0
        elif op in ("remove", "collect"):
            if not self.positions:
                self.cur = (bar, si, op, "no-position")
                self.o("skipped", "count", None, "no-position")
                summ.update(cls="-", outcome="skipped", arg="-")
                self.summaries.append(summ)
                return
            pos = self.positions[-1] if st.get("last") else self.positions[st["pos"] % len(self.positions)]
            ka = MR.to_frame_a(pos, self.mir)
            cls = self.pvr(bar, ka)
            live = pos in m.positions
            if op == "remove":
                self.cur = (bar, si, "remove_liquidity", cls)
                liq = None
                if st["fl"] is not None and live:
                    liq = int(Decimal(int(m.positions[pos].liquidity)) * Decimal(str(st["fl"])))
                    self.o("liquidity_asked", "liq", "liq", liq, meta={"range": ka, "tick": pair.price_tick[bar]})
                elif st["fl"] is not None:
                    liq = 12345
                res, acts = self.call(m.remove_liquidity, pos, liq, st["collect"], -1, st["dry"])
                summ["arg"] = f"l{_frac_cls(st['fl'])}/{'collect' if st['collect'] else 'keep'}/{'dry' if st['dry'] else 'nodry'}"
            else:
                self.cur = (bar, si, "collect_fee", cls)
                mb = mq = None
                if live:
                    pb, pq = self.bq(m.positions[pos].pending_amount0, m.positions[pos].pending_amount1)
                    mb, mq = amount(st["mb"], pb), amount(st["mq"], pq)
                m0, m1 = self.t01(mb, mq)
                res, acts = self.call(m.collect_fee, pos, m0, m1, st["dry"])
                summ["arg"] = f"b{_frac_cls(st['mb'])}/q{_frac_cls(st['mq'])}/{'dry' if st['dry'] else 'nodry'}"
            summ["cls"] = cls if live else "gone"
            summ["outcome"] = "ok" if res.ok else f"reject:{type(res.exc).__name__}"
            if res.ok:
                got_b, got_q = res.ret
                self.o("base_got", "amt", "base", got_b)
                self.o("quote_got", "amt", "quote", got_q)
                summ["nz"] = got_b != 0 or got_q != 0
        elif op in ("buy", "sell"):
            self.cur = (bar, si, op, "-")
            px = None if st["pmul"] is None else P * Decimal(str(st["pmul"]))
            amt = (bal_q / P if op == "buy" else bal_b) * Decimal(str(st["f"]))
            res, acts = self.call(getattr(m, op), amt, px)
            summ.update(cls="-", arg=f"{_frac_cls(st['f'])}/{'px' if px is not None else 'pool'}", outcome="ok" if res.ok else f"reject:{type(res.exc).__name__}")
            if res.ok:
                fee, spent, got = res.ret
                if op == "buy":
                    self.o("fee_quote", "amt", "quote", fee)
                    self.o("quote_spent", "amt", "quote", spent)
                    self.o("base_got", "amt", "base", got)
                else:
                    self.o("fee_base", "amt", "base", fee)
                    self.o("base_spent", "amt", "base", spent)
                    self.o("quote_got", "amt", "quote", got)
                summ["nz"] = got != 0
        elif op == "swap":
            frm, to = (pair.B, pair.Q) if st["frm"] == "base" else (pair.Q, pair.B)
            self.cur = (bar, si, "swap", "from-" + st["frm"])
            own_p = P if st["frm"] == "base" else 1 / P
            px = None if st["pmul"] is None else own_p * Decimal(str(st["pmul"]))
            amt = (bal_b if st["frm"] == "base" else bal_q) * Decimal(str(st["f"]))
            res, acts = self.call(m.swap, amt, frm, to, px)
            summ.update(cls="from-" + st["frm"], arg=f"{_frac_cls(st['f'])}/{'px' if px is not None else 'pool'}", outcome="ok" if res.ok else f"reject:{type(res.exc).__name__}")
            if res.ok:
                fee, got = res.ret
                self.o("fee_from", "amt", st["frm"], fee)
                self.o("to_amount", "amt", "quote" if st["frm"] == "base" else "base", got)
                summ["nz"] = got != 0
        elif op == "rebalance":
            self.cur = (bar, si, "even_rebalance", "-")
            px = None if st["pmul"] is None else P * Decimal(str(st["pmul"]))
            res, acts = self.call(m.even_rebalance, px)
            summ.update(cls="-", arg="px" if px is not None else "pool", outcome="+".join(acts) if res.ok else f"reject:{type(res.exc).__name__}")
            summ["nz"] = bool(acts)
        elif op in ("est_amount", "est_liq"):
            from demeter.uniswap import PositionInfo
            from demeter.uniswap.helper import base_unit_price_to_tick

            r_a = pair.ranges[st["r"]]
            lo, up = self.own_range(st["r"])
            cls = self.pvr(bar, r_a)
            value = (bal_q + bal_b * P + 1) * Decimal(str(st["fv"]))
            pool = m.pool_info
            floor_a = self.own_tick(base_unit_price_to_tick(P, pool.token0.decimal, pool.token1.decimal, pool.is_token0_quote))
            if op == "est_amount":
                self.cur = (bar, si, "estimate_amount", cls)
                self.o("floor_tick", "diag", None, floor_a, meta={"floor_a": floor_a})
                res, acts = self.call(m.estimate_amount, value, lo, up)
                if res.ok:
                    e_b, e_q = self.bq(*res.ret)
                    self.o("base_amount", "est", "base", e_b, scale=value / P)
                    self.o("quote_amount", "est", "quote", e_q, scale=value)
                    summ["nz"] = True
            else:
                self.cur = (bar, si, "estimate_liquidity", cls)
                self.o("floor_tick", "diag", None, floor_a, meta={"floor_a": floor_a})
                res, acts = self.call(m.estimate_liquidity, value, PositionInfo(lo, up))
                if res.ok:
                    liq, a0, a1 = res.ret
                    e_b, e_q = self.bq(a0, a1)
                    self.o("liquidity", "est", "liq", liq, meta={"range": r_a, "tick": pair.price_tick[bar]})
                    self.o("base_amount", "est", "base", e_b, scale=value / P)
                    self.o("quote_amount", "est", "quote", e_q, scale=value)
                    summ["nz"] = True
            summ.update(cls=cls, arg=str(st["fv"]), outcome="ok" if res.ok else f"reject:{type(res.exc).__name__}")
        elif op == "helpers":
            r_a = pair.ranges[st["r"]]
            self.cur = (bar, si, "tick_to_price", "-")
            for t_a in (r_a[0], r_a[1], pair.price_tick[bar]):
                self.o(f"price", "amt", "ratio", m.tick_to_price(self.own_tick(t_a)))
            self.cur = (bar, si, "price_to_tick", "-")
            for b in r_a:
                p = MR.base_price_of_tick_a(b + st["d"], pair.dq, pair.db)
                self.o("usable_tick", "count", None, self.own_tick(m.price_to_tick(p)))
            summ.update(cls="-", arg="-", outcome="ok", nz=True)
        else:
            raise ValueError(op)
        self.summaries.append(summ)


def run_one(pair, mirrored, steps):
    m = pair.market(mirrored)
    runner = Runner(pair, m, mirrored, steps)
    strat = Dr.make_script_strategy(observer=runner)
    act = Dr.build_actuator([m], m.get_price_from_data(), None, {pair.B: pair.wallet["base"], pair.Q: pair.wallet["quote"]}, strat)
    try:
        act.run(False)
    except Exception as e:  # noqa
        if runner.crash is None:
            runner.crash = ("actuator", e, traceback.format_exc())
    return runner



# =============================================================================== listed finding: float decimal factor
FF_SITE = "float-decimal-factor/price-within-a-tick-of-a-range-bound"
LN_1P0001 = Fraction(99995000333, 10**15)  # ln(1.0001)


def float_factor_delta(dq, db):
    """Relative error of the factor 10 ** (d0 - d1) demeter's price helpers build as a Python float when d0 < d1
    (Decimal(10 ** -12) is 9.99999999999999979886...e-13): one of the two orientations of a pair with different
    decimals carries it, the other one is exact, so the same Decimal price is read as sqrt prices delta/2 apart."""
    k = abs(int(dq) - int(db))
    if k == 0:
        return Fraction(0)
    return abs(Fraction(10.0 ** -k) * 10**k - 1)


def float_factor_bound(pair, bar, ranges):
    """Largest relative deviation the float factor explains for a figure of a position whose price sits at
    price_tick[bar] + off[bar] (A's frame), next to the bounds of `ranges`: the two orientations see sqrt prices
    delta/2 apart, a liquidity or amount bound by the vanishing token is (offer / distance to the bound), so it
    moves by (delta/2) / (relative sqrt distance) = delta / (distance in ticks x ln 1.0001).  None when the price is not
    strictly inside a tick next to one of those bounds."""
    delta = float_factor_delta(pair.dq, pair.db)
    if delta == 0 or not pair.price_mode.endswith("off-tick") or not (0 <= bar < len(pair.off)) or not pair.off[bar]:
        return None
    x = Fraction(pair.price_tick[bar]) + Fraction(pair.off[bar])
    dist = min((abs(x - b) for r in ranges for b in r), default=None)
    if dist is None or dist == 0 or dist >= 1:
        return None
    return delta / (dist * LN_1P0001)


def float_factor_probe(mon):
    """The listed finding, reproduced on purpose once per run (shard 0): one pool pair with different decimals, one
    bar whose price sits 0.02 tick under the upper bound of a range, a deposit bound by the vanishing token."""
    from datetime import datetime
    from decimal import Context

    from demeter import Broker, MarketInfo, MarketTypeEnum, TokenInfo
    from demeter.uniswap import UniLpMarket, UniswapMarketStatus, UniV3Pool, UniV3PoolStatus

    q, b = TokenInfo("ffq", 18), TokenInfo("ffb", 6)
    lo, up, f = -211730, -211700, Fraction(98, 100)
    c = Context(prec=60)
    t = Decimal(-211701) + Decimal(f.numerator) / Decimal(f.denominator)
    price = Context(prec=30).plus(c.divide(Decimal(1), c.multiply(c.power(Decimal("1.0001"), t), Decimal(10) ** 12)))
    liq = []
    for mirror in (False, True):
        pool = UniV3Pool(b, q, 0.05, q) if mirror else UniV3Pool(q, b, 0.05, q)
        m = UniLpMarket(MarketInfo("uni", MarketTypeEnum.uniswap_v3), pool)
        br = Broker()
        br.add_market(m)
        br.set_balance(q, Decimal(10) ** 9)
        br.set_balance(b, Decimal(10) ** 9)
        st = UniV3PoolStatus(price=price, currentLiquidity=10**18, inAmount0=0, inAmount1=0, closeTick=0)
        m.set_market_status(UniswapMarketStatus(datetime(2024, 1, 1), st), None)
        r = Dr.call_op(m.add_liquidity_by_tick, *((-up, -lo) if mirror else (lo, up)), Decimal(10) ** 8, Decimal("0.0001"))
        if not r.ok:
            mon.violation("uniswap", "add_liquidity_by_tick", "raises", f"float-factor-probe/{type(r.exc).__name__}", repr(r.exc))
            return
        liq.append(Fraction(int(r.ret[3])))
    mon.ev()
    mon.hit("float-factor-probe")
    rel = abs(liq[0] - liq[1]) / max(liq)
    bound = float_factor_delta(18, 6) / ((1 - f) * LN_1P0001)
    mon.note("float_factor_probe", {"liquidity_A": int(liq[0]), "liquidity_mirror": int(liq[1]), "relative_difference": float(rel),
                                    "explained_by_float_factor_up_to": float(bound)})
    if rel > MR.EXACT:
        site = FF_SITE if rel <= 2 * bound else "probe/beyond-what-the-float-factor-explains"
        mon.violation(
            "uniswap", "add_liquidity_by_tick", "liquidity/exact", site,
            f"probe: decimals 18/6, range ({lo},{up}), price {price} = 0.02 tick under the upper bound, offers 1e8 base / 0.0001 quote: "
            f"liquidity A {int(liq[0])} vs mirror {int(liq[1])}, relative difference {float(rel):.3e} (float factor explains up to {float(bound):.3e})",
        )


# =============================================================================== comparison
def _site_for(oa, om, diag):
    site = oa.site
    if oa.op in ("estimate_amount", "estimate_liquidity") and "floor" in diag:
        site += "/floor-tick-" + ("same" if diag["floor"] else "differs-between-orientations")
    if oa.op == "add_liquidity_by_value" and "rounded" in diag:
        site += "/usable-tick-" + ("same" if diag["rounded"] else "differs-between-orientations")
    return site


def _gross_value(runmax, price):
    """Largest holdings seen so far in the script, in quote tokens."""
    return runmax["quote"] + runmax["base"] * MR.frac(price)


def _material_actions(o, tol, runmax):
    gross = _gross_value(runmax, o.meta["P"])
    return tuple(nm for nm, mag in zip(o.value, o.meta["mags"]) if mag is None or MR.frac(mag) > tol * gross)


def compare(mon, pair, ra, rm, case_no, sticky_possible):
    """Walk the two observation lists in parallel."""
    tolclass = "exact"
    quantum = Fraction(0)
    runmax = {"base": MR.frac(pair.wallet["base"]), "quote": MR.frac(pair.wallet["quote"]), "liq": Fraction(0),
              "pending-base": Fraction(0), "pending-quote": Fraction(0)}
    first_value_op = None
    diag = {}
    seen_ranges = set()
    bad_step = None
    worst = {"exact": Fraction(0), "estimate": Fraction(0)}
    nz_steps = set()
    div_step, div_r, diverged = None, Fraction(0), False
    n = min(len(ra.obs), len(rm.obs))
    for i in range(n):
        oa, om = ra.obs[i], rm.obs[i]
        step_id = oa.label.rsplit("/", 1)[0]  # bar/step/operation: the fields of one operation's result
        if bad_step is not None and step_id != bad_step:
            break
        if div_step is not None and step_id != div_step:
            if div_r > DIVERGED:
                # add_liquidity_by_value kept its 0.1 %, but the two states now differ by more than rounding: what
                # follows (which token the remainder is in, how much liquidity it buys in a narrow range, the fee
                # share of every position) is a consequence the statement does not bound
                diverged = True
                break
            div_step, div_r = None, Fraction(0)
        if oa.label != om.label:
            mon.ev()
            mon.violation("uniswap", oa.op, "trace-shape", oa.site, f"observation {i}: A recorded {oa.label}, mirror recorded {om.label}", {"case": case_no})
            bad_step = step_id
            break
        if oa.op == "add_liquidity_by_value":
            tolclass = "estimate"  # sticky from the first attempt on
            if first_value_op is None:
                first_value_op = step_id
        if oa.kind == "diag":
            if oa.field == "floor_tick":
                diag["floor"] = oa.value == om.value
            else:
                diag["rounded"] = oa.value == om.value
            mon.cls(f"diag/{oa.op}/{oa.field}/" + ("same" if oa.value == om.value else "differs"))
            continue
        mon.ev()
        if oa.meta and "range" in oa.meta:
            seen_ranges.add(tuple(oa.meta["range"]))
        if oa.kind in ("ok", "count"):
            va, vm = oa.value, om.value
            if oa.field == "actions" and va != vm:
                # a trade that moves less than the tolerance of the gross amounts seen so far is rounding dust (an
                # already balanced wallet "rebalanced" by 1e-34 of itself, in either direction): not an outcome
                tol_now = MR.ESTIMATE if tolclass == "estimate" else MR.EXACT
                va, vm = (_material_actions(o, tol_now, runmax) for o in (oa, om))
            if va != vm:
                if oa.kind == "ok":
                    clause = "rejection-not-mirrored" if oa.value[0] != om.value[0] else "rejection-type-differs"
                    detail = (f"A: {'accepted' if oa.value[0] else oa.meta['exc'] + ' @' + str(oa.meta['site'])}; "
                              f"mirror: {'accepted' if om.value[0] else om.meta['exc'] + ' @' + str(om.meta['site'])}")
                else:
                    clause = f"{oa.field}-differs"
                    detail = f"A (in A's frame / base-quote terms): {oa.value!r}; mirror: {om.value!r}"
                mon.violation("uniswap", oa.op, clause, _site_for(oa, om, diag), f"{oa.label}: {detail}", {"case": case_no, "world": pair.describe()})
                bad_step = step_id
                break  # what follows has a different shape
            continue
        # numeric
        try:
            a, b = MR.frac(oa.value), MR.frac(om.value)
        except Exception as e:  # noqa  NaN / inf
            mon.violation("uniswap", oa.op, f"{oa.field}/non-finite", oa.site, f"{oa.label}: A {oa.value!r} mirror {om.value!r}", {"case": case_no})
            bad_step = step_id
            continue
        if oa.unit == "liq" and oa.kind == "liq":
            lmin = min(abs(a), abs(b))
            if lmin > 0:
                quantum = max(quantum, MR.liquidity_quantum(lmin))
        est = tolclass == "estimate" or oa.kind == "est"
        tol = MR.ESTIMATE if est else MR.EXACT
        scale = None
        rkey = ("pending-" + str(oa.unit)) if oa.kind == "pending" else oa.unit
        offgrid = pair.price_mode != "on-tick"
        near = offgrid and oa.kind in ("amt", "est", "wallet", "pending") and oa.unit in ("base", "quote")
        if oa.kind in ("wallet", "pending") or near:
            # in the worlds whose prices come within a tick of a range bound the vanishing token of a position is L x (a
            # difference of two nearly equal integer sqrt prices): its own relative precision is that of the integer grid
            # (1e-10 at tick -270000), and what is later traded out of such a remainder inherits it; there every amount is
            # measured, like a wallet balance, against the largest amount of its token seen so far
            scale = runmax.get(rkey)
            if near:
                # ... expressed in this token: a wallet that never held the base token still makes a position whose base
                # leg is a vanishing share of the quote it put in
                bar_s = oa.label.split("/")[0]
                if bar_s.isdigit():
                    p_bar = MR.frac(MR.base_price_of_tick_a(pair.price_tick[int(bar_s)], pair.dq, pair.db))
                    other = max(runmax.get("quote" if oa.unit == "base" else "base") or 0,
                                runmax.get("pending-quote" if oa.unit == "base" else "pending-base") or 0)
                    own = max(runmax.get(oa.unit) or 0, runmax.get("pending-" + str(oa.unit)) or 0)
                    scale = max(scale or 0, own, other / p_bar if oa.unit == "base" else other * p_bar)
            if oa.field == "pending_value":  # = pending base * price + pending quote
                bar_s = oa.label.split("/")[0]
                p_bar = MR.base_price_of_tick_a(pair.price_tick[int(bar_s)], pair.dq, pair.db)
                scale = runmax["pending-quote"] + runmax["pending-base"] * MR.frac(p_bar)
        elif offgrid and oa.unit == "liq" and oa.meta and "range" in oa.meta:
            # likewise a liquidity figure: against the liquidity that the gross holdings seen so far would be in its own range
            bar_s = oa.label.split("/")[0]
            if bar_s.isdigit():
                p_bar = MR.base_price_of_tick_a(pair.price_tick[int(bar_s)], pair.dq, pair.db)
                scale = max(runmax.get(rkey) or 0, MR.liquidity_of_value_a(_gross_value(runmax, p_bar), pair.dq, oa.meta["tick"], *oa.meta["range"]))
        elif tolclass == "estimate" and oa.unit in ("base", "quote", "liq"):
            # the state reached through an estimate-based helper is only known to 0.1 % of the gross amounts: from
            # the step after the first add_liquidity_by_value on, everything is measured against the largest figure
            # of its unit seen so far (a remainder of 0.05 % of the wallet may legitimately be 0 in the mirror).
            # A liquidity figure is measured against the liquidity the gross holdings would be in *its* range
            # (0.05 % of the wallet put into a narrow range is more liquidity than all of it in a wide one).
            if step_id != first_value_op:
                scale = runmax.get(rkey)
                if oa.unit == "liq" and oa.meta and "range" in oa.meta:
                    bar_s = oa.label.split("/")[0]
                    p_bar = MR.base_price_of_tick_a(pair.price_tick[int(bar_s)], pair.dq, pair.db)
                    l_eq = MR.liquidity_of_value_a(_gross_value(runmax, p_bar), pair.dq, oa.meta["tick"], *oa.meta["range"])
                    scale = max(scale, l_eq)
        if oa.scale is not None:
            s2 = max(abs(MR.frac(oa.scale)), abs(MR.frac(om.scale)))
            scale = s2 if scale is None else max(scale, s2)
        if rkey in runmax:
            runmax[rkey] = max(runmax[rkey], abs(a), abs(b))
        ok, r = MR.close(a, b, tol, scale, quantum)
        if oa.op == "add_liquidity_by_value" and oa.kind != "est":
            div_step, div_r = step_id, max(div_r, r)
        cname = "estimate" if est else "exact"
        if r > worst[cname]:
            worst[cname] = r
        if a != 0 or b != 0:
            nz_steps.add(step_id)
        if not ok:
            site = _site_for(oa, om, diag)
            bar_s = oa.label.split("/")[0]
            if not est and bar_s.isdigit():
                # the one listed finding (known_findings.jsonl): the same Decimal price is read as sqrt prices 1e-17 apart by
                # the two orientations (float factor 10 ** (d0 - d1)), amplified by 1 / distance next to a range bound
                rs = [oa.meta["range"]] if oa.meta and "range" in oa.meta else sorted(seen_ranges)
                ff = float_factor_bound(pair, int(bar_s), rs)
                if ff is not None and r <= 2 * ff + tol + quantum:
                    site = FF_SITE
            mon.violation(
                "uniswap", oa.op, f"{oa.field}/{cname}", site,
                f"{oa.label}: A {float(a)!r} vs mirror {float(b)!r} (base/quote terms), relative difference {float(r):.3e} > "
                f"{float(tol + quantum):.3e} (scale {None if scale is None else float(scale)!r}); dec quote/base {pair.dq}/{pair.db}, fee {pair.fee}, "
                f"price tick(A) {pair.price_tick[int(oa.label.split('/')[0])] if oa.label.split('/')[0].isdigit() else '?'}",
                {"case": case_no, "world": pair.describe(), "script": ra.steps},
            )
            bad_step = step_id
    if bad_step is None and not diverged and len(ra.obs) != len(rm.obs):
        mon.ev()
        longer = ra if len(ra.obs) > len(rm.obs) else rm
        extra = longer.obs[n]
        mon.violation("uniswap", extra.op, "trace-shape", extra.site, f"A recorded {len(ra.obs)} observations, mirror {len(rm.obs)}; first extra: {extra.label}", {"case": case_no})
        bad_step = "shape"
    return bad_step is None, tolclass, quantum, worst, nz_steps, diverged


# =============================================================================== driver
def run(spec, mon):
    if spec.get("shard") == 0 and mon.want("float-factor-probe"):
        float_factor_probe(mon)
    for c in range(spec["cases"]):
        rng = mon.case_rng(c)
        if not mon.want(c):
            continue
        try:
            one_case(mon, rng, c)
        except Exception as e:  # harness crashed
            mon.violation("uniswap", "harness", "unexpected-exception", Dr.reject_site(e), traceback.format_exc()[-1500:])


def one_case(mon, rng, c):
    pair = Pair(rng)
    allow_est = rng.random() < 0.5  # exact-tolerance scripts contain no add_liquidity_by_value
    steps = gen_script(rng, pair, allow_est)
    ra = run_one(pair, False, steps)
    rm = run_one(pair, True, steps)
    mon.hit("pairs")
    for r, name in ((ra, "A"), (rm, "mirror")):
        if r.crash is not None:
            op, e, tb = r.crash
            mon.ev()
            other = rm if r is ra else ra
            if other.crash is None or type(other.crash[1]) is not type(e):
                mon.violation("uniswap", op, "raises", f"{type(e).__name__}@{Dr.reject_site(e)}/{name}-only", tb[-1500:], {"case": c, "world": pair.describe()})
            else:
                mon.violation("uniswap", op, "raises", f"{type(e).__name__}@{Dr.reject_site(e)}/both", tb[-1500:], {"case": c, "world": pair.describe()})
            return
    ok, tolclass, quantum, worst, nz_steps, diverged = compare(mon, pair, ra, rm, c, allow_est)
    mon.cls(f"script/{tolclass}/" + (("agree-until-stopped" if diverged else "agree") if ok else "MISMATCH"))
    mon.cls("quantum/" + ("<1e-14" if quantum < Fraction(1, 10**14) else "<1e-12" if quantum < Fraction(1, 10**12) else "<1e-9" if quantum < Fraction(1, 10**9) else "coarse"))
    for k, v in worst.items():
        prev = mon.notes.get(f"worst_rel_{k}_shard{mon.shard.get('shard', 0)}", 0.0)
        mon.note(f"worst_rel_{k}_shard{mon.shard.get('shard', 0)}", max(prev, float(v)))
    # classes and distinct non-trivial keys from A's step summaries
    for si, s in enumerate(ra.summaries):
        mon.hit(s["op"])
        mon.cls(f"op/{s['op']}/{s.get('cls', '-')}/{s.get('outcome', '-')}")
        if s.get("nz"):
            mon.nt(f"{s['op']}/{s.get('cls')}/{s.get('outcome')}/{s.get('arg')}/{pair.dq}-{pair.db}/{pair.fee}/{tolclass}")
        if s["op"] == "add_value" and str(s.get("outcome", "")).startswith(("Swap", "AddLiquidity")):
            mon.hit("add_value_accepted")
    # per-bar fee accrual classes: which bars had a position in range / crossing
    crossing = 0
    for i in range(pair.n):
        a, b = pair.price_tick[i], pair.ticks[i]
        for (lo, up) in pair.ranges:
            ca, cb = MR.price_vs_range(a, lo, up), MR.price_vs_range(b, lo, up)
            if ca != cb:
                crossing += 1
    if crossing and any(s["op"].startswith("add") and s.get("nz") for s in ra.summaries):
        mon.hit("scripts_with_crossing_bars")
        mon.nt(f"fee-path/{pair.path_kind}/cross{min(crossing, 6)}/{pair.dq}-{pair.db}/{pair.fee}/{pair.tick_dtype}")
    mon.nt(f"world/{pair.price_kind}/{pair.wallet_kind}/{pair.path_kind}/{pair.dq}-{pair.db}/{pair.fee}/{pair.price_mode}")
    mon.hit(f"worlds/{pair.price_mode}")
    mon.sample(
        {"world": pair.describe(), "script": steps[:8], "observations_compared": len(ra.obs), "tolerance_class": tolclass,
         "worst_relative_difference": {k: float(v) for k, v in worst.items()},
         "first_results_A_vs_mirror": [[o.label, str(o.value)[:40], str(p.value)[:40]] for o, p in list(zip(ra.obs, rm.obs))[:6]]},
        cls=f"{tolclass}/{pair.wallet_kind}",
    )


def floors(merged, tier):
    out = []
    reach = merged["reach"]
    need = {"add_tick": 20, "add_price": 8, "remove": 8, "collect": 3, "buy": 2, "sell": 2, "swap": 2, "rebalance": 2,
            "est_amount": 3, "est_liq": 3, "add_value": 8, "add_value_accepted": 3, "scripts_with_crossing_bars": 3}
    for k, v in need.items():
        if reach.get(k, 0) < v:
            out.append(f"{k} reached {reach.get(k, 0)} times (< {v})")
    if merged["classes"].get("script/exact/agree", 0) + merged["classes"].get("script/exact/MISMATCH", 0) < 10:
        out.append("fewer than 10 exact-tolerance scripts")
    if merged["classes"].get("script/estimate/agree", 0) + merged["classes"].get("script/estimate/MISMATCH", 0) < 10:
        out.append("fewer than 10 scripts with add_liquidity_by_value compared to their end (the others were stopped after an "
                   "add_liquidity_by_value whose two results differed by more than 1e-9 within its 0.1 %)")
    return out
