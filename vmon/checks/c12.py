"""C12 — Aave liquidation at the end of a bar: only below HF 1, close factor, exact bonus, wallet untouched.

Step replay of the recorded LiquidationAction objects (oracles/aave_liq.py, Fraction): every recorded step is
checked clause by clause against the state it started from.  Three drivers:
  * frozen : AaveV3Market held by drive.Frozen, portfolio built at bar 0, then bar after bar prices are solved
             (exactly, in Fraction) so that the health factor lands in a chosen band, Market.update() is called and
             the state is observed before, right after every recorded step, and after.
  * exact  : like frozen with indices 1 and short decimals, health factor *exactly* 1 / 0.95 / one part in 1e18 off.
  * actuator: the same kind of world run through the real Actuator bar loop (scripted strategy); the state is
             observed only through the strategy's phases (end of on_bar = before update(), after_bar = after) and
             the records are replayed with each token's own index.
"""
import os
import traceback
from decimal import ROUND_DOWN, Context, Decimal
from fractions import Fraction

import pandas as pd

from .. import drive as Dr
from .. import worlds as W
from ..oracles import aave_liq as O

ID = "C12"
META = {
    "level": "exploration",
    "rule": "a case = one generated portfolio (1-3 collaterals, optional non-collateral supply, 1-3 debts, per-token "
    "liquidity and borrow indices) followed over 3-8 bars whose prices are solved so that the health factor lands in "
    "a chosen band ((0.95,1), (0.5,0.95], (0,0.5], >=1, 1e-9 next to 1 and 0.95, exactly 1 / 0.95); every "
    "Market.update() is one monitored unit: 4 comparisons per update (iff, termination, wallet, state chain) + 12 per "
    "recorded step.  Non-trivial = an update that started with 0 < HF < 1 (or exactly on a threshold); distinct by "
    "(driver, HF band, #collaterals, #debts, per-step pattern of close factor and repayment class, index relation of "
    "the first pair, debt price class, end reason).",
    "assumptions": [
        "amount comparisons allow 1e-15 relative plus 2e-18 scaled units (helper.sub_base_amount drops scaled balances "
        "below 1e-18); the net-value clause additionally allows 1e-28 of the gross position value (difference of two "
        "35-digit Decimal valuations)",
        "a health factor within 1e-25 relative of 1 or 0.95, but not exactly on it, may be classified either way; exactly "
        "on the threshold is decided strictly (HF = 1: no liquidation; HF = 0.95: close factor 100 %)",
        "the statement bounds the repayment only from above ('at most the close factor'): a step that repays less (the "
        "code compares the debt's USD value with close factor x token amount, so a debt token priced below the close "
        "factor is repaid only price x amount) is not a violation; it is classified (repay class 'debt-value-as-amount')",
        "which collateral/debt pair is chosen is not constrained by the statement and is not checked; a second step on the "
        "same debt token in one bar is reported (statement: 'every debt visited once')",
        "LiquidationAction.delt_to_cover is a request parameter, not a state change: it is not compared (it holds the "
        "debt's USD value labelled with the token unit); action_type of the record is not compared either",
        "bar prices and indices are the ones the harness supplied (price row / token data frames), not read back from the market",
        "worlds have liquidation threshold > 0 and supplies flagged collateral only on collateral-enabled tokens, so a "
        "selected pair is never rejected by _do_liquidate's own validation",
    ],
}
NSHARDS = 16
STEP_EVALS = 12
UPDATE_EVALS = 4
TOKENS = [("WETH", 18), ("USDC", 6), ("WBTC", 8), ("DAI", 18), ("LINK", 18), ("AAVE", 18)]
F = O.F


def plan(tier, seed):
    if tier == "quick":
        return [{"shard": i, "frozen": 100, "exact": 24, "actuator": 15} for i in range(NSHARDS)]
    return [{"shard": i, "frozen": 2600, "exact": 300, "actuator": 260} for i in range(NSHARDS)]


# ---------------------------------------------------------------------------------------------- helpers
def dec(fr: Fraction, digits=18) -> Decimal:
    """Fraction -> Decimal with `digits` significant digits, rounded down (harness-side input generation only;
    a local context, the global Decimal context is not touched)."""
    return Context(prec=digits, rounding=ROUND_DOWN).divide(Decimal(fr.numerator), Decimal(fr.denominator))


def observe(m) -> O.State:
    sup = {}
    for k in m.supply_keys:
        s = m.get_supply(k)
        sup[k.name] = (F(s.base_amount), bool(s.collateral))
    bor = {k.name: F(m.get_borrow(k).base_amount) for k in m.borrow_keys}
    return O.State(sup, bor)


def wallet_of(broker):
    return {k.name: Decimal(v.balance) for k, v in broker.assets.items()}


def hf_of_record(x):
    x = Decimal(x)
    if x.is_infinite():
        return None
    return F(x)


def to_rec(a) -> O.Rec:
    return O.Rec(
        str(a.collateral_token), str(a.debt_token), F(Decimal(a.collateral_used)), F(Decimal(a.variable_delt_liquidated)),
        hf_of_record(a.health_factor_before), hf_of_record(a.health_factor_after), F(Decimal(a.collateral_after)),
        F(Decimal(a.variable_debt_after)), F(Decimal(a.delt_to_cover)),
    )


class World:
    """AaveWorld (risk rows, csv, market construction) with our own index frames and price rows."""

    def __init__(self, rng, nbars, toks, index_mode, all_flags):
        self.w = W.AaveWorld(rng, n=nbars, tokens=toks, index_kind="flat", all_flags=all_flags, prices=pd.DataFrame())
        self.names = [t.name for t in self.w.tokens]
        self.tok = {t.name: t for t in self.w.tokens}
        self.index = self.w.index
        self.li, self.bi = {}, {}
        for nm in self.names:
            if index_mode == "one":
                li = bi = Decimal(1)
            elif index_mode == "equal":  # one common liquidity index, borrow indices differ
                li = Decimal("1.25")
                bi = Decimal(1) + Decimal(rng.randint(0, 900000)) / 1000000
            else:
                li = Decimal(1) + Decimal(rng.randint(0, 600000)) / 1000000
                bi = Decimal(1) + Decimal(rng.randint(0, 999999)) / 1000000
            ls, bs, rows = [], [], []
            for i in range(nbars):
                if i and index_mode == "jumpy":
                    li = li * (1 + Decimal(rng.choice([0, 0, 1, 300, 20000]) * rng.randint(0, 1000)) / 10**9)
                    bi = bi * (1 + Decimal(rng.choice([0, 0, 2, 5000, 60000]) * rng.randint(0, 1000)) / 10**9)
                elif i and index_mode == "erode":  # debts outgrow the collateral: the health factor falls with prices unchanged
                    bi = bi * (1 + Decimal(rng.choice([0, 0, 10, 40, 150]) * rng.randint(0, 1000)) / 10**6)
                elif i and index_mode == "slow":
                    li = li * (1 + Decimal(rng.randint(0, 2000)) / 10**9)
                    bi = bi * (1 + Decimal(rng.randint(0, 5000)) / 10**9)
                ls.append(li)
                bs.append(bi)
                if index_mode == "frozen" and rows and i % 9:
                    # the reserve is not touched on chain: the whole row (rates and indices) repeats, only prices move
                    rows.append(dict(rows[-1]))
                    continue
                rows.append({
                    "liquidity_rate": Decimal(rng.randint(0, 8000)) / 100000, "stable_borrow_rate": Decimal("0.05"),
                    "variable_borrow_rate": Decimal(rng.randint(0, 12000)) / 100000, "liquidity_index": li,
                    "variable_borrow_index": bi,
                })
            self.li[nm], self.bi[nm] = ls, bs
            self.w.data[nm] = pd.DataFrame(rows, index=pd.DatetimeIndex(self.index))
        self.lt = {nm: F(self.w.risk[nm]["lt"]) for nm in self.names}
        self.ltv = {nm: F(self.w.risk[nm]["ltv"]) for nm in self.names}
        self.bonus = {nm: F(self.w.risk[nm]["bonus"]) for nm in self.names}
        self.can_coll = {nm: self.w.risk[nm]["collateral"] for nm in self.names}
        self.can_borrow = {nm: self.w.risk[nm]["borrow"] for nm in self.names}

    def market(self):
        m = self.w.market()
        try:
            os.remove(self.w.risk_path)
        except OSError:
            pass
        return m

    def env(self, bar, prices) -> O.Env:
        return O.Env(
            {nm: F(self.li[nm][bar]) for nm in self.names}, {nm: F(self.bi[nm][bar]) for nm in self.names},
            {nm: F(prices[nm]) for nm in self.names}, self.lt, self.bonus,
        )


def base_prices(rng, names, low_debt_price=None):
    out = {}
    for nm in names:
        if nm in ("USDC", "DAI"):
            p = Fraction(rng.randint(990000, 1010000), 10**6)
        else:
            e = rng.uniform(-1.3, 4.7)
            p = Fraction(int(10 ** (e + 6)), 10**6)
        out[nm] = p
    if low_debt_price:
        out[low_debt_price] = Fraction(rng.randint(20000, 480000), 10**6)  # below the 50 % close factor
    return out


def plan_portfolio(rng, wd: World, prices, bar=0, tight=False):
    """Amounts (token units, Decimal) for supplies and borrows at bar 0, HF comfortably above 1."""
    colls = [nm for nm in wd.names if wd.can_coll[nm]]
    borrowable = [nm for nm in wd.names if wd.can_borrow[nm]]
    nc = min(len(colls), rng.choice([1, 1, 2, 2, 3]))
    cs = rng.sample(colls, nc)
    total = Fraction(int(10 ** rng.uniform(2, 9)))
    tiny = rng.random() < 0.1
    if tiny:
        # an account worth a fraction of a cent: positions of a few atomic units of a 6- or 8-decimals token
        total = Fraction(rng.randint(2, 400), 10**6)
    weights = [Fraction(rng.choice([1, 1, 5, 20, 100, 1000])) for _ in cs]
    sw = sum(weights)
    sup = []
    for nm, wgt in zip(cs, weights):
        amt = total * wgt / sw / prices[nm]
        sup.append((nm, dec(amt, 18 if tiny else rng.choice([4, 9, 18])), True))
    rest = [nm for nm in wd.names if nm not in cs]
    if rest and rng.random() < 0.35:  # a supply that is not collateral (never seized)
        nm = rng.choice(rest)
        sup.append((nm, dec(total * Fraction(rng.randint(1, 300), 100) / prices[nm], 18 if tiny else 6), False))
    cap = sum(F(a) * prices[nm] * wd.ltv[nm] for nm, a, c in sup if c)
    nd = min(len(borrowable), rng.choice([1, 1, 2, 2, 3]))
    ds = rng.sample(borrowable, nd)
    use = Fraction(rng.randint(90, 99), 100) if tight else Fraction(rng.randint(30, 96), 100)
    dw = [Fraction(rng.choice([1, 1, 3, 10, 100, 3000])) for _ in ds]
    bor = []
    for nm, wgt in zip(ds, dw):
        amt = cap * use * wgt / sum(dw) / prices[nm]
        a = dec(amt, 18 if tiny else rng.choice([5, 12, 18]))
        if a > 0:
            bor.append((nm, a))
    return sup, bor


def solve_prices(rng, st: O.State, env: O.Env, target: Fraction, names):
    """New price dict with HF(st) == target (up to 18-digit rounding of the prices), or None."""
    coll = [k for k, (s, c) in st.sup.items() if c and s > 0]
    debts = [k for k, s in st.bor.items() if s > 0]
    if not coll or not debts:
        return None
    groups = []
    for _ in range(6):
        r = rng.random()
        if r < 0.45:
            g = rng.sample(coll, rng.randint(1, len(coll)))
        elif r < 0.85:
            g = rng.sample(debts, rng.randint(1, len(debts)))
        else:
            g = [rng.choice(coll + debts)]
        groups.append(set(g))
    groups.append(set(coll))
    groups.append(set(debts))
    p = dict(env.price)
    cw = {k: st.sup[k][0] * env.li[k] * p[k] * env.lt[k] for k in coll}
    dv = {k: st.bor[k] * env.bi[k] * p[k] for k in debts}
    for g in groups:
        cg = sum((v for k, v in cw.items() if k in g), Fraction(0))
        cr = sum((v for k, v in cw.items() if k not in g), Fraction(0))
        dg = sum((v for k, v in dv.items() if k in g), Fraction(0))
        dr = sum((v for k, v in dv.items() if k not in g), Fraction(0))
        den = cg - target * dg
        if den == 0:
            continue
        f = (target * dr - cr) / den
        if not (Fraction(1, 10**5) < f < Fraction(10**5)):
            continue
        out = dict(p)
        for k in g:
            out[k] = p[k] * f
        return out
    return None


BANDS = [
    ("(0.95,1)", 5), ("(0.5,0.95]", 4), ("(0,0.5]", 3), (">=1", 2), ("1-", 1), ("1+", 1), ("0.95+", 2), ("0.95-", 1),
    ("natural", 2),
]


def pick_target(rng):
    band = rng.choices([b for b, _ in BANDS], [w for _, w in BANDS])[0]
    if band == "(0.95,1)":
        h = Fraction(rng.randint(950001, 999999), 10**6)
    elif band == "(0.5,0.95]":
        h = Fraction(rng.randint(500001, 950000), 10**6)
    elif band == "(0,0.5]":
        h = Fraction(rng.randint(20000, 500000), 10**6)
    elif band == ">=1":
        h = Fraction(rng.randint(1000001, 1300000), 10**6)
    elif band == "1-":
        h = 1 - Fraction(1, 10 ** rng.randint(6, 12))
    elif band == "1+":
        h = 1 + Fraction(1, 10 ** rng.randint(6, 12))
    elif band == "0.95+":
        h = Fraction(95, 100) + Fraction(1, 10 ** rng.randint(6, 12))
    elif band == "0.95-":
        h = Fraction(95, 100) - Fraction(1, 10 ** rng.randint(6, 12))
    else:
        h = None
    return band, h


def hf_band(hf):
    if hf is None:
        return "no-debt"
    if hf == 0:
        return "0"
    if hf == 1:
        return "=1"
    if hf == O.HF_CLOSE:
        return "=0.95"
    if hf > 1:
        return ">1"
    if hf > O.HF_CLOSE:
        return "(0.95,1)"
    if hf > Fraction(1, 2):
        return "(0.5,0.95)"
    return "(0,0.5]"


# ---------------------------------------------------------------------------------------------- monitor of one update
def judge_update(mon, driver, wd, bar, env, pre, recs, posts, final, wallet_pre, wallet_posts, wallet_final, ctx):
    """All clause checks of one update(); classification and evidence."""
    mon.hit("updates")
    mon.ev(UPDATE_EVALS + STEP_EVALS * len(recs))
    fails, infos, summ = O.check_update(pre, env, recs, posts, final)
    for clause, detail in fails:
        site = "_liquidate" if clause in ("not-liquidated-below-1", "stopped-early", "debt-visited-twice", "step-at-hf>=1",
                                          "state-changed-without-record") else "_do_liquidate"
        mon.violation("aave", "update", clause, f"aave/market.py:{site}", f"[{driver}] {detail}", {"ctx": ctx, "bar": bar})
    # wallet untouched (exact)
    for i, wp in enumerate(list(wallet_posts) + [wallet_final]):
        if wp != wallet_pre:
            ch = {k: (str(wallet_pre.get(k)), str(wp.get(k))) for k in set(wp) | set(wallet_pre) if wp.get(k) != wallet_pre.get(k)}
            mon.violation("aave", "update", "wallet-changed", "aave/market.py:_do_liquidate",
                          f"[{driver}] wallet changed during update(): {ch}", {"ctx": ctx, "bar": bar})
            break
    hf0 = summ["hf_start"]
    band = hf_band(hf0)
    mon.cls(f"update/{driver}/hf={band}/steps={min(len(recs), 4)}")
    if not recs:
        if hf0 is not None and hf0 >= 1:
            mon.hit("no-liquidation-at-hf>=1")
            if hf0 == 1:
                mon.hit("exact-hf=1")
                mon.nt(f"{driver}/=1/none")
            elif hf0 - 1 < Fraction(1, 10**5):
                mon.nt(f"{driver}/1+/{len(pre.sup)}s{len(pre.bor)}d/none")
        elif hf0 == 0:
            mon.hit("hf=0-no-collateral")
        return summ
    mon.hit("liquidations")
    mon.hit("band" + band)
    mon.hit("steps", len(recs))
    if len(recs) > 1:
        mon.hit("multi-step")
    mon.hit("end:" + summ["end"])
    pat = []
    for rec, info in zip(recs, infos):
        if "cf" not in info:
            continue
        rc = info["repay_class"]
        mon.cls(f"step/cf={'50' if info['cf'] == O.CF_DEFAULT else '100'}/{rc}")
        if info["capped"]:
            mon.hit("capped-step")
        if env.li[rec.c] != env.li[rec.d]:
            mon.hit("step-li_c!=li_d")
        if info["hf1"] is not None and info["hf0"] is not None and info["hf1"] < info["hf0"]:
            mon.hit("step-lowers-hf")
            mon.cls("step/lowers-hf")
        if rec.c == rec.d:
            mon.hit("step-same-token")
        if rc == "debt-value-as-amount":
            mon.hit("repaid-less-than-close-factor")
        if rc == "other":
            mon.hit("repay-class-other")
            mon.sample({"what": "repayment neither close factor, nor capped, nor debt value", "frac": float(info["repaid_frac"]),
                        "debt_price": float(env.price[rec.d]), "ctx": ctx}, cls="repay-other")
        pat.append({"close-factor": "F", "all-collateral": "C", "debt-value-as-amount": "V", "other": "O"}[rc]
                   + ("h" if info["cf"] == O.CF_DEFAULT else "f") + ("=" if rec.c == rec.d else ""))
    r0 = recs[0]
    lc, ld = env.li[r0.c], env.li[r0.d]
    idxrel = "=" if lc == ld else ("<" if lc < ld else ">")
    pd_ = env.price[r0.d]
    pcls = "p<.5" if pd_ < Fraction(1, 2) else ("p<1" if pd_ < 1 else "p>=1")
    nc = sum(1 for v, c in pre.sup.values() if c)
    key = f"{driver}/{band}/{nc}c{len(pre.sup) - nc}n{len(pre.bor)}d/{','.join(pat)}/{idxrel}/{pcls}/{summ['end']}"
    mon.nt(key)
    if band == "=0.95":
        mon.hit("exact-hf=0.95")
    mon.sample(
        {
            "driver": driver, "bar": bar, "hf_before": float(hf0), "hf_after": None if summ["hf_end"] is None else float(summ["hf_end"]),
            "end": summ["end"], "supplies_before": {k: [float(v[0] * env.li[k]), v[1]] for k, v in pre.sup.items()},
            "debts_before": {k: float(v * env.bi[k]) for k, v in pre.bor.items()},
            "prices": {k: float(v) for k, v in env.price.items()},
            "liquidity_index": {k: float(v) for k, v in env.li.items()},
            "steps": [
                {"collateral": r.c, "debt": r.d, "seized": float(r.seized), "repaid": float(r.repaid),
                 "close_factor": float(i.get("cf", 0)), "class": i.get("repay_class"), "bonus": float(env.bonus[r.c]),
                 "net_value_drop": float(i.get("drop", 0))}
                for r, i in zip(recs, infos)
            ],
        },
        cls=f"{driver}/{band}/{len(recs)}",
    )
    return summ


class Fz(Dr.Frozen):
    on_action = None

    def _record(self, action):
        super()._record(action)
        if self.on_action is not None:
            self.on_action(action)


def monitored_update(mon, driver, wd, fz, m, bar, prices, ctx):
    from demeter.aave import LiquidationAction

    env = wd.env(bar, prices)
    pre = observe(m)
    w0 = wallet_of(fz.broker)
    recs, posts, wposts, stray = [], [], [], []

    def on_action(a):
        if isinstance(a, LiquidationAction):
            recs.append(to_rec(a))
            posts.append(observe(m))
            wposts.append(wallet_of(fz.broker))
        else:
            stray.append(type(a).__name__)

    fz.on_action = on_action
    res = Dr.call_op(m.update)
    fz.on_action = None
    if not res.ok:
        mon.ev()
        hf0 = O.health_factor(pre, env)
        mon.violation(
            "aave", "update", "raises", f"{type(res.exc).__name__}@{res.site}",
            f"[{driver}] update() raised {type(res.exc).__name__}: {res.exc} at health factor "
            f"{None if hf0 is None else float(hf0)!r} after {len(recs)} recorded steps; debts {sorted(pre.bor)}",
            {"ctx": ctx, "bar": bar},
        )
        if wallet_of(fz.broker) != w0:
            mon.violation("aave", "update", "wallet-changed", "aave/market.py:_do_liquidate", f"[{driver}] wallet changed by a raising update()")
        return None
    if stray:
        mon.violation("aave", "update", "unexpected-action-type", "aave/market.py:_liquidate", f"update() recorded {stray}")
    final = observe(m)
    return judge_update(mon, driver, wd, bar, env, pre, recs, posts, final, w0, wposts, wallet_of(fz.broker), ctx)


# ---------------------------------------------------------------------------------------------- frozen driver
def price_row(wd, prices):
    return pd.Series({nm: dec(prices[nm], 18) for nm in wd.names})


def frozen_case(mon, rng, c):
    ntok = rng.choice([2, 3, 3, 4, 5])
    toks = rng.sample(TOKENS, ntok)
    nbars = rng.randint(3, 8)
    index_mode = rng.choice(["jumpy", "jumpy", "slow", "distinct", "equal", "one", "erode", "frozen", "frozen"])
    if index_mode == "erode":
        nbars = rng.randint(5, 12)
    wd = World(rng, nbars, toks, index_mode, all_flags=rng.random() < 0.6)
    borrowable = [nm for nm in wd.names if wd.can_borrow[nm]]
    low = rng.choice(borrowable) if rng.random() < 0.3 else None
    prices = base_prices(rng, wd.names, low)
    sup, bor = plan_portfolio(rng, wd, prices, tight=index_mode == "erode")
    m = wd.market()
    row = price_row(wd, prices)
    prices = {nm: F(row[nm]) for nm in wd.names}
    sib = None
    if rng.random() < 0.25:
        # Aave on a second chain under the same account (same token names, other indices and risk rows), see vmon/decoy.py
        from ..decoy import AaveSibling

        sib = AaveSibling(rng, wd.w)
        mon.cls("sibling/aave")
    fz = Fz([m] + ([sib.m] if sib else []), row, None, {t: Decimal(10) ** 15 for t in wd.w.tokens}, wd.index[0])
    ctx = {"case": c, "index_mode": index_mode, "tokens": wd.names, "supply": [(a, str(b), cc) for a, b, cc in sup],
           "borrow": [(a, str(b)) for a, b in bor]}
    if sib is not None:
        sib.poke(rng)
    for nm, a, coll in sup:
        r = Dr.call_op(m.supply, wd.tok[nm], a, coll)
        if not r.ok:
            mon.cls(f"setup-rejected/supply/{r.site}")
            return
    for nm, a in bor:
        r = Dr.call_op(m.borrow, wd.tok[nm], a)
        if not r.ok:
            mon.cls(f"setup-rejected/borrow/{r.site}")
    if not m.borrow_keys:
        return
    # bar 0: HF is above 1 -> update() must do nothing
    monitored_update(mon, "frozen", wd, fz, m, 0, prices, ctx)
    for bar in range(1, nbars):
        st = observe(m)
        if sib is not None and rng.random() < 0.6:
            sib.poke(rng)
            mon.hit("sibling-poke")
        if index_mode == "erode":
            # the very same price row on every bar: only the borrow indices move the health factor
            fz.set_bar(wd.index[bar], row)
            mon.cls("target/index-driven")
            mon.hit("index-driven-bars")
            if rng.random() < 0.35:
                provoke(mon, rng, wd, m)
            summ = monitored_update(mon, "frozen", wd, fz, m, bar, prices, dict(ctx, target="index-driven"))
            if summ is None:
                return
            continue
        band, h = pick_target(rng)
        # small independent shocks first, then the solved scaling
        shocked = {nm: prices[nm] * Fraction(rng.randint(900, 1100), 1000) for nm in wd.names}
        env = wd.env(bar, shocked)
        newp = solve_prices(rng, st, env, h, wd.names) if h is not None else shocked
        if newp is None:
            newp = shocked
            band = "unsolved"
        row = price_row(wd, newp)
        prices = {nm: F(row[nm]) for nm in wd.names}
        fz.set_bar(wd.index[bar], row)
        mon.cls(f"target/{band}")
        if rng.random() < 0.35:
            provoke(mon, rng, wd, m)
        summ = monitored_update(mon, "frozen", wd, fz, m, bar, prices, dict(ctx, target=band))
        if summ is None:
            return
        # user operations after the update (same bar): re-lever or re-stock so that later bars have something to liquidate
        r = rng.random()
        if r < 0.5:
            relever(mon, rng, wd, m, prices)


def provoke(mon, rng, wd, m):
    """requests the market refuses (or harmlessly accepts) right before the bar ends: dropping a collateral flag, withdrawing a
    whole collateral, borrowing far too much.  What update() then does must still follow from the positions alone."""
    for _ in range(rng.randint(1, 3)):
        sk = list(m.supply_keys)
        if not sk:
            return
        t = rng.choice(sk)
        k = rng.random()
        if k < 0.45:
            if m.get_supply(t).collateral:
                r = Dr.call_op(m.change_collateral, t, False)
                mon.cls(f"provoked/change_collateral/{'accepted' if r.ok else 'refused'}")
        elif k < 0.8:
            if m.get_supply(t).collateral and m.borrow_keys:
                r = Dr.call_op(m.withdraw, t, m.get_supply(t).amount)
                mon.cls(f"provoked/withdraw-all/{'accepted' if r.ok else 'refused'}")
        else:
            bt = rng.choice([x for x in wd.w.tokens])
            r = Dr.call_op(m.borrow, bt, Decimal(10) ** 12)
            mon.cls(f"provoked/borrow-huge/{'accepted' if r.ok else 'refused'}")
    mon.hit("bars-with-provocations")


def relever(mon, rng, wd, m, prices):
    colls = [nm for nm in wd.names if wd.can_coll[nm]]
    borrowable = [nm for nm in wd.names if wd.can_borrow[nm]]
    has_coll = any(m.get_supply(k).collateral for k in m.supply_keys)
    if not has_coll or rng.random() < 0.3:
        nm = rng.choice(colls)
        if wd.tok[nm] in m.supply_keys and not m.get_supply(wd.tok[nm]).collateral:
            return
        debt = sum((F(m.get_borrow(k).amount) * prices[k.name] for k in m.borrow_keys), Fraction(0))
        val = max(debt * Fraction(rng.randint(50, 400), 100), Fraction(100))
        r = Dr.call_op(m.supply, wd.tok[nm], dec(val / prices[nm], 9), True)
        mon.cls(f"relever/supply/{'ok' if r.ok else r.site}")
    if rng.random() < 0.8 and m.supply_keys:
        nm = rng.choice(borrowable)
        r0 = Dr.call_op(m.get_max_borrow_amount, wd.tok[nm])
        if r0.ok and r0.ret > 0:
            a = Decimal(r0.ret) * Decimal(rng.randint(30, 99)) / 100
            r = Dr.call_op(m.borrow, wd.tok[nm], a)
            mon.cls(f"relever/borrow/{'ok' if r.ok else r.site}")


# ---------------------------------------------------------------------------------------------- exact thresholds
def exact_case(mon, rng, c):
    """Indices 1, short decimals: the code's Decimal arithmetic is exact, so HF is *exactly* the target."""
    toks = rng.sample(TOKENS, rng.choice([2, 3, 3]))
    wd = World(rng, 3, toks, "one", all_flags=True)
    names = wd.names
    ncoll = rng.choice([1, 1, 2]) if len(names) > 2 else 1
    cs = names[:ncoll]
    ds = names[ncoll:][: rng.choice([1, 1, 2])]
    p0 = {nm: Fraction(rng.randint(1, 9999), rng.choice([1, 10, 100])) for nm in names}
    camt = {nm: Fraction(19 * rng.randint(1, 5000)) for nm in cs}
    damt = {nm: Fraction(rng.choice([1, 2, 4, 5, 8]) * 10 ** rng.randint(0, 4)) for nm in ds}
    cw = sum(camt[nm] * p0[nm] * wd.lt[nm] for nm in cs)
    kind = rng.choice(["=1", "=1", "=0.95", "=0.95", "1-", "1+", "0.95+", "0.95-"])
    eps = Fraction(1, 10**18)
    h = {"=1": Fraction(1), "=0.95": Fraction(19, 20), "1-": 1 - eps, "1+": 1 + eps, "0.95+": Fraction(19, 20) + eps,
         "0.95-": Fraction(19, 20) - eps}[kind]
    # debt prices at the stress bar: all but the last chosen, the last solved
    want_d = cw / h
    pd1 = {}
    rest = want_d
    for nm in ds[:-1]:
        v = want_d * Fraction(rng.randint(1, 60), 100)
        p = dec(v / damt[nm], 6)
        pd1[nm] = F(p)
        rest -= damt[nm] * F(p)
    last = ds[-1]
    pl = rest / damt[last]
    if pl <= 0:
        return
    if kind in ("=1", "=0.95"):
        # must be a finite decimal
        d = pl.denominator
        while d % 2 == 0:
            d //= 2
        while d % 5 == 0:
            d //= 5
        if d != 1:
            mon.cls("exact/not-representable")
            return
        pd1[last] = pl
        pdl = Decimal(pl.numerator) / Decimal(pl.denominator)
        if F(pdl) != pl:
            mon.cls("exact/not-representable")
            return
    else:
        pdl = dec(pl, 30)
        pd1[last] = F(pdl)
    # bar 0: debt prices low enough to borrow
    prices0 = dict(p0)
    for nm in ds:
        prices0[nm] = pd1[nm] * Fraction(rng.randint(10, 45), 100)
    m = wd.market()
    row0 = pd.Series({nm: Decimal(prices0[nm].numerator) / Decimal(prices0[nm].denominator) for nm in names})
    prices0 = {nm: F(row0[nm]) for nm in names}
    fz = Fz([m], row0, None, {t: Decimal(10) ** 15 for t in wd.w.tokens}, wd.index[0])
    ctx = {"case": c, "kind": "exact" + kind, "tokens": names}
    for nm in cs:
        if not Dr.call_op(m.supply, wd.tok[nm], Decimal(int(camt[nm])), True).ok:
            return
    for nm in ds:
        r = Dr.call_op(m.borrow, wd.tok[nm], Decimal(int(damt[nm])))
        if not r.ok:
            mon.cls(f"exact/borrow-rejected/{r.site}")
            return
    prices1 = dict(p0)
    for nm in ds:
        prices1[nm] = pd1[nm]
    row1 = pd.Series({nm: Decimal(prices1[nm].numerator) / Decimal(prices1[nm].denominator) for nm in names})
    row1[last] = pdl
    prices1 = {nm: F(row1[nm]) for nm in names}
    fz.set_bar(wd.index[1], row1)
    env = wd.env(1, prices1)
    hf = O.health_factor(observe(m), env)
    mon.cls(f"exact/{kind}/{'on-target' if hf == h else 'off-target'}")
    monitored_update(mon, "exact", wd, fz, m, 1, prices1, ctx)


# ---------------------------------------------------------------------------------------------- actuator driver
def actuator_case(mon, rng, c):
    from demeter.aave import LiquidationAction

    ntok = rng.choice([2, 3, 4])
    toks = rng.sample(TOKENS, ntok)
    nbars = rng.randint(5, 10)
    index_mode = rng.choice(["jumpy", "slow", "distinct", "erode", "frozen"])
    wd = World(rng, nbars, toks, index_mode, all_flags=rng.random() < 0.6)
    borrowable = [nm for nm in wd.names if wd.can_borrow[nm]]
    low = rng.choice(borrowable) if rng.random() < 0.3 else None
    p0 = base_prices(rng, wd.names, low)
    sup, bor = plan_portfolio(rng, wd, p0, tight=index_mode == "erode")
    # planned state right after the bar-0 operations (exact, by the definitions of scaled balances)
    st = O.State()
    for nm, a, coll in sup:
        st.sup[nm] = (F(a) / F(wd.li[nm][0]), coll)
    for nm, a in bor:
        st.bor[nm] = st.bor.get(nm, Fraction(0)) + F(a) / F(wd.bi[nm][0])
    rows = [price_row(wd, p0)]
    prices = {nm: F(rows[0][nm]) for nm in wd.names}
    stress = sorted(rng.sample(range(1, nbars), rng.randint(1, 2)))
    targets = {}
    for bar in range(1, nbars):
        if index_mode == "erode":  # the same price row on every bar
            rows.append(rows[0].copy())
            continue
        shocked = {nm: prices[nm] * Fraction(rng.randint(930, 1050), 1000) for nm in wd.names}
        newp = shocked
        if bar == stress[0]:
            band, h = pick_target(rng)
            if h is not None:
                sp = solve_prices(rng, st, wd.env(bar, shocked), h, wd.names)
                if sp is not None:
                    newp = sp
                    targets[bar] = band
        elif bar in stress:
            # a second fall of every collateral price (position unknown after the first liquidation)
            f = Fraction(rng.randint(550, 990), 1000)
            newp = {nm: shocked[nm] * (f if nm in st.sup else 1) for nm in wd.names}
        rows.append(price_row(wd, newp))
        prices = {nm: F(rows[-1][nm]) for nm in wd.names}
    pf = pd.DataFrame(rows, index=pd.DatetimeIndex(wd.index))
    m = wd.market()
    obs = {"pre": {}, "post": {}, "wpre": {}, "wpost": {}, "actions": [], "rejected": []}

    def setup(s, snap):
        for nm, a, coll in sup:
            r = Dr.call_op(m.supply, wd.tok[nm], a, coll)
            if not r.ok:
                obs["rejected"].append(("supply", r.site))
        for nm, a in bor:
            r = Dr.call_op(m.borrow, wd.tok[nm], a)
            if not r.ok:
                obs["rejected"].append(("borrow", r.site))

    def snap_pre(s, snap):
        obs["pre"][s.bar] = observe(m)
        obs["wpre"][s.bar] = wallet_of(s.broker)

    def snap_post(s, snap):
        obs["post"][s.bar] = observe(m)
        obs["wpost"][s.bar] = wallet_of(s.broker)

    script = {(0, "on_bar"): [setup], ("*", "on_bar"): [snap_pre], ("*", "after_bar"): [snap_post]}
    relever_bar = rng.choice([None] + list(range(2, nbars)))
    if relever_bar is not None:
        seed2 = rng.random()

        def relev(s, snap):
            import random as _r

            pr = {nm: F(Decimal(str(pf.iloc[s.bar][nm]))) for nm in wd.names}
            relever(mon, _r.Random(seed2), wd, m, pr)

        script[(relever_bar, "before_bar")] = [relev]

    class Obs:
        def notify(self, s, action):
            obs["actions"].append(action)

    strat = Dr.make_script_strategy(script, Obs())
    act = Dr.build_actuator([m], pf, None, {t: Decimal(10) ** 15 for t in wd.w.tokens}, strat, "1min")
    ctx = {"case": c, "driver": "actuator", "index_mode": index_mode, "tokens": wd.names, "targets": targets,
           "supply": [(a, str(b), cc) for a, b, cc in sup], "borrow": [(a, str(b)) for a, b in bor]}
    try:
        act.run(False)
    except Exception as e:
        mon.ev()
        site = Dr.reject_site(e)
        mon.violation(
            "aave", "update" if "_liquidate" in site or "_do_liquidate" in site else "actuator-run", "raises",
            f"{type(e).__name__}@{site}", f"[actuator] Actuator.run raised {type(e).__name__}: {e}\n{traceback.format_exc()[-800:]}",
            {"ctx": ctx},
        )
        return
    by_bar = {}
    ts_to_bar = {pd.Timestamp(t): i for i, t in enumerate(wd.index)}
    for a in obs["actions"]:
        if isinstance(a, LiquidationAction):
            by_bar.setdefault(ts_to_bar.get(pd.Timestamp(a.timestamp)), []).append(to_rec(a))
    if None in by_bar:
        mon.violation("aave", "update", "record-timestamp-not-a-bar", "aave/market.py:_do_liquidate", "liquidation record stamped outside the bar grid")
    for bar in range(nbars):
        if bar not in obs["pre"] or bar not in obs["post"]:
            continue
        prices = {nm: F(Decimal(str(pf.iloc[bar][nm]))) for nm in wd.names}
        env = wd.env(bar, prices)
        judge_update(
            mon, "actuator", wd, bar, env, obs["pre"][bar], by_bar.get(bar, []), None, obs["post"][bar],
            obs["wpre"][bar], [], obs["wpost"][bar], dict(ctx, target=targets.get(bar)),
        )


# ---------------------------------------------------------------------------------------------- entry points
def run(spec, mon):
    plan_ = [("frozen", frozen_case, spec.get("frozen", 0)), ("exact", exact_case, spec.get("exact", 0)),
             ("actuator", actuator_case, spec.get("actuator", 0))]
    for name, fn, n in plan_:
        for i in range(n):
            cid = f"{name}-{i}"
            rng = mon.case_rng(cid)
            if not mon.want(cid):
                continue
            try:
                fn(mon, rng, cid)
            except Exception as e:  # harness problem or an exception outside update(): never silent
                mon.violation("aave", "sequence", "unexpected-exception", Dr.reject_site(e), traceback.format_exc()[-1500:])


def floors(merged, tier):
    r = merged["reach"]
    need = {
        "updates": 300, "liquidations": 100, "band(0.95,1)": 20, "band(0.5,0.95)": 20, "band(0,0.5]": 10,
        "no-liquidation-at-hf>=1": 50, "capped-step": 10, "multi-step": 10, "step-li_c!=li_d": 50,
        "exact-hf=1": 2, "exact-hf=0.95": 2, "index-driven-bars": 50, "end:hf>=1": 20, "end:no-collateral": 5, "end:all-debts-visited": 5,
    }
    out = [f"reach '{k}' = {r.get(k, 0)} < {v}" for k, v in need.items() if r.get(k, 0) < v]
    act = sum(v for k, v in merged["classes"].items() if k.startswith("update/actuator/") and not k.endswith("steps=0"))
    if act < 5:
        out.append(f"only {act} liquidating updates went through the Actuator loop")
    return out
