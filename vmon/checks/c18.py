"""C18 — time triggers fire on exactly the bars their specification denotes.

Every run drives the real Actuator.run bar loop (one small synthetic Uniswap pool as the host market) with a few
dozen independent trigger objects of all six time-trigger classes.  Each trigger has its own recording action.  After
the run the recorded firings, the extra arguments every firing received and the bar at which the loop retired the
trigger are compared with the reference model in vmon/oracles/triggers.py (closed-form, integer microseconds)."""
import traceback
from datetime import datetime, timedelta
from decimal import Decimal

import pandas as pd

from .. import drive as Dr
from .. import worlds as W
from ..oracles import triggers as O

ID = "C18"
META = {
    "level": "exploration",
    "rule": "a run = one generated bar grid (start minute, interval 1 min .. 1 day, 1-600 bars) driven through the real "
    "Actuator.run with 16-48 independent triggers; a case = one trigger (class, parameters placed relative to the grid: "
    "on/off a bar, with seconds, first/last bar, before/after the data, touching/overlapping/inverted ranges, periods "
    "that divide / do not divide the interval, coinciding periods, delays, immediate flag; registered in initialize or "
    "later from before_bar/on_bar/after_bar). One evaluation = one (trigger, bar) comparison of 'action ran n times' "
    "with 'bar is denoted', one kwargs comparison per firing, or one retirement decision. Non-trivial = a trigger with "
    ">=1 denoted bar; distinct by (class, interval, registration phase, parameter-to-grid relation, number of denoted "
    "bars bucket, retirement outcome).",
    "assumptions": [
        "times and range bounds are compared after truncation to the minute (bars carry minute timestamps; the trigger "
        "docstrings say so); a period's delay is used as given",
        "a trigger is live from the first trigger phase after its registration: registered in initialize -> first bar; "
        "in before_bar of bar j -> bar j; in on_bar/after_bar of bar j -> bar j+1 (bar j itself is not judged); a "
        "periodic trigger counts its periods from that first live bar",
        "retirement is judged one way only, as the statement does: retired at bar t => no bar t+k*interval (k>=1) is "
        "denoted; a trigger that stays registered although it can never fire again is not a violation",
        "lists of times / ranges / periods are non-empty, periods are positive whole minutes, delays are >= 0 "
        "(empty lists and a zero period are outside the specification; see the final report of the check author)",
        "the order of the loop phases (triggers before on_bar) is C05's subject and is not demanded here",
        "when() and is_out_date() are wrapped per instance by the harness only to attribute exceptions to a trigger and "
        "to count evaluations; the wrappers delegate unchanged",
    ],
}
NSHARDS = 16
MIN = timedelta(minutes=1)

INTERVALS = [  # (minutes, weight, spellings accepted by Actuator.interval)
    (1, 26, ["1min", "1min", "min"]),
    (5, 18, ["5min"]),
    (60, 12, ["60min", "1h", "h"]),
    (2, 6, ["2min"]),
    (3, 6, ["3min"]),
    (7, 6, ["7min"]),
    (10, 5, ["10min"]),
    (15, 6, ["15min"]),
    (30, 4, ["30min"]),
    (240, 4, ["4h", "240min"]),
    (1440, 4, ["1D", "24h", "D"]),
]
BASE_DAYS = [datetime(2024, 3, 5), datetime(2024, 2, 29), datetime(2023, 12, 31), datetime(2024, 6, 30), datetime(2025, 1, 1)]
KWARGS = [
    {},
    {"a": 1},
    {"tag": "x", "n": 3},
    {"amount": Decimal("1.5"), "tokens": ["A", "B"], "flag": False},
    {"extra_arg1": 0, "extra_arg2": "1"},
    {"none": None},
]
KIND_CLASS = {
    "at_time": "AtTimeTrigger", "at_times": "AtTimesTrigger", "range": "TimeRangeTrigger",
    "ranges": "TimeRangesTrigger", "period": "PeriodTrigger", "periods": "PeriodsTrigger",
}


def plan(tier, seed):
    n = 200 if tier == "quick" else 2600
    return [{"shard": i, "cases": n} for i in range(NSHARDS)]


# ---------------------------------------------------------------------------------------------- grid
def wchoice(rng, items):
    tot = sum(w for _, w, *_ in items)
    r = rng.uniform(0, tot)
    for it in items:
        r -= it[1]
        if r <= 0:
            return it
    return items[-1]


def make_grid(rng, tier):
    """-> dict(I minutes, interval string, mode, data index, expected bars)."""
    I, _, names = wchoice(rng, INTERVALS)
    name = rng.choice(names)
    lens = [1, 2, 3, 5, 8, 13, 21, 34, 60, 60, 120, 120, 300] + ([600, 600] if tier == "thorough" else [600])
    nbars = rng.choice(lens)
    day = rng.choice(BASE_DAYS)
    r = rng.random()
    if r < 0.3:
        minute = rng.randrange(0, 1440, max(1, I)) % 1440  # aligned to the interval
    elif r < 0.5:
        minute = 1440 - rng.randint(1, 90)  # shortly before midnight: the grid crosses a date boundary
    else:
        minute = rng.randrange(0, 1440)
    start = day + timedelta(minutes=minute)
    # "resampled": real minute rows, the Actuator resamples them; "native": rows already spaced by the interval
    rows = nbars * I
    mode = "resampled" if (I == 1 or rows <= (4000 if tier == "quick" else 9000)) and rng.random() < 0.8 else "native"
    if I == 1:
        mode = "resampled"
    if mode == "resampled":
        index = [start + timedelta(minutes=i) for i in range(rows)]
    else:
        index = [start + timedelta(minutes=i * I) for i in range(nbars)]
    return {"I": I, "interval": name, "mode": mode, "index": index, "start": start, "minute": minute}


def expected_bars(g):
    """Bars pandas' resample(origin='start_day') yields for the data index (what the parameters are placed against;
    the oracle itself always uses the bars the loop really produced)."""
    I = g["I"]
    if I == 1:
        return list(g["index"])
    first, last = g["index"][0], g["index"][-1]
    day0 = datetime(first.year, first.month, first.day)
    step = timedelta(minutes=I)
    b0 = day0 + ((first - day0) // step) * step
    b1 = day0 + ((last - day0) // step) * step
    return [b0 + k * step for k in range((b1 - b0) // step + 1)]


# ---------------------------------------------------------------------------------------------- trigger parameters
def pick_time(rng, bars, I):
    """-> (datetime, relation of the time to the grid)"""
    step = timedelta(minutes=I)
    n = len(bars)
    r = rng.random()
    if r < 0.30:
        t, rel = bars[rng.randrange(n)], "on"
    elif r < 0.38:
        t, rel = bars[0], "first"
    elif r < 0.46:
        t, rel = bars[-1], "last"
    elif r < 0.60 and I > 1:
        t, rel = bars[rng.randrange(n)] + timedelta(minutes=rng.randint(1, I - 1)), "off"
    elif r < 0.68:
        t, rel = bars[0] - rng.choice([step, 2 * step, timedelta(minutes=rng.randint(1, 3000))]), "before"
    elif r < 0.76:
        t, rel = bars[-1] + step, "next"
    elif r < 0.84:
        t, rel = bars[-1] + rng.randint(2, 50) * step, "after-on"
    elif r < 0.90 and I > 1:
        t, rel = bars[-1] + rng.randint(1, 50) * step + timedelta(minutes=rng.randint(1, I - 1)), "after-off"
    else:
        t, rel = bars[rng.randrange(n)], "on"
    if rng.random() < 0.2:
        t = t + timedelta(seconds=rng.randint(1, 59), microseconds=rng.choice([0, 0, 1, 999999]))
        rel += "+s"
    return t, rel


def gen_spec(rng, bars, I):
    """-> (spec for the oracle, parameter-relation class string)"""
    n = len(bars)
    span = n * I  # minutes covered
    kind = rng.choice(["at_time", "at_times", "range", "ranges", "ranges", "period", "period", "periods", "periods"])
    if kind == "at_time":
        t, rel = pick_time(rng, bars, I)
        return {"kind": kind, "times": [t]}, rel
    if kind == "at_times":
        picks = [pick_time(rng, bars, I) for _ in range(rng.choice([1, 2, 2, 3, 4, 6]))]
        if rng.random() < 0.15:
            picks.append(picks[0])  # a duplicate
        rng.shuffle(picks)
        rels = sorted({p[1] for p in picks})
        order = "max-last" if picks[-1][0] == max(p[0] for p in picks) else "max-not-last"
        return {"kind": kind, "times": [p[0] for p in picks]}, f"{len(picks)}:{','.join(rels)}:{order}"
    if kind == "range":
        (s, rs), (e, re_) = pick_time(rng, bars, I), pick_time(rng, bars, I)
        r = rng.random()
        if r < 0.1:
            e, re_ = s, "=start"  # empty
        elif r < 0.2:
            e, re_ = s + MIN, "start+1min"
        elif s > e and r < 0.9:
            s, rs, e, re_ = e, re_, s, rs
        shape = "inverted" if s > e else ("empty" if s == e else "ok")
        return {"kind": kind, "ranges": [(s, e)]}, f"{rs}..{re_}:{shape}"
    if kind == "ranges":
        mode = rng.choice(["free", "free", "touching", "overlap", "nested", "far-end-first"])
        k = rng.choice([1, 2, 2, 3, 4])
        rs = []
        if mode == "free":
            for _ in range(k):
                a, b = sorted([pick_time(rng, bars, I)[0], pick_time(rng, bars, I)[0]])
                rs.append((a, b))
        elif mode == "touching":
            cuts = sorted(pick_time(rng, bars, I)[0] for _ in range(k + 1))
            rs = [(cuts[i], cuts[i + 1]) for i in range(k)]
        elif mode == "overlap":
            a, b = sorted([pick_time(rng, bars, I)[0], pick_time(rng, bars, I)[0]])
            for i in range(k):
                sh = timedelta(minutes=I * rng.randint(0, 3) * i)
                rs.append((a + sh, b + sh))
        elif mode == "nested":
            a, b = sorted([pick_time(rng, bars, I)[0], pick_time(rng, bars, I)[0]])
            for i in range(k):
                sh = timedelta(minutes=I * i)
                rs.append((a + sh, max(a + sh, b - sh)))
        else:  # the range that ends last is listed first
            for _ in range(max(2, k)):
                a, b = sorted([pick_time(rng, bars, I)[0], pick_time(rng, bars, I)[0]])
                rs.append((a, b))
            rs.sort(key=lambda x: x[1], reverse=True)
        if mode in ("free", "touching", "overlap", "nested"):
            rng.shuffle(rs)
        ends_on_bar = any(O.minute_floor_us(e) == O.us(b) for _, e in rs for b in (bars if n <= 64 else bars[:: max(1, n // 64)]))
        return {"kind": kind, "ranges": rs}, f"{mode}:{len(rs)}:{'end-on-bar' if ends_on_bar else 'end-off-bar'}"

    # periodic
    def pick_delta():
        r = rng.random()
        if r < 0.25:
            d = I * rng.choice([1, 1, 2, 3, 4, 6])
        elif r < 0.75:
            d = rng.choice([1, 2, 3, 4, 5, 6, 7, 10, 11, 15, 30, 45, 60, 90, 120, 360, 1440])
        else:
            d = I * rng.randint(1, 5) + rng.randint(1, max(1, I))
        if d > span and rng.random() < 0.8:  # mostly keep the period inside the data
            d = max(1, rng.choice([I, 2 * I, 3 * I, max(1, span // rng.randint(2, 6))]))
        return d

    def pick_pending(d):
        r = rng.random()
        if r < 0.45:
            return timedelta(0), "0"
        if r < 0.60:
            return timedelta(minutes=I * rng.randint(1, 6)), "k*interval"
        if r < 0.75:
            return timedelta(minutes=rng.randint(1, max(2, 3 * I))), "minutes"
        if r < 0.85:
            return timedelta(minutes=d * rng.randint(1, 2)), "k*delta"
        if r < 0.93:
            return timedelta(minutes=span + rng.randint(0, 3 * I)), "beyond-data"
        if r < 0.97:
            return timedelta(hours=rng.choice([1, 6, 24])), "hours"
        return timedelta(seconds=rng.choice([30, 90, 61])), "with-seconds"

    imm = rng.random() < 0.4
    if kind == "period":
        d = pick_delta()
        p, pr = pick_pending(d)
        rel = "mult" if d % I == 0 else ("div" if I % d == 0 else ("coprime" if O.gcd(d, I) == 1 else "partial"))
        return {"kind": kind, "deltas": [timedelta(minutes=d)], "pending": p, "immediate": imm}, f"d{rel}:p{pr}:i{int(imm)}"
    mode = rng.choice(["coincide", "coincide", "multiple", "dup", "free", "free", "single"])
    if mode == "coincide":
        a = rng.choice([1, 2, 3, 5, I, 2 * I])
        ds = [a * 2, a * 3] + ([a * 5] if rng.random() < 0.3 else [])
    elif mode == "multiple":
        a = pick_delta()
        ds = [a, a * rng.choice([2, 3])]
    elif mode == "dup":
        a = pick_delta()
        ds = [a, a] + ([pick_delta()] if rng.random() < 0.5 else [])
    elif mode == "single":
        ds = [pick_delta()]
    else:
        ds = [pick_delta() for _ in range(rng.choice([2, 3, 4]))]
    rng.shuffle(ds)
    p, pr = pick_pending(ds[0])
    rel = "allmult" if all(d % I == 0 for d in ds) else ("nomult" if all(d % I for d in ds) else "mixed")
    return (
        {"kind": kind, "deltas": [timedelta(minutes=d) for d in ds], "pending": p, "immediate": imm},
        f"{mode}:{len(ds)}:{rel}:p{pr}:i{int(imm)}",
    )


class Rec:
    """everything observed about one trigger"""

    __slots__ = (
        "idx", "spec", "rel", "kind", "kwargs", "reg_phase", "reg_bar", "as_pandas", "trig", "calls", "evals",
        "raised", "retired_at", "registered", "model", "build_error", "reset_phase", "reset_bar", "reset_live",
    )

    def __init__(self):
        self.calls = []  # (bar index, snapshot timestamp, positional extras, kwargs)
        self.evals = []  # bar indices at which when() was called
        self.raised = None
        self.retired_at = None
        self.registered = False
        self.trig = None
        self.build_error = None
        self.reset_phase = None  # period kinds: the phase / bar in which the public reset() is called once
        self.reset_bar = None
        self.reset_live = None  # first bar evaluated after the reset (the re-armed trigger's first bar)


def build_trigger(rec, state):
    """construct the real trigger from the specification; its action records into rec."""
    from demeter.strategy import trigger as T

    spec = rec.spec
    if rec.as_pandas == "aware":
        # the same wall-clock times handed over as timezone-aware UTC values (the bars themselves are naive): a specification
        # denotes the bars whose time it names
        from datetime import timezone

        conv = (lambda t: t.replace(tzinfo=timezone.utc)) if rec.idx % 2 else (lambda t: pd.Timestamp(t, tz="UTC"))
    else:
        conv = (lambda t: pd.Timestamp(t)) if rec.as_pandas else (lambda t: t)

    def action(snapshot, *args, **kw):
        rec.calls.append((state["bar"], snapshot.timestamp, args, kw))
        if rec.reset_phase == "action" and rec.reset_live is None and state["bar"] >= rec.reset_bar:
            # the action re-arms its own trigger: the next bar is the first bar of a freshly armed trigger
            rec.trig.reset()
            rec.reset_live = state["bar"] + 1

    kw = rec.kwargs
    k = rec.kind
    if k == "at_time":
        trig = T.AtTimeTrigger(conv(spec["times"][0]), action, **kw)
    elif k == "at_times":
        trig = T.AtTimesTrigger([conv(t) for t in spec["times"]], action, **kw)
    elif k == "range":
        s, e = spec["ranges"][0]
        trig = T.TimeRangeTrigger(T.TimeRange(conv(s), conv(e)), action, **kw)
    elif k == "ranges":
        trig = T.TimeRangesTrigger([T.TimeRange(conv(s), conv(e)) for s, e in spec["ranges"]], action, **kw)
    else:
        # arguments equal to the documented defaults (not immediate, no delay) are left out: the defaults are part of the
        # specification; otherwise they go positionally or by keyword
        cls = T.PeriodTrigger if k == "period" else T.PeriodsTrigger
        first = spec["deltas"][0] if k == "period" else list(spec["deltas"])
        default = (not spec["immediate"]) and not spec["pending"]
        style = (state.get("argstyle", 0) + len(rec.calls) + len(spec["deltas"])) % 3
        if default and style != 0:
            trig = cls(first, action, **kw)
        elif style == 1:
            trig = cls(first, action, trigger_immediately=spec["immediate"], pending=spec["pending"], **kw)
        else:
            trig = cls(first, action, spec["immediate"], spec["pending"], **kw)
    # attribution wrappers (delegate unchanged)
    real_when, real_out = trig.when, trig.is_out_date

    def when(snapshot):
        rec.evals.append(state["bar"])
        try:
            return real_when(snapshot)
        except Exception as e:
            rec.raised = ("when", e)
            raise

    def is_out_date(t):
        try:
            return real_out(t)
        except Exception as e:
            rec.raised = ("is_out_date", e)
            raise

    trig.when = when
    trig.is_out_date = is_out_date
    return trig


class Observer:
    """registers the late triggers and watches which trigger objects the loop still holds."""

    def __init__(self, recs, state):
        self.recs = recs
        self.state = state
        self.bars = []
        self.late = {}
        self.resets = {}
        for r in recs:
            if r.reset_phase in ("before_bar", "on_bar", "after_bar"):
                self.resets.setdefault((r.reset_bar, r.reset_phase), []).append(r)
            if r.reg_phase != "initialize":
                self.late.setdefault((r.reg_bar, r.reg_phase), []).append(r)

    def _register(self, strategy, phase):
        for r in self.late.get((self.state["bar"], phase), ()):
            if r.trig is not None:
                strategy.triggers.append(r.trig)
                r.registered = True
        for r in self.resets.get((self.state["bar"], phase), ()):
            if r.trig is not None and r.registered and r.reset_live is None:
                r.trig.reset()
                r.reset_live = self.state["bar"] + (0 if phase == "before_bar" else 1)

    def before_bar(self, strategy, snapshot):
        self.state["bar"] = len(self.bars)
        self.bars.append(snapshot.timestamp)
        self._register(strategy, "before_bar")

    def on_bar(self, strategy, snapshot):
        held = {id(x) for x in strategy.triggers}
        b = self.state["bar"]
        for r in self.recs:
            if r.registered and r.retired_at is None and id(r.trig) not in held:
                r.retired_at = b
        self._register(strategy, "on_bar")

    def after_bar(self, strategy, snapshot):
        self._register(strategy, "after_bar")


# ---------------------------------------------------------------------------------------------- one run
def run(spec, mon):
    tier = spec["tier"]
    for c in range(spec["cases"]):
        rng = mon.case_rng(c)
        if not mon.want(c):
            continue
        try:
            one_run(mon, rng, c, tier)
        except Exception as e:  # the harness itself failed: never silently
            mon.violation("actuator", "run", "unexpected-exception", Dr.reject_site(e), traceback.format_exc()[-1500:])


def one_run(mon, rng, c, tier):
    g = make_grid(rng, tier)
    I = g["I"]
    step = timedelta(minutes=I)
    ebars = expected_bars(g)
    nb = len(ebars)
    ntrig = rng.choice([16, 24, 32, 48])
    state = {"bar": -1}
    recs = []
    for i in range(ntrig):
        r = Rec()
        r.idx = i
        r.spec, r.rel = gen_spec(rng, ebars, I)
        r.kind = r.spec["kind"]
        r.kwargs = dict(rng.choice(KWARGS))
        r.as_pandas = rng.random() < 0.1
        if not r.as_pandas and rng.random() < 0.08:
            r.as_pandas = "aware"
        if rng.random() < 0.6 or nb == 1:
            r.reg_phase, r.reg_bar = "initialize", 0
        else:
            r.reg_phase = rng.choice(["before_bar", "on_bar", "after_bar"])
            r.reg_bar = min(nb - 1, rng.choice([0, 0, 1, 2, rng.randrange(nb), rng.randrange(nb)]))
        r.model = O.Model(r.spec)
        if r.kind in O.PERIOD_KINDS and nb > 2 and rng.random() < 0.25:
            # the public reset() once, somewhere in the run: from then on the trigger is a freshly armed one
            r.reset_phase = rng.choice(["before_bar", "on_bar", "after_bar", "action"])
            r.reset_bar = rng.choice([rng.randrange(nb), rng.randrange(nb), rng.randrange(max(1, nb // 3))])
        try:
            r.trig = build_trigger(r, state)
        except Exception as e:
            r.build_error = e
            mon.violation(
                "actuator", KIND_CLASS[r.kind], "raises", f"__init__:{type(e).__name__}",
                f"constructing {KIND_CLASS[r.kind]} from a valid specification raised {e!r}; spec {describe(r)}",
            )
        recs.append(r)

    # host market: a small flat uniswap pool (the loop needs one market; nothing trades)
    n_rows = len(g["index"])
    w = W.UniWorld(rng, n=n_rows, start=g["index"][0], path="flat", liq_exp=20, vol_scale=1, price=2000.0)
    if g["mode"] == "native" and I != 1:
        w.raw.index = pd.DatetimeIndex(g["index"])
        w.index = list(g["index"])
    m = w.market()
    prices, quote = m.get_price_from_data()
    obs = Observer(recs, state)

    def initial(strategy):
        out = []
        for r in recs:
            if r.reg_phase == "initialize" and r.trig is not None:
                r.registered = True
                out.append(r.trig)
        return out

    strat = Dr.make_script_strategy(observer=obs, triggers=initial)
    act = Dr.build_actuator([m], prices, quote, {w.t0: Decimal(1000), w.t1: Decimal(1)}, strat, g["interval"])
    crashed = None
    try:
        act.run(False)
    except Exception as e:
        crashed = e
    bars = obs.bars
    mon.hit("runs")
    mon.cls(f"interval/{I}min/{g['mode']}")
    mon.cls(f"bars/{bucket(len(bars))}")
    if bars != ebars and crashed is None:
        mon.hit("grid-differs-from-expectation")
    uniform = all(bars[i + 1] - bars[i] == step for i in range(len(bars) - 1))
    if not uniform:
        mon.hit("grid-not-uniform")  # outside the property's quantifier (start, interval, length): judge nothing
        return

    if crashed is not None:
        culprit = [r for r in recs if r.raised is not None]
        if culprit:
            for r in culprit:
                where, e = r.raised
                mon.violation(
                    "actuator", KIND_CLASS[r.kind], "raises", f"{where}:{type(e).__name__}",
                    f"{KIND_CLASS[r.kind]}.{where} raised {e!r} at bar {state['bar']} ({bars[state['bar']] if bars else None}); "
                    f"the backtest aborted. spec {describe(r)}; grid start {bars[0] if bars else None} interval {I}min",
                    {"run": c, "spec": describe(r)},
                )
        else:
            mon.violation(
                "actuator", "bar-loop", "raises", f"{type(crashed).__name__}@{Dr.reject_site(crashed)}",
                f"Actuator.run raised {crashed!r} at bar {state['bar']}; grid start {g['start']} interval {g['interval']} "
                f"rows {n_rows} mode {g['mode']}",
                {"run": c},
            )
        return

    for r in recs:
        if r.trig is not None:
            judge(mon, r, bars, step, I, g, c)


def bucket(n):
    for b in (0, 1, 2, 3, 5, 10, 30, 100, 300):
        if n <= b:
            return f"<={b}"
    return ">300"


def describe(r):
    s = r.spec
    out = {"kind": r.kind, "relation": r.rel, "registered": f"{r.reg_phase}@{r.reg_bar}", "kwargs": sorted(r.kwargs)}
    if "times" in s:
        out["times"] = [str(t) for t in s["times"]]
    if "ranges" in s:
        out["ranges"] = [f"[{a} .. {b})" for a, b in s["ranges"]]
    if "deltas" in s:
        out["periods_min"] = [d.total_seconds() / 60 for d in s["deltas"]]
        out["pending"] = str(s["pending"])
        out["immediate"] = s["immediate"]
    return out


def reset_note(r, rl, bars):
    if rl is None:
        return ""
    return f"; reset() called in {r.reset_phase} so that bar {rl} ({bars[rl]}) is the first bar of the re-armed trigger"


def judge(mon, r, bars, step, I, g, c):
    nb = len(bars)
    cls_name = KIND_CLASS[r.kind]
    model = r.model
    # first live bar
    if r.reg_phase in ("initialize", "before_bar"):
        live = r.reg_bar
        free = None
    else:
        live = r.reg_bar + 1
        free = r.reg_bar  # the registration bar itself is not judged
        if r.evals and r.evals[0] == r.reg_bar:
            live = r.reg_bar  # the loop evaluated it in its registration bar: then periods count from there
            mon.cls("evaluated-in-registration-bar")
    if live >= nb:
        mon.cls(f"{r.kind}/registered-after-last-trigger-phase")
        if r.calls:
            mon.violation("actuator", cls_name, "fired-on-undenoted-bar", "never-live", f"fired {len(r.calls)}x although never live; {describe(r)}")
        return
    t0 = bars[live]
    calls_at = {}
    for bar, ts, args, kw in r.calls:
        calls_at.setdefault(bar, []).append((ts, args, kw))
    retired = r.retired_at
    can_again = None
    if retired is not None:
        # judged with the first live bar as the period origin
        can_again = model.can_fire_after(bars[retired], t0, step)
        mon.ev()
        if can_again:
            nxt = next((bars[i] for i in range(retired + 1, nb) if model.denotes(bars[i], t0)), None)
            mon.violation(
                "actuator", cls_name, "retired-while-it-can-still-fire",
                f"is_out_date/{O.bar_relation(model, bars[retired], t0, step)}",
                f"{cls_name} was removed from strategy.triggers at bar {retired} ({bars[retired]}) but the specification "
                f"still denotes a later bar of the grid ({nxt if nxt else 'beyond the data, on the continuation of the grid'}); "
                f"{describe(r)}; grid start {bars[0]} interval {I}min bars {nb}",
                {"run": c, "spec": describe(r)},
            )
    n_den = 0
    n_ok_fired = 0
    gap_seen = coincide_seen = False
    periodic = r.kind in O.PERIOD_KINDS
    # a reset() before the first evaluation changes nothing; after it, the bar evaluated next is the first bar of a freshly
    # armed trigger (immediate firing there if requested, then delay + k * period counted from it)
    rl = r.reset_live if (r.reset_live is not None and live < r.reset_live < nb) else None
    n_den_after_reset = 0
    for i in range(nb):
        if i == free and i != live:
            continue
        t = bars[i]
        if rl is not None and i >= rl:
            periodic = False  # the gap / coincidence evidence below is counted from the first origin only
            org, tag = bars[rl], "after-reset/"
            den = model.denotes(t, bars[rl])
            n_den_after_reset += den
        else:
            org, tag = t0, ""
            den = i >= live and model.denotes(t, t0)
        got = calls_at.get(i, ())
        mon.ev()
        if den:
            n_den += 1
        if retired is not None and i > retired and can_again:
            continue  # already reported as an early retirement
        if den and not got:
            mon.violation(
                "actuator", cls_name, "missed-denoted-bar", tag + O.bar_relation(model, t, org, step),
                f"{cls_name} did not fire at bar {i} ({t}) which its specification denotes; {describe(r)}; first live bar "
                f"{t0}{reset_note(r, rl, bars)}; grid start {bars[0]} interval {I}min bars {nb}; fired at {[str(bars[b]) for b in sorted(calls_at)][:8]}; "
                f"retired at bar {retired}",
                {"run": c, "spec": describe(r)},
            )
        elif got and not den:
            mon.violation(
                "actuator", cls_name, "fired-on-undenoted-bar", tag + O.bar_relation(model, t, org, step),
                f"{cls_name} fired at bar {i} ({t}) which its specification does not denote; {describe(r)}; first live bar "
                f"{t0}{reset_note(r, rl, bars)}; grid start {bars[0]} interval {I}min bars {nb}",
                {"run": c, "spec": describe(r)},
            )
        elif den and len(got) != 1:
            mon.violation(
                "actuator", cls_name, "action-called-more-than-once", tag + O.bar_relation(model, t, org, step),
                f"{cls_name} called its action {len(got)} times at bar {i} ({t}); {describe(r)}",
                {"run": c, "spec": describe(r)},
            )
        elif den:
            n_ok_fired += 1
            if rl is not None and i > rl:
                mon.hit("period/fired-on-schedule-after-reset")
        for ts, args, kw in got:
            mon.ev()
            if kw != r.kwargs or args:
                mon.violation(
                    "actuator", cls_name, "extra-arguments-not-passed", "do",
                    f"{cls_name} action received args {args!r} kwargs {kw!r}, supplied {r.kwargs!r}; {describe(r)}",
                )
            if ts != t:
                mon.violation(
                    "actuator", cls_name, "action-got-another-bars-snapshot", "do",
                    f"{cls_name} action at bar {i} ({t}) received a snapshot stamped {ts}; {describe(r)}",
                )
        if periodic and den and i > live:
            due = model.due_deltas(t, t0)
            if len(due) > 1:
                coincide_seen = True
            elif coincide_seen and due:
                mon.hit("periods/fired-after-a-coincidence")
                coincide_seen = False
            if gap_seen:
                mon.hit("period/fired-after-a-due-time-between-bars")
                gap_seen = False
        if periodic and not gap_seen and i + 1 < nb:
            # is some due time strictly between this bar and the next one?
            a0 = O.us(t) - O.us(t0) - model.pending
            a1 = a0 + O.us(step)
            for d in model.deltas:
                k = a0 // d + 1
                if k >= 1 and a0 < k * d < a1:
                    gap_seen = True
    # calls outside the judged bars (before the first live bar)
    for b in calls_at:
        if b < live and b != free:
            mon.violation("actuator", cls_name, "fired-on-undenoted-bar", "before-registration", f"{cls_name} fired at bar {b} before it was live; {describe(r)}")

    # ---- evidence
    ret = "kept" if retired is None else ("retired-at-last-denoted" if n_den and retired is not None and model.denotes(bars[retired], t0) else "retired")
    mon.cls(f"{r.kind}/{'denoted' if n_den else 'nothing-denoted'}")
    mon.cls(f"reg/{r.reg_phase}")
    mon.cls(f"retirement/{r.kind}/{ret}")
    if r.as_pandas:
        mon.cls("parameters-as-pandas-timestamps")
    if rl is not None:
        mon.cls(f"reset/{r.kind}/{r.reset_phase}/{'denoted-after' if n_den_after_reset else 'nothing-denoted-after'}")
        mon.hit("period/reset-while-live")
    if n_den:
        mon.hit(f"fired/{r.kind}", n_ok_fired)
        mon.hit(f"triggers-with-denoted-bars/{r.kind}")
        if r.reg_phase != "initialize":
            mon.hit("late-registration-with-denoted-bars")
        if retired is not None:
            mon.hit("retired-after-firing")
        mon.nt(f"{r.kind}/{I}/{r.reg_phase}/{r.rel}/{bucket(n_den)}/{ret}/{'kw' if r.kwargs else 'nokw'}")
        mon.sample(
            {
                "trigger": describe(r), "grid": {"start": str(bars[0]), "interval_min": I, "bars": nb, "data": g["mode"]},
                "first_live_bar": str(t0), "denoted_bars": n_den,
                "fired_at": [str(bars[b]) for b in sorted(calls_at)][:12],
                "retired_at": str(bars[retired]) if retired is not None else None,
            },
            cls=r.kind,
        )
    elif retired is not None:
        mon.hit("retired-without-firing")
    if r.kind in O.RANGE_KINDS:
        barset = bar_set(bars)
        if any(e in barset and s < e for s, e in model.ranges):
            mon.hit("range-end-on-a-bar")


_barset_cache = [None, None]


def bar_set(bars):
    if _barset_cache[0] is not bars:
        _barset_cache[0] = bars
        _barset_cache[1] = frozenset(O.us(b) for b in bars)
    return _barset_cache[1]


def floors(merged, tier):
    out = []
    reach = merged["reach"]
    for kind in KIND_CLASS:
        if reach.get(f"triggers-with-denoted-bars/{kind}", 0) < 20:
            out.append(f"fewer than 20 {KIND_CLASS[kind]} cases with a denoted bar")
    for need, lo in (
        ("period/fired-after-a-due-time-between-bars", 20),
        ("periods/fired-after-a-coincidence", 20),
        ("retired-after-firing", 20),
        ("retired-without-firing", 20),
        ("late-registration-with-denoted-bars", 20),
        ("range-end-on-a-bar", 20),
        ("period/reset-while-live", 20),
        ("period/fired-on-schedule-after-reset", 20),
    ):
        if reach.get(need, 0) < lo:
            out.append(f"reach counter '{need}' below {lo}")
    if reach.get("grid-not-uniform", 0) > reach.get("runs", 0) // 10:
        out.append("more than 10% of the runs produced a non-uniform bar grid")
    return out
