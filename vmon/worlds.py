"""Synthetic world builders.  Raw columns are generated here and then pushed through demeter's own
preparation code (add_statistic_column, set_token_data, load_risk_parameter, get_price_from_data ...)."""
import math
import os
import tempfile
from datetime import datetime, timedelta
from decimal import Decimal

import pandas as pd

T0 = datetime(2024, 3, 5, 0, 0)
LOG_1P0001 = math.log(1.0001)
MIN_TICK, MAX_TICK = -887272, 887272


def D(x):
    return x if isinstance(x, Decimal) else Decimal(str(x))


def tick_for_price(price: float, d0: int, d1: int, token0_is_quote: bool) -> int:
    """tick whose base-unit price is about `price` (harness-side float estimate, only used to place worlds)."""
    p = 1 / price if token0_is_quote else price
    atomic = p * 10 ** (d1 - d0)
    return int(math.floor(math.log(atomic) / LOG_1P0001))


# ------------------------------------------------------------------ uniswap
def tick_path(rng, n, center, kind, anchors=(), step=30):
    """closeTick path of n bars.  kinds: walk, calm, jump, flat, anchors (visits/lands exactly on anchors)."""
    t = center
    out = []
    anchors = list(anchors)
    for i in range(n):
        if kind == "flat":
            pass
        elif kind == "calm":
            t += rng.randint(-step // 5 - 1, step // 5 + 1)
        elif kind == "walk":
            t += rng.randint(-step, step)
        elif kind == "jump":
            t += rng.choice([0, 0, rng.randint(-step, step), rng.randint(-40 * step, 40 * step)])
        elif kind == "anchors":
            r = rng.random()
            if anchors and r < 0.35:
                t = rng.choice(anchors) + rng.choice([0, 0, 0, -1, 1])
            elif anchors and r < 0.55:
                a = rng.choice(anchors)
                t = a + rng.randint(-3 * step, 3 * step)
            elif r < 0.7:
                pass
            else:
                t += rng.randint(-step, step)
        else:
            raise ValueError(kind)
        # a walk of many thousand bars stays within a factor ~400 of where it started (prices of 1e29 are beyond what
        # 35-digit arithmetic can quantise to 1e-4, which is not any property's subject)
        t = max(center - 60000, min(center + 60000, t))
        t = max(MIN_TICK + 10, min(MAX_TICK - 10, t))
        out.append(t)
    return out


def uni_raw(rng, index, ticks, open_tick, liq, vols, tick_dtype="float"):
    """Raw minute rows as demeter-fetch produces them (+ Decimal amounts as load_uni_v3_data converts them)."""
    n = len(index)
    close = list(ticks)
    opens = [open_tick] + close[:-1]
    lows = [min(a, b) for a, b in zip(opens, close)]
    highs = [max(a, b) for a, b in zip(opens, close)]
    conv = (lambda x: float(x)) if tick_dtype == "float" else (lambda x: int(x))
    df = pd.DataFrame(
        index=pd.DatetimeIndex(index),
        data={
            "netAmount0": [Decimal(0)] * n,
            "netAmount1": [Decimal(0)] * n,
            "closeTick": [conv(x) for x in close],
            "openTick": [conv(x) for x in opens],
            "lowestTick": [conv(x) for x in lows],
            "highestTick": [conv(x) for x in highs],
            "inAmount0": [Decimal(int(v[0])) for v in vols],
            "inAmount1": [Decimal(int(v[1])) for v in vols],
            "currentLiquidity": [Decimal(int(l)) for l in liq],
        },
    )
    if tick_dtype == "int":
        for c in ("closeTick", "openTick", "lowestTick", "highestTick"):
            df[c] = df[c].astype("int64")
    return df


class UniWorld:
    def __init__(
        self, rng, n=30, d0=6, d1=18, token0_is_quote=True, fee=0.05, start=T0, names=("USDC", "WETH"),
        price=None, path="walk", anchors=(), liq_exp=None, vol_scale=None, tick_dtype="float", step=None,
        center=None,
    ):
        from demeter import TokenInfo
        from demeter.uniswap import UniV3Pool

        self.t0 = TokenInfo(names[0], d0)
        self.t1 = TokenInfo(names[1], d1)
        self.pool = UniV3Pool(self.t0, self.t1, fee, self.t0 if token0_is_quote else self.t1)
        self.spacing = self.pool.tick_spacing
        self.token0_is_quote = token0_is_quote
        if center is None:
            if price is None:
                price = math.exp(rng.uniform(math.log(1e-3), math.log(1e5)))
            center = tick_for_price(price, d0, d1, token0_is_quote)
        self.center = center
        step = step if step is not None else max(3, self.spacing * rng.choice([1, 2, 5]))
        self.index = [start + timedelta(minutes=i) for i in range(n)]
        self.ticks = tick_path(rng, n, center, path, anchors, step)
        liq_exp = liq_exp if liq_exp is not None else rng.uniform(6, 30)
        base_liq = 10**liq_exp
        liq = [base_liq * rng.uniform(0.5, 1.5) for _ in range(n)]
        vs = vol_scale if vol_scale is not None else 10 ** rng.uniform(-2, 6)
        vols = [
            (
                0 if rng.random() < 0.1 else rng.uniform(0, vs) * 10**d0,
                0 if rng.random() < 0.1 else rng.uniform(0, vs) * 10**d1,
            )
            for _ in range(n)
        ]
        self.open_tick = center
        self.raw = uni_raw(rng, self.index, self.ticks, center, liq, vols, tick_dtype)

    def market(self, name="uni"):
        from demeter import MarketInfo, MarketTypeEnum
        from demeter.uniswap import UniLpMarket

        m = UniLpMarket(MarketInfo(name, MarketTypeEnum.uniswap_v3), self.pool)
        df = self.raw.copy()
        m.add_statistic_column(df)
        m.data = df
        return m


# ------------------------------------------------------------------ aave
AAVE_COLS = [
    "underlyingAsset", "name", "symbol", "decimals", "baseLTVasCollateral", "reserveLiquidationThreshold",
    "reserveLiquidationBonus", "reserveFactor", "usageAsCollateralEnabled", "borrowingEnabled", "optimalUsageRatio",
    "variableRateSlope1", "variableRateSlope2", "baseVariableBorrowRate", "supplyCap", "borrowCap",
    "borrowableInIsolation", "flashLoanEnabled",
]


class AaveWorld:
    """tokens: list of (name, decimals); risk rows generated (LTV < LT < 1, bonus 1-15%); index paths
    non-decreasing, different per token and liquidity != borrow index."""

    def __init__(self, rng, n=20, tokens=(("WETH", 18), ("USDC", 6), ("WBTC", 8), ("DAI", 18)), start=T0,
                 index_kind="slow", all_flags=False, prices=None, price_kind="walk"):
        from demeter import TokenInfo

        self.tokens = [TokenInfo(nm, d) for nm, d in tokens]
        self.index = [start + timedelta(minutes=i) for i in range(n)]
        self.risk = {}
        rows = []
        for k, t in enumerate(self.tokens):
            ltv = rng.randint(3000, 8500)
            lt = rng.randint(ltv + 100, min(9500, ltv + 1500))
            bonus = rng.randint(100, 1500)
            can_coll = True if (all_flags or k == 0) else rng.random() < 0.85
            can_borrow = True if (all_flags or k == 1) else rng.random() < 0.85
            if not can_coll:
                ltv = 0
            self.risk[t.name] = {
                "ltv": Decimal(ltv) / 10000, "lt": Decimal(lt) / 10000, "bonus": Decimal(bonus) / 10000,
                "collateral": can_coll, "borrow": can_borrow,
            }
            rows.append([
                # the bridged coin is listed under the symbol USDC too, as in the protocol's parameter files (the loader tells the two
                # rows apart by their reserve name and calls the bridged one USDC.E)
                "0x" + f"{k:040x}", {"USDC": "USD Coin", "USDC.E": "USD Coin (PoS)"}.get(t.name, f"{t.name} token"),
                "USDC" if t.name == "USDC.E" else t.name, t.decimal, ltv, lt, 10000 + bonus, 1000, can_coll,
                can_borrow, 9 * 10**26, 4 * 10**25, 6 * 10**26, 0, 0, 0, True, True,
            ])
        fd, self.risk_path = tempfile.mkstemp(prefix="risk-", suffix=".csv", dir=os.getcwd())
        os.close(fd)
        pd.DataFrame(rows, columns=AAVE_COLS).to_csv(self.risk_path, index=False)
        # index paths
        self.data = {}
        for t in self.tokens:
            li = Decimal(1) + D(round(rng.uniform(0, 0.4), 6))
            bi = li + D(round(rng.uniform(0.01, 0.3), 6))
            rows = []
            for i in range(n):
                if index_kind == "flat":
                    gl = gb = Decimal(0)
                elif index_kind == "slow":
                    gl, gb = D(round(rng.uniform(0, 2e-6), 12)), D(round(rng.uniform(0, 5e-6), 12))
                else:  # jumpy; long histories jump as hard but less often, so that an index stays within a few multiples of 1
                    rare = 1.0 if n <= 250 else 250.0 / n
                    gl = D(round(rng.choice([0, 0, 1e-6, 3e-3, 0.02]) * rng.random(), 12)) if rng.random() < rare else Decimal(0)
                    gb = D(round(rng.choice([0, 0, 2e-6, 5e-3, 0.05]) * rng.random(), 12)) if rng.random() < rare else Decimal(0)
                li = li * (1 + gl)
                bi = bi * (1 + gb)
                rows.append({
                    "liquidity_rate": D(round(rng.uniform(0, 0.08), 8)), "stable_borrow_rate": D(round(rng.uniform(0, 0.1), 8)),
                    "variable_borrow_rate": D(round(rng.uniform(0, 0.12), 8)), "liquidity_index": li,
                    "variable_borrow_index": bi,
                })
            self.data[t.name] = pd.DataFrame(rows, index=pd.DatetimeIndex(self.index))
        # prices (USD)
        self.prices = prices if prices is not None else price_frame(rng, self.index, [t.name for t in self.tokens], price_kind)

    def market(self, name="aave"):
        from demeter import MarketInfo, MarketTypeEnum
        from demeter.aave import AaveV3Market

        m = AaveV3Market(MarketInfo(name, MarketTypeEnum.aave_v3), self.risk_path, list(self.tokens))
        for t in self.tokens:
            m.set_token_data(t, self.data[t.name].copy())
        return m


def price_frame(rng, index, names, kind="walk", levels=None):
    """USD prices per token as Decimal; stable-coin-like names stay near 1."""
    cols = {}
    for nm in names:
        if levels and nm in levels:
            p = float(levels[nm])
        elif nm in ("USDC", "USDT", "DAI", "USD"):
            p = 1.0
        else:
            p = math.exp(rng.uniform(math.log(0.05), math.log(50000)))
        out = []
        for _ in index:
            if kind == "walk":
                p *= math.exp(rng.gauss(0, 0.004 if nm not in ("USDC", "USDT", "DAI") else 0.0003))
            elif kind == "crash":
                p *= math.exp(rng.gauss(-0.02, 0.03)) if nm not in ("USDC", "USDT", "DAI") else 1
            elif kind == "wild":
                p *= math.exp(rng.gauss(0, 0.08))
            out.append(D(f"{p:.12g}"))
        cols[nm] = out
    return pd.DataFrame(cols, index=pd.DatetimeIndex(index))


# ------------------------------------------------------------------ squeeth
class SqueethWorld:
    """norm-factor path, WETH/USD and oSQTH/ETH paths, and the oSQTH/WETH pool (token0 = WETH = quote)
    consistent with the oSQTH/ETH path."""

    def __init__(self, rng, n=40, start=T0, kind="calm", eth0=None, nf0=None, premium=None, liq_exp=None):
        from demeter.squeeth import SqueethMarket  # noqa

        self.index = [start + timedelta(minutes=i) for i in range(n)]
        eth = eth0 if eth0 is not None else rng.uniform(800, 4000)
        nf = nf0 if nf0 is not None else rng.uniform(0.2, 0.9)
        prem = premium if premium is not None else rng.uniform(0.95, 1.25)  # mark/index
        rows = []
        ticks = []
        for i in range(n):
            if kind == "calm":
                eth *= math.exp(rng.gauss(0, 0.0008))
            elif kind == "crash":
                eth *= math.exp(rng.gauss(0.004, 0.004))  # squeeth shorts are hurt by ETH going up
            elif kind == "spike":
                eth *= math.exp(rng.gauss(0, 0.0008)) * (rng.choice([1.0] * 12 + [1.12, 1.25, 0.85]))
            elif kind == "wick":
                pass
            if kind != "flat":
                nf *= 1 - rng.uniform(0, 2e-6)
                prem *= math.exp(rng.gauss(0, 0.0015))
            e = eth
            if kind == "wick" and i % 11 == 7:
                e = eth * 1.35
            osqth_eth = e * nf / 10000 * prem  # oSQTH price in ETH
            rows.append({"norm_factor": D(f"{nf:.15g}"), "WETH": D(f"{e:.10g}"), "OSQTH": D(f"{osqth_eth:.12g}")})
            # pool: token0 = WETH (quote), token1 = oSQTH, both 18 decimals; price(oSQTH in WETH) = 1/1.0001^tick
            ticks.append(int(math.floor(math.log(1 / osqth_eth) / LOG_1P0001)))
        self.data = pd.DataFrame(rows, index=pd.DatetimeIndex(self.index))
        self.data.index.name = "block_timestamp"
        self.ticks = ticks
        liq_exp = liq_exp if liq_exp is not None else rng.uniform(18, 24)
        liq = [10**liq_exp] * n
        vols = [(rng.uniform(0, 50) * 1e18, rng.uniform(0, 500) * 1e18) for _ in range(n)]
        self.uni_raw = uni_raw(rng, self.index, ticks, ticks[0], liq, vols, "float")

    def markets(self, uni_name="uni", sq_name="squeeth"):
        from demeter import MarketInfo, MarketTypeEnum, TokenInfo
        from demeter.squeeth import SqueethMarket
        from demeter.uniswap import UniLpMarket, UniV3Pool

        weth = TokenInfo("weth", 18)
        osqth = TokenInfo("osqth", 18)
        pool = UniV3Pool(weth, osqth, 0.3, weth)
        um = UniLpMarket(MarketInfo(uni_name, MarketTypeEnum.uniswap_v3), pool)
        df = self.uni_raw.copy()
        um.add_statistic_column(df)
        um.data = df
        sm = SqueethMarket(MarketInfo(sq_name, MarketTypeEnum.squeeth), um)
        sm.data = self.data.copy()
        return um, sm

    def prices(self):
        """USD price frame the way SqueethMarket.get_price_from_data builds it."""
        from demeter.squeeth.helper import get_price_from_data

        return get_price_from_data(self.data)


# ------------------------------------------------------------------ deribit
def option_name(token, expiry: datetime, strike: int, kind: str):
    return f"{token}-{expiry.strftime('%d%b%y').upper()}-{strike}-{'C' if kind == 'CALL' else 'P'}"


class DeribitWorld:
    """Hourly MultiIndex books (time, instrument_name).  Sorted best-first, bids <= mark <= asks."""

    def __init__(self, rng, hours=6, start=T0, n_instr=4, token="ETH", under0=None, missing_hours=(),
                 size_kind="mixed", expiries=None, closed_prob=0.1, level_max=8, strikes=None, vol=0.01, dyadic=False):
        self.token = token
        self.hours = [start + timedelta(hours=h) for h in range(hours)]
        under = under0 if under0 is not None else (rng.uniform(1500, 4000) if token == "ETH" else rng.uniform(20000, 70000))
        self.under = []
        tick = Decimal("0.0001") if token == "ETH" else Decimal("0.0001")
        step_k = 50 if token == "ETH" else 1000
        self.instruments = []
        for j in range(n_instr):
            kind = rng.choice(["CALL", "PUT"])
            strike = strikes[j] if strikes else int(round(under * rng.uniform(0.85, 1.15) / step_k) * step_k)
            if expiries:
                exp = expiries[j % len(expiries)]
            else:
                exp = start + timedelta(hours=rng.randint(1, hours + 30), minutes=rng.choice([0, 0, 0, 30]))
            self.instruments.append({"name": option_name(token, exp, strike, kind) + (f"x{j}" if False else ""),
                                     "kind": kind, "strike": strike, "expiry": exp})
        # de-duplicate names
        seen = set()
        for ins in self.instruments:
            while ins["name"] in seen:  # move the strike up until the name is new (a bumped name may hit another one)
                ins["strike"] += step_k
                ins["name"] = option_name(token, ins["expiry"], ins["strike"], ins["kind"])
            seen.add(ins["name"])
        rows = []
        for h in self.hours:
            under *= math.exp(rng.gauss(0, vol))
            self.under.append(under)
            if h in missing_hours:
                continue
            for ins in self.instruments:
                K = ins["strike"]
                intrinsic = max(0.0, (under - K) / under) if ins["kind"] == "CALL" else max(0.0, (K - under) / under)
                mark = intrinsic + rng.uniform(0.002, 0.06)
                mark = float(Decimal(str(mark)).quantize(Decimal("0.000001")))
                n_a, n_b = rng.randint(0, level_max), rng.randint(0, level_max)
                asks, bids = [], []
                p = float(Decimal(str(mark)).quantize(tick, rounding="ROUND_CEILING"))
                for _ in range(n_a):
                    p = round(p + float(tick) * rng.randint(1, 6) - (float(tick) if not asks else 0), 4)
                    p = max(p, round(float(Decimal(str(mark)).quantize(tick, rounding="ROUND_CEILING")), 4))
                    if asks and p <= asks[-1][0]:
                        p = round(asks[-1][0] + float(tick), 4)
                    asks.append([p, self._size(rng, size_kind)])
                p = float(Decimal(str(mark)).quantize(tick, rounding="ROUND_FLOOR"))
                for _ in range(n_b):
                    p = round(p - float(tick) * rng.randint(0 if not bids else 1, 6), 4)
                    if bids and p >= bids[-1][0]:
                        p = round(bids[-1][0] - float(tick), 4)
                    if p <= 0:
                        break
                    bids.append([p, self._size(rng, size_kind)])
                if dyadic:
                    # prices on a 1/1024 grid (exact as floats and as Decimals), levels at simple multiples of the mark
                    # (x1.25, x1.5, x2, x3 / the inverse): a price cap "multiple x mark" can fall exactly on a level
                    k = rng.choice([12, 16, 24, 48, 48, 96])
                    mark = k / 1024
                    ups = sorted(set(rng.sample([k, k + k // 4, k + k // 2, 2 * k, 3 * k, k + 1, k + 5, 2 * k + 3, 4 * k], min(n_a, 9))))
                    downs = sorted(set(rng.sample([k, k - k // 4, 2 * k // 3, k // 2, k // 3, k - 1, k - 5, k // 4], min(n_b, 8))), reverse=True)
                    asks = [[u / 1024, self._size(rng, size_kind)] for u in ups]
                    bids = [[d_ / 1024, self._size(rng, size_kind)] for d_ in downs if d_ > 0]
                state = "open" if rng.random() > closed_prob else "closed"
                rows.append({
                    "time": pd.Timestamp(h), "instrument_name": ins["name"], "state": state, "type": ins["kind"],
                    "strike_price": K, "t": pd.Timedelta(ins["expiry"] - h), "expiry_time": pd.Timestamp(ins["expiry"]),
                    "vega": 1.0, "theta": -1.0, "rho": 0.5, "gamma": round(rng.uniform(0.0001, 0.004), 5),
                    "delta": round(rng.uniform(-1, 1), 5), "underlying_price": round(under, 2),
                    # the option's own daily settlement price (in coins, about the size of its mark): empty for an instrument
                    # younger than a day, filled otherwise
                    "settlement_price": round(mark * 0.97, 6) if (K // step_k) % 3 == 0 else float("nan"),
                    "mark_price": mark, "mark_iv": 50.0, "last_price": mark, "interest_rate": 0.0, "bid_iv": 45.0,
                    "best_bid_price": bids[0][0] if bids else 0.0, "best_bid_amount": bids[0][1] if bids else 0.0,
                    "ask_iv": 55.0, "best_ask_price": asks[0][0] if asks else 0.0, "best_ask_amount": asks[0][1] if asks else 0.0,
                    "asks": asks, "bids": bids,
                })
        self.data = pd.DataFrame(rows).set_index(["time", "instrument_name"]).sort_index()

    @staticmethod
    def _size(rng, kind):
        if kind == "int":
            return rng.randint(1, 2000)
        if kind == "float":
            return float(rng.randint(1, 2000)) + rng.choice([0.0, 0.0, 0.5])
        return rng.choice([rng.randint(1, 2000), float(rng.randint(1, 400)), rng.randint(1, 5)])

    def market(self, name="deribit"):
        from demeter import MarketInfo, MarketTypeEnum
        from demeter.deribit import DeribitOptionMarket

        tok = DeribitOptionMarket.ETH if self.token == "ETH" else DeribitOptionMarket.BTC
        m = DeribitOptionMarket(MarketInfo(name, MarketTypeEnum.deribit_option), tok)
        import copy

        m.data = copy.deepcopy(self.data)
        return m

    def minute_prices(self, minutes_index):
        """underlying price (USD) per minute, stepwise constant per hour (as get_price_from_data would give)."""
        out = []
        for t in minutes_index:
            h = int((t - self.hours[0]).total_seconds() // 3600)
            h = max(0, min(len(self.under) - 1, h))
            out.append(D(f"{self.under[h]:.2f}"))
        return out


# ------------------------------------------------------------------ gmx v1
GMX_TOKENS = (("WETH", 18), ("WAVAX", 18), ("WBTC", 8), ("USDC", 6), ("MIM", 18))


class GmxWorld:
    def __init__(self, rng, n=20, start=T0, tokens=GMX_TOKENS, consistent_price=True, reward_rate=None):
        from demeter import TokenInfo

        self.tokens = [TokenInfo(nm, d) for nm, d in tokens]
        self.index = [start + timedelta(minutes=i) for i in range(n)]
        P = 10**30
        weights = {t.name: rng.choice([0, 1000, 5000, 10000, 20000, 46000]) for t in self.tokens}
        if all(w == 0 for w in weights.values()):
            weights[self.tokens[0].name] = 10000
        price = {}
        for t in self.tokens:
            if t.name in ("USDC", "MIM"):
                price[t.name] = 1.0
            else:
                price[t.name] = math.exp(rng.uniform(math.log(5), math.log(70000)))
        total_usdg = rng.uniform(1e5, 5e7)
        tw = sum(weights.values())
        rows = []
        supply = total_usdg * rng.uniform(0.9, 1.3)
        rate = reward_rate if reward_rate is not None else rng.uniform(1e11, 1e15)
        # governance changes token weights now and then (the total changes with them): half of the worlds
        weight_steps = rng.random() < 0.5
        self.weight_changes = 0
        for i in range(n):
            row = {}
            usdg_sum = 0
            if weight_steps and i > 0 and rng.random() < 0.2:
                nm = rng.choice(self.tokens).name
                neww = rng.choice([0, 1000, 3000, 5000, 10000, 20000, 46000])
                if neww != weights[nm] and (neww > 0 or sum(1 for w in weights.values() if w > 0) > 1):
                    weights[nm] = neww
                    tw = sum(weights.values())
                    self.weight_changes += 1
            for t in self.tokens:
                price[t.name] *= math.exp(rng.gauss(0, 0.002 if t.name not in ("USDC", "MIM") else 0.0))
                row[f"{t.name.lower()}_price"] = Decimal(int(price[t.name] * 1e12)) * 10**18
                target = total_usdg * weights[t.name] / tw
                dev = rng.choice([0.0, 0.3, 0.9, 1.0, 1.0, 1.1, 2.0, 3.5])
                amt = (target if target > 0 else total_usdg * 0.01) * dev * rng.uniform(0.98, 1.02)
                row[f"{t.name.lower()}_usdg"] = Decimal(int(amt * 1e6)) * 10**12
                row[f"{t.name.lower()}_weight"] = weights[t.name]
                usdg_sum += int(amt * 1e6) * 10**12
            row["usdg"] = Decimal(int(total_usdg * 1e6)) * 10**12
            aum_usd = total_usdg * rng.uniform(0.95, 1.1)
            row["aum"] = Decimal(int(aum_usd * 1e6)) * 10**24
            row["glp"] = Decimal(int(supply * 1e6)) * 10**12
            row["interval"] = float(int(rate))
            row["glp_price"] = (row["aum"] / Decimal(10**12) / row["glp"]) if consistent_price else D(f"{aum_usd / supply * rng.uniform(0.97, 1.03):.12g}")
            rows.append(row)
        self.data = pd.DataFrame(rows, index=pd.DatetimeIndex(self.index))

    def market(self, name="gmx"):
        from demeter import MarketInfo, MarketTypeEnum
        from demeter.gmx import GmxMarket

        m = GmxMarket(MarketInfo(name, MarketTypeEnum.gmx_v1), tokens=list(self.tokens))
        # the way tokens get registered varies with the world (by its first token's name, no extra random draw): all at once,
        # or again one by one (a token the market already knows is still one token of the whitelist)
        if sum(map(ord, self.tokens[0].name)) % 3 == 0 or len(self.tokens) % 2:
            m.add_token(self.tokens[0])
            m.add_token(list(self.tokens[-2:]))
        m.data = self.data.copy()
        return m

    def prices(self):
        df = pd.DataFrame(index=self.data.index)
        for t in self.tokens:
            df[t.name] = self.data[f"{t.name.lower()}_price"].apply(lambda r: r / Decimal(10**30))
        return df


# ------------------------------------------------------------------ gmx v2
class Gmx2World:
    def __init__(self, rng, n=20, start=T0, long=("WETH", 18), short=("USDC", 6), impact_pool=None, balance=None):
        from demeter import TokenInfo

        self.long = TokenInfo(*long)
        self.short = TokenInfo(*short)
        self.index = [start + timedelta(minutes=i) for i in range(n)]
        lp = rng.uniform(500, 4000)
        # the short token is a stable coin that is not exactly at its peg, or (one world in five) another asset altogether
        sp = rng.choice([1.0, 0.9993, 1.0008, 0.9871, rng.uniform(0.2, 30.0)])
        pool_usd = math.exp(rng.uniform(math.log(1e5), math.log(5e8)))
        ratio = balance if balance is not None else rng.choice([1.0, 1.0, 0.5, 2.0, 0.1, 10.0])
        long_usd = pool_usd * ratio / (1 + ratio)
        short_usd = pool_usd - long_usd
        supply = pool_usd / rng.uniform(0.8, 2.0)
        ip = impact_pool if impact_pool is not None else rng.choice([0.0, 0.0, 1.0, 50.0, 5000.0])
        rows = []
        for i in range(n):
            lp *= math.exp(rng.gauss(0, 0.002))
            la, sa = long_usd / lp, short_usd / sp
            pv = (la * lp + sa * sp) * rng.uniform(0.97, 1.03)
            rows.append({
                "longAmount": la, "shortAmount": sa,
                "virtualSwapInventoryLong": la * rng.uniform(0.5, 3), "virtualSwapInventoryShort": sa * rng.uniform(0.5, 3),
                "poolValue": pv, "marketTokensSupply": supply, "impactPoolAmount": ip,
                "longPrice": lp, "shortPrice": sp, "indexPrice": lp,
            })
        self.data = pd.DataFrame(rows, index=pd.DatetimeIndex(self.index))
        # one world in four has a steep negative impact factor: with a large imbalance (or virtual inventory) the marginal
        # impact 2 x imbalance x factor of a deposit on the heavy side exceeds the deposit itself
        self.neg_factor = rng.choice([None, None, None, 2e-9, 1e-8])

    def market(self, name="gmx2"):
        from demeter import MarketInfo, MarketTypeEnum
        from demeter.gmx import GmxV2Market
        from demeter.gmx._typing2 import GmxV2Pool

        m = GmxV2Market(MarketInfo(name, MarketTypeEnum.gmx_v2), GmxV2Pool(self.long, self.short, self.long))
        m.data = self.data.copy()
        if self.neg_factor:
            m.pool_config.swapImpactFactorNegative = self.neg_factor
            m.pool_config.swapImpactFactorPositive = self.neg_factor / 2
        return m

    def prices(self):
        df = pd.DataFrame(index=self.data.index)
        df[self.long.name] = self.data["longPrice"].apply(lambda x: D(repr(float(x))))
        df[self.short.name] = self.data["shortPrice"].apply(lambda x: D(repr(float(x))))
        return df
