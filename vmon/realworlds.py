"""Worlds cut from the real history files under <repo>/tests/data, loaded with demeter's OWN loaders (so that the
loaders' gap filling / conversions are inside the monitored path).  Same surface as the synthetic worlds of worlds.py
where it matters: .index, .raw (input rows without the derived statistic columns), .pool, .market(name).

  polygon  USDC/WETH 0.05%  0x45dda9cb7c25131df268515131f647d726f50608  2023-08-13..17, 2024-02-15..16   (token0 = USDC = quote)
  ethereum WETH/oSQTH 0.3%   0x82c427adfdf2d245ec51d8046b41c4ee87f0d29c  2023-08-14..17                   (token0 = WETH = quote)
  ethereum squeeth controller (norm factor, WETH, OSQTH)                 2023-08-14..17
  polygon  aave v3 WETH reserve                                          2023-08-14..17
"""
import os
from datetime import date, timedelta

import pandas as pd

from . import env

STAT_COLS = ("open", "close", "price", "low", "high", "volume0", "volume1")
_cache = {}

POLY_ADDR = "0x45dda9cb7c25131df268515131f647d726f50608"
ETH_ADDR = "0x82c427adfdf2d245ec51d8046b41c4ee87f0d29c"
POLY_SPANS = [(date(2023, 8, 13), date(2023, 8, 17)), (date(2024, 2, 15), date(2024, 2, 16))]
ETH_SPAN = (date(2023, 8, 14), date(2023, 8, 17))


def _load_uni(which, span):
    key = (which, span)
    if key in _cache:
        return _cache[key]
    from demeter import TokenInfo
    from demeter.uniswap import UniV3Pool
    from demeter.uniswap.helper import load_uni_v3_data

    if which == "polygon":
        t0, t1 = TokenInfo("USDC", 6), TokenInfo("WETH", 18)
        pool = UniV3Pool(t0, t1, 0.05, t0)
        df = load_uni_v3_data(pool, "polygon", POLY_ADDR, span[0], span[1], env.TESTDATA)
    else:
        t0, t1 = TokenInfo("weth", 18), TokenInfo("osqth", 18)
        pool = UniV3Pool(t0, t1, 0.3, t0)
        df = load_uni_v3_data(pool, "ethereum", ETH_ADDR, span[0], span[1], env.TESTDATA)
    _cache[key] = (pool, df)
    return _cache[key]


class RealUniWorld:
    """a window of n consecutive minutes of a real pool."""

    def __init__(self, rng, n=60, which="polygon", start=None):
        span = rng.choice(POLY_SPANS) if which == "polygon" else ETH_SPAN
        pool, full = _load_uni(which, span)
        self.which = which
        self.pool = pool
        self.t0, self.t1 = pool.token0, pool.token1
        self.token0_is_quote = True
        self.spacing = pool.tick_spacing
        n = min(n, len(full.index))
        if start is None:
            start = rng.randrange(0, len(full.index) - n + 1)
        win = full.iloc[start:start + n]
        self.raw = win.drop(columns=[c for c in STAT_COLS if c in win.columns]).copy()
        self.index = list(self.raw.index.to_pydatetime())
        self.ticks = [int(x) for x in self.raw["closeTick"]]
        self.open_tick = int(self.raw["openTick"].iloc[0])
        self.center = self.ticks[0]
        self.info = {"real": which, "span": [str(span[0]), str(span[1])], "start_row": start, "rows": n}

    def market(self, name="uni"):
        from demeter import MarketInfo, MarketTypeEnum
        from demeter.uniswap import UniLpMarket

        m = UniLpMarket(MarketInfo(name, MarketTypeEnum.uniswap_v3), self.pool)
        df = self.raw.copy()
        m.add_statistic_column(df)
        m.data = df
        return m


def _load_squeeth():
    if "squeeth" in _cache:
        return _cache["squeeth"]
    from demeter.squeeth.helper import load_squeeth_data

    df = load_squeeth_data(ETH_SPAN[0], ETH_SPAN[1], env.TESTDATA)
    _cache["squeeth"] = df
    return df


class RealSqueethWorld:
    """the real squeeth controller rows + the real oSQTH/WETH pool over the same window."""

    def __init__(self, rng, n=60, start=None):
        pool, uni = _load_uni("ethereum", ETH_SPAN)
        sq = _load_squeeth()
        common = uni.index.intersection(sq.index)
        n = min(n, len(common))
        if start is None:
            start = rng.randrange(0, len(common) - n + 1)
        idx = common[start:start + n]
        self.pool = pool
        self.index = list(idx.to_pydatetime())
        self.uni_raw = uni.loc[idx].drop(columns=[c for c in STAT_COLS if c in uni.columns]).copy()
        self.sq_raw = sq.loc[idx].copy()
        self.info = {"real": "squeeth", "start_row": start, "rows": n}

    def markets(self, uni_name="uni", sq_name="squeeth"):
        from demeter import MarketInfo, MarketTypeEnum
        from demeter.squeeth import SqueethMarket
        from demeter.uniswap import UniLpMarket

        um = UniLpMarket(MarketInfo(uni_name, MarketTypeEnum.uniswap_v3), self.pool)
        df = self.uni_raw.copy()
        um.add_statistic_column(df)
        um.data = df
        sm = SqueethMarket(MarketInfo(sq_name, MarketTypeEnum.squeeth), um)
        sm.data = self.sq_raw.copy()
        return um, sm


def available():
    return os.path.isdir(env.TESTDATA) and any(f.startswith("polygon-" + POLY_ADDR) for f in os.listdir(env.TESTDATA))
